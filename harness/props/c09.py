"""C09 — a change of process identity (fork) never loses or double-counts updates.

Real code: ONE `MultiProcessValue` class whose `process_identifier` reads a mutable cell (harness/mpsim.py, C09 style),
wrapped so that every value-object call is logged.  A history is a metric-level script (create / labels() / inc / dec /
observe / set at a scripted time / read via `metric.collect()` / Counter.reset) with identity changes `['pid', p]`
inserted systematically at every position (one change, and two changes incl. returning to the first identity or going
to a third) of hand-written base histories, plus seeded random longer ones.  After EVERY step the harness reads every
`*.db` file through the real store reader and runs the real collector.  Thorough tier (two cheap cases in the quick
tier): real `os.fork()` with `MultiProcessValue()` on the real `os.getpid`.

ORACLE (independent of the Lean model; from the metric-level script and the property text):
 (a) C09:foreign-file-written — a step executed under identity p changes or creates only files named `*_<p>.db`
     (an identity change by itself changes nothing; no file ever disappears);
 (b) C09:conservation — collected counters, summary _count/_sum and histogram buckets/_count/_sum equal the totals of
     all updates ever issued, whatever identity issued them (amounts are multiples of 1/8 below 2^41 or ±inf/NaN, so
     the totals are exact in any order); Counter.reset() zeroes the ACTING identity's own cell of that series only
     (the expected total is the sum over identities of each identity's own cell; later incs count from 0), and right
     after a reset the entry in `counter_<current identity>.db` must read (0.0, 0.0) (C09:reset-not-zero);
 (c) C09:per-pid-gauge — for gauges of mode all/liveall every identity that made at least one value-level call while
     the child existed has exactly one series pid=<identity> showing what was last set/inc'ed under THAT identity
     (0.0 if never), identities that did nothing since the child exists have none;
 (d) C09:rebind-cache — after every step that reached a value object, each value object's cached (value, set-time)
     equals what `<prefix>_<current identity>.db` holds for its key.
MODEL: the value-level log of the same history is one `c08 hist` request; the whole directory after every value-level
call and every `get` result are compared with the real ones.

WORLD histories (family "generations"): several worker generations on ONE directory.  `['W', pid]` starts a NEW worker
(a fresh value class with its own identity cell, NEW metric objects, value-object indices restarting at 0; the files of
the generation that was acting are closed, as process exit does) — often with a REUSED pid, with or without a preceding
death; `['D', pid]` is the real `multiprocess.mark_process_dead(pid, dir)`; a D of an identity the acting generation has
used ends that generation (the next metric-level step starts a new worker under the last identity if the script has
no W there, so shrunk step lists stay valid).  All ten gauge modes are checked in every history, per identity, with the
aggregate written for C08 (`props.c08.Oracle`, fed from the metric-level script only):
 (a) also: a `D p` step removes exactly the existing `gauge_<live mode>_<p>.db` and changes nothing else
     (C09:dead-removed-wrong-files); a `W` step changes nothing;
 (b) conservation holds across death and reuse: totals of ALL updates of ALL generations and identities;
 (c) non-live gauges survive death and a reused pid CONTINUES from what its files hold (C09:reuse-continues when a W
     happened before); after `D p` identity p contributes nothing to the live* gauges until a generation under p touches
     the child again, and then from 0.0 (C09:live-gauge-survived-death when a D happened before); without W/D the
     sig is C09:per-pid-gauge (all/liveall) or C09:gauge-aggregate;
 (d) per generation.
The whole world (W/D tokens interleaved with the generations' value-level logs) is ONE `c08 hist` request.

remove()/clear() then labels() again (main stream): `['remove', mi, labelvalues]` = `parent.remove(*labelvalues)`,
`['clear', mi]` = `parent.clear()` (labelled metrics only; ignored otherwise).  The old child handle is DROPPED — the
harness never keeps child handles, every step goes through `labels()`, so the next step on that child constructs NEW
value objects on the SAME keys (a second `C` with identical params in the value-level log).  Expectation from the
property text: remove/clear touch no file, the re-created child CONTINUES from what the current identity's file holds,
so (a)-(d) apply unchanged and the oracle's bookkeeping is not reset (a removed child that is never re-created still
contributes its old value); the dropped value objects may be stale and are excluded from (d).

STALE HANDLES: `['keep', mi, labelvalues, name]` keeps the child object `parent.labels(*labelvalues)` under a handle name;
after remove()/clear() and a new labels() there are then TWO live child objects on the same keys, and
`['old-inc' | 'old-dec' | 'old-set' | 'old-observe', name, amount(, time)]` updates through the KEPT object (its value
objects keep their original indices in the value-level log).  The closure re-binds EVERY value object it ever made on an
identity change, so an update through an object is exact whenever no OTHER object has written the same key under the
current identity since this object last read the file (construction or re-binding).  The harness tracks exactly that
(`Inst.stale`): histories where it always holds keep all oracles ('stale-handle:epoch-single-object' when every key
has one updating object per identity epoch, 'stale-handle:sequential-handover' otherwise); an update through a stale
object loses updates in the library itself (the known two-live-values behaviour) — from there on the history
('stale-handle:interleaved') keeps only the no-exception, file-level and model-comparison checks.  (d) skips stale objects.

GROWTH: histories with `prometheus_client.mmap_dict._INITIAL_MMAP_SIZE` patched to a small value (case key
'initial_mmap_size'; restored afterwards) in which one identity creates enough labelled children for its file to grow
past the initial size (checked with os.path.getsize: 'growth:file-grew'; a history marked 'expect_growth' that does
not grow is a harness error), leaves that identity and comes BACK to the grown file (identity change, via a third
identity, a new worker re-using the pid, death + new worker), then updates existing children and creates new ones: all
oracles apply unchanged (the model knows no file sizes and must simply agree).  One unpatched history creates ~700
children of one counter in a single `['bulk', mi, n, label_value_length, amount]` step so that counter_<pid>.db exceeds
65536 bytes (model comparison off for that one: the driver's reply repeats the whole directory after every call).

CORRUPT STORE FILES: a key in a file the library itself wrote that is no longer the canonical JSON text of
[str, str, {str: str}, str] is an oracle failure (C09:store-file-corrupt), not an infrastructure error; the model
comparison of that history stops at the first value-level call after which such a key is on disk.
KEY ORDER: family 'order' — the identity switched TO already has per-type files whose key order differs from the acting
worker's creation order (an earlier worker generation created the same metrics in another order, or other/extra
metrics first; also a leading throw-away generation that pre-populates the directory before the first real worker),
then updates through every value; 'order:rebind-into-differently-ordered-file' counts the re-bindings that meet one.
STRING identities: look-alike groups of c08.ID_GROUPS ('w-0b', 'w-0d', 'w-0', ...) occur together in one history.
Identities never contain '_', so `basename.endswith('_<identity>.db')` is an exact test of the file's identity.

CONCURRENT FORK TREES (family 'concurrent-fork', quick + thorough; section "concurrent fork tree" below): REAL os.fork()
of the harness process with the PARENT RUNNING ON next to its children — the situation of every pre-forking server, and
the one thing simulated identities cannot show: after a fork the child holds a COPY of the parent's open store handles
(mapping, used size, positions) as they were at the fork, while the parent keeps appending series to, growing and
updating the very same files.  `mpsim.ForkTree` runs one process at a time and fixes the interleaving with pipes (no
sleeps).  Scripts: for 4 metric pools EVERY interleaving of the parent's three post-fork steps (new series, existing
series, new series in another file) with the child's first two operations; chains (the child forks a grandchild before
or after its own first operation, exits before it); several children forked at different file sizes; children that never
act; files that grow (initial size patched to 256/512) between the fork and the child's first operation; seeded random
trees (<= 4 forks, depth <= 3).  Oracles, after every action, all processes idle: C09:child-wrote-parent-file /
C09:foreign-file-written (raw bytes of every file that is not the acting process's own are unchanged — header, entries,
size, tail), C09:fork-conservation (collected totals = updates issued by all processes), C09:fork-per-pid-gauge /
C09:fork-gauge-aggregate (per-process gauge contributions).  No model comparison (the Lean model has one acting closure).

FALSY identities: the identity pool contains 0 (and the empty string, which the clean library accepts end to end: files
`counter_.db`, pid label '') — as the initial identity, as the target of a change, as the identity returned to, as a
reused pid of a new worker and as the argument of mark_process_dead; the systematic families are re-run with 10 or 11
renamed to 0 / '' (`rename_ids`).  Harness invariant,
reported as C09:dropped-child-used: after a remove/clear no logged inc/set/get refers to a dropped value object.
"""
import hashlib
import json
import os
import time

import lib
import mpsim
from mpsim import feq
from props import c08
from props.c08 import B, LAYOUTS, mdef

INF = c08.INF


def is_perpid(md):
    return md['kind'] == 'gauge' and md['mode'] in ('all', 'liveall')


def raw_equal(a, b):
    return len(a) == len(b) and all(x[0] == y[0] and lib.bits_of(x[1]) == lib.bits_of(y[1]) and
                                    lib.bits_of(x[2]) == lib.bits_of(y[2]) for x, y in zip(a, b))


# ================================================================================================== the oracle
class Oracle:
    def __init__(self, pool):
        self.pool = pool
        self.children = []      # (mi, lvs) existing in the acting worker's memory, in creation order
        self.totals = {}        # (mi, lvs) -> [amounts]  (counter incs / observations) of ALL generations and identities
        self.ccells = {}        # counters: (mi, lvs) -> {identity: that identity's own cell}  (reset zeroes one cell)
        self.agg = c08.Oracle(pool)     # gauges only: what each identity holds (per identity, across generations)
        self.deaths = 0
        self.spawns = 0

    def create_child(self, mi, lvs):
        """-> True when the child is new in the acting worker's memory (its value objects get constructed)"""
        self.totals.setdefault((mi, lvs), [])
        if (mi, lvs) in self.children:
            return False
        self.children.append((mi, lvs))
        return True

    def touched(self, pid):
        """identity `pid` reached a value object: every gauge child of the acting worker now has a cell of its own in
        `pid`'s files — continuing from what those files hold, 0.0 when they hold nothing"""
        for mi, lvs in self.children:
            if self.pool[mi]['kind'] == 'gauge':
                self.agg.create_child(pid, mi, lvs)

    def update(self, pid, mi, lvs, op, x, t):
        kind = self.pool[mi]['kind']
        if kind == 'gauge':
            self.agg.update(pid, mi, lvs, op, x, t)
        elif kind == 'counter':
            cells = self.ccells.setdefault((mi, lvs), {})
            cells[pid] = 0.0 if op == 'reset' else cells.get(pid, 0.0) + x
        else:
            self.totals[(mi, lvs)].append(x)

    def new_worker(self):
        self.children = []
        self.spawns += 1

    def dead(self, pid):
        self.agg.dead(pid)
        self.deaths += 1

    def expected_conserved(self):
        """{family: {(sample name, labels): total}} for counters, summaries, histograms never reset"""
        out = {}
        for (mi, lvs), amounts in self.totals.items():
            md = self.pool[mi]
            if md['kind'] == 'gauge':
                continue
            n = md['name']
            L = tuple(sorted(zip(md['labels'], lvs)))
            fam = out.setdefault(n, {})
            tot = 0.0
            for a in amounts:
                tot += a
            if md['kind'] == 'counter':
                for v in self.ccells.get((mi, lvs), {}).values():
                    tot += v
                fam[(n + '_total', L)] = tot
            elif md['kind'] == 'summary':
                fam[(n + '_count', L)] = float(len(amounts))
                fam[(n + '_sum', L)] = tot
            else:
                fam[(n + '_sum', L)] = tot
                for b, text in LAYOUTS[md['layout']]:
                    fam[(n + '_bucket', tuple(sorted(L + (('le', text),))))] = float(sum(1 for a in amounts if a <= b))
                fam[(n + '_count', L)] = float(sum(1 for a in amounts if a <= INF))
        return out

    def gauge_sig(self, md):
        live = md['mode'].startswith('live')
        if live and self.deaths:
            return 'C09:live-gauge-survived-death'
        if not live and self.spawns:
            return 'C09:reuse-continues'
        return 'C09:per-pid-gauge' if is_perpid(md) else 'C09:gauge-aggregate'

    def check_gauges(self, canon):
        """the collected gauge families against the per-identity aggregate; -> [(sig, what)]"""
        probs = []
        exp = self.agg.expected()
        for md in self.pool:
            if md['kind'] != 'gauge':
                continue
            n = md['name']
            rs = canon.get(n, (None, None, {}))[2]
            es = exp.get(n, (None, None, {}, md))[2]
            for k in sorted(set(rs) - set(es)):
                probs.append((self.gauge_sig(md), 'gauge %s (%s): series %s%r=%r is collected but no %sidentity holds it' % (
                    n, md['mode'], k[0], dict(k[1]), rs[k], 'live ' if md['mode'].startswith('live') else '')))
            for k in sorted(set(es) - set(rs)):
                if es[k][0] != 'opt':
                    probs.append((self.gauge_sig(md), 'gauge %s (%s): series %s%r (%s %r) is not collected' % (
                        n, md['mode'], k[0], dict(k[1]), es[k][0], es[k][1])))
            for k in sorted(set(es) & set(rs)):
                if not c08.spec_ok(es[k], rs[k]):
                    probs.append((self.gauge_sig(md), 'gauge %s (%s): series %s%r collected %r, the history demands %s %r' % (
                        n, md['mode'], k[0], dict(k[1]), rs[k], es[k][0], es[k][1])))
        return probs


def check_exact(canon, expected, sig):
    probs = []
    for name, es in expected.items():
        rs = canon.get(name, (None, None, {}))[2]
        if set(rs) != set(es):
            probs.append((sig, 'family %s: series missing %s, unexpected %s' % (
                name, sorted(set(es) - set(rs))[:4], sorted(set(rs) - set(es))[:4])))
            continue
        for k in sorted(es):
            if not feq(es[k], rs[k]):
                probs.append((sig, 'family %s: series %s%r collected %r, the history demands %r' % (
                    name, k[0], dict(k[1]), rs[k], es[k])))
                break
    return probs


# ================================================================================================== running a history
class Result:
    def __init__(self):
        self.failures = []      # (sig, what, step index)
        self.line = None        # c08 hist request
        self.snaps = {}         # value-level op index -> canonical directory snapshot
        self.gets = {}
        self.nops = 0
        self.key = None
        self.sample = None
        self.counts = {}
        self.grown_sizes = {}

    def count(self, k, n=1):
        self.counts[k] = self.counts.get(k, 0) + n


def file_prefix_of(obj):
    typ, mode = obj._params[0], obj._params[6]
    return typ + '_' + mode if typ == 'gauge' else typ


def oracle_a(res, i, pid, before, after, kind):
    """kind: 'op' (a step executed under identity pid), 'pid' (identity change), 'W' (new worker), 'D' (death of pid)"""
    if kind == 'D':
        from prometheus_client.metrics import Gauge
        doomed = set('gauge_%s_%s.db' % (m, pid) for m in Gauge._MULTIPROC_MODES if m.startswith('live'))
        for bn in before:
            if (bn not in after) != (bn in doomed):
                res.failures.append(('C09:dead-removed-wrong-files', 'mark_process_dead(%s) %s %s' % (
                    pid, 'removed' if bn not in after else 'left', bn), i))
        for bn, entries in after.items():
            if bn not in before or not raw_equal(before[bn], entries):
                res.failures.append(('C09:dead-removed-wrong-files', 'mark_process_dead(%s) %s %s' % (
                    pid, 'changed' if bn in before else 'created', bn), i))
        return
    for bn in before:
        if bn not in after:
            res.failures.append(('C09:foreign-file-written', 'file %s disappeared during a step under identity %s' % (bn, pid), i))
    for bn, entries in after.items():
        if bn in before and raw_equal(before[bn], entries):
            continue
        verb = 'created' if bn not in before else 'changed'
        if kind == 'pid':
            res.failures.append(('C09:foreign-file-written', 'file %s %s by the identity change itself' % (bn, verb), i))
        elif kind == 'W':
            res.failures.append(('C09:foreign-file-written', 'file %s %s by the start of a new worker' % (bn, verb), i))
        elif not bn.endswith('_%s.db' % pid):
            res.failures.append(('C09:foreign-file-written', 'file %s %s by a step executed under identity %s' % (bn, verb, pid), i))


def oracle_unreadable(res, i, snap):
    """a store file the library's own reader cannot read (it raised): the collector cannot read it either"""
    for bn, cls, msg in mpsim.unreadable_files(snap):
        res.failures.append(('C09:store-file-unreadable:' + cls, 'the store reader raised %s on %s: %s' % (cls, bn, msg), i))


def oracle_corrupt(res, i, snap):
    """a key the library wrote that no longer decodes as the canonical JSON of [name, sample name, {labels}, help]"""
    for bn, j, raw in mpsim.corrupt_keys(snap):
        res.failures.append(('C09:store-file-corrupt', 'entry %d of %s has the key %r, which is not the canonical JSON text of '
                             '[name, sample name, {labels}, help]' % (j, bn, raw[:160]), i))


def oracle_raw(res, i, kind, pid, before, after, exempt=()):
    """"the previous identity's files are never written again by the new process", on the BYTES: a step executed under
    identity `pid` must leave every file not named `…_<pid>.db` byte-identical (same size, same content, unused tail
    included); an identity change by itself, a new worker starting and mark_process_dead (for the files it leaves)
    change no byte at all.  `exempt`: identities of a worker process that EXITS in this step (closing is its own act)."""
    for bn, raw in before.items():
        if bn not in after or after[bn] == raw:
            continue
        if kind == 'op' and bn.endswith('_%s.db' % pid):
            continue
        if any(bn.endswith('_%s.db' % q) for q in exempt):
            continue
        how = 'size %d -> %d' % (len(raw), len(after[bn])) if len(raw) != len(after[bn]) else 'same size %d, content differs' % len(raw)
        who = {'op': 'a step executed under identity %s' % pid, 'pid': 'the identity change itself',
               'W': 'the start of a new worker', 'D': 'mark_process_dead(%s)' % pid}[kind]
        res.failures.append(('C09:foreign-file-written', 'file %s rewritten (%s) by %s' % (bn, how, who), i))


def oracle_bc(res, i, oracle, collected):
    canon, dups = mpsim.canon_fams(collected)
    for d in dups:
        res.failures.append(('C09:conservation', 'collector output: ' + d, i))
    for sig, what in check_exact(canon, oracle.expected_conserved(), 'C09:conservation'):
        res.failures.append((sig, what, i))
    for sig, what in oracle.check_gauges(canon):
        res.failures.append((sig, what, i))
    return canon


def oracle_d(res, i, objs, pid, after, skip=()):
    for idx, obj in enumerate(objs):
        if not hasattr(obj, '_key') or idx in skip:
            continue
        fn = '%s_%s.db' % (file_prefix_of(obj), pid)
        held = [(v, t) for k, v, t in after.get(fn, []) if k == obj._key]
        if len(held) != 1:
            res.failures.append(('C09:rebind-cache', 'value object %d %r: its key occurs %d times in %s' % (
                idx, obj._params[1:5], len(held), fn), i))
        elif not (feq(held[0][0], obj._value) and feq(held[0][1], obj._timestamp)):
            res.failures.append(('C09:rebind-cache', 'value object %d %r caches (%r, %r) but %s holds %r' % (
                idx, obj._params[1:5], obj._value, obj._timestamp, fn, held[0]), i))


class Inst:
    """one child metric object as the value-level log sees it: the value objects it constructed"""

    def __init__(self, key, idxs):
        self.key = key          # (mi, lvs)
        self.idxs = set(idxs)   # value-object indices in the worker's log
        self.stale = False      # another object wrote this key (same identity) since this one last read the file
        self.kept = None        # handle name when the script keeps the object
        self.handle = None


class Worker:
    """one worker generation: its own value class + identity cell + metric objects + value-object numbering"""

    def __init__(self, sim, pool, pid, log, variant):
        self.log = log
        self.cls, self.cell = sim.cell_class(pid, log)
        self.proc = c08.RealProc(self.cls, pool, sim.use, sim.clock, variant)
        self.ids = {pid}
        self.cur = {}           # (mi, lvs) -> Inst the parent metric holds now
        self.insts = []
        self.handles = {}       # handle name -> Inst kept by the script
        self.removed = set()    # (mi, lvs) removed/cleared and not re-created yet
        self.dropped = set()    # value-object indices of dropped children that nobody kept (never used again)
        self.remembered = pid   # the identity the closure is bound to (changes at the first value-level call after a change)
        self.writers = {}       # this identity epoch: (mi, lvs) -> ids of the objects that updated it
        self.handover = False   # some key was updated through two objects within one epoch
        self.unsafe = False     # an update went through an object whose cache was stale: the library itself loses updates

    def sync(self):
        """a value-level call happened: if the identity changed, every value object was re-bound (re-read its file)"""
        if self.cell[0] != self.remembered:
            self.remembered = self.cell[0]
            for x in self.insts:
                x.stale = False
            self.writers = {}

    def child(self, mi, lvs):
        """proc.child + bookkeeping of newly constructed value objects; -> (child metric object, Inst | None)"""
        n0 = len(self.log.objs)
        c = self.proc.child(mi, lvs)
        if len(self.log.objs) > n0:
            self.sync()
            inst = Inst((mi, lvs), range(n0, len(self.log.objs)))
            self.insts.append(inst)
            self.cur[(mi, lvs)] = inst
        return c, self.cur.get((mi, lvs))

    def wrote(self, inst, needs_cache):
        self.sync()
        if needs_cache and inst.stale:
            self.unsafe = True
        for x in self.insts:
            if x is not inst and x.key == inst.key:
                x.stale = True
        ws = self.writers.setdefault(inst.key, set())
        ws.add(id(inst))
        if len(ws) > 1:
            self.handover = True

    def skip_d(self):
        out = set(self.dropped)
        for x in self.insts:
            if x.stale:
                out |= x.idxs
        return out

    def drop(self, pool, mi, lvs=None):
        """the children of metric mi (only the one with label values lvs, if given) were removed from the parent"""
        gone = [c for c in self.cur if c[0] == mi and (lvs is None or c[1] == lvs)]
        for c in gone:
            inst = self.cur.pop(c)
            self.removed.add(c)
            if inst.kept is None:
                self.dropped |= inst.idxs
        return len(gone)


def different_order(w, before, pid):
    """is some file of identity `pid` that existed BEFORE this step laid out differently from what the acting worker
    alone would have produced (its keys of that file prefix in creation order)"""
    mine = {}
    for obj in w.log.objs:
        if hasattr(obj, '_key') and hasattr(obj, '_params'):
            mine.setdefault(file_prefix_of(obj), []).append(obj._key)
    for pre, keys in mine.items():
        entries = before.get('%s_%s.db' % (pre, pid))
        if not entries or isinstance(entries, mpsim.Unreadable):
            continue
        on_disk = [e[0] for e in entries]
        if on_disk != keys[:len(on_disk)]:     # not what this worker alone would have laid out
            return True
    return False


def needs_cache(md, uop):
    """does this update read the value object's cached value (everything except a plain set)"""
    return not (uop in ('set', 'reset', 'settime'))


def run_history(scen, want_sample=False):
    """run one history; `initial_mmap_size` in the case patches the store's initial file size for its duration"""
    from prometheus_client import mmap_dict
    saved = mmap_dict._INITIAL_MMAP_SIZE
    try:
        if scen.get('initial_mmap_size'):
            mmap_dict._INITIAL_MMAP_SIZE = scen['initial_mmap_size']
        return _run_history(scen, want_sample)
    finally:
        mmap_dict._INITIAL_MMAP_SIZE = saved


def bulk_value(j, n):
    return ('v%04d-' % j) + 'x' * n


def _run_history(scen, want_sample=False):
    from prometheus_client import multiprocess
    res = Result()
    pool = scen['pool']
    world = mpsim.ValueLog()
    oracle = Oracle(pool)
    variant = scen.get('variant', 0)
    ids_used = {scen['pid0']} | {st[1] for st in scen['steps'] if st[0] in ('pid', 'W', 'D')}
    if 0 in ids_used:
        res.count('identity:0')
    if '' in ids_used:
        res.count('identity:empty-string')
    if any(isinstance(q, str) and q for q in ids_used):
        res.count('identity:strings')
        if any(len(ids_used & set(g)) >= 2 for g in c08.ID_GROUPS):
            res.count('identity:look-alike-group')
    limit = scen.get('initial_mmap_size') or 65536
    grown = set()       # files that grew past the initial size
    left = set()        # identities the history has left (identity change away, worker ended)
    with mpsim.Sim() as sim:
        world.after = lambda at: res.snaps.__setitem__(at, mpsim.snapshot(sim.dir))
        w = Worker(sim, pool, scen['pid0'], world, variant)
        last_pid = scen['pid0']
        ngen = 1
        after = mpsim.snapshot(sim.dir)
        raw_after = mpsim.raw_snapshot(sim.dir)
        pids_seen = {scen['pid0']}
        canon = {}
        lossy = False
        handover = False

        def spawn(pid):
            nonlocal w, last_pid, ngen
            if w is not None:
                mpsim.close_class_files(w.cls)      # the worker that was acting exits
            world.event(('W', str(pid)))
            w = Worker(sim, pool, pid, world.spawn(), (variant + ngen) % 3)
            ngen += 1
            last_pid = pid
            oracle.new_worker()
            res.count('W:' + ('reused-pid' if pid in pids_seen else 'fresh-pid'))
            pids_seen.add(pid)

        for i, st in enumerate(scen['steps']):
            op = st[0]
            res.count('step:' + op)
            if op not in ('W', 'D') and w is None:
                # the acting worker was marked dead and the script has no W here: a new worker under the last identity
                before = after
                raw_before = raw_after
                spawn(last_pid)
                after = mpsim.snapshot(sim.dir)
                raw_after = mpsim.raw_snapshot(sim.dir)
                oracle_a(res, i, last_pid, before, after, 'W')
                oracle_raw(res, i, 'W', last_pid, raw_before, raw_after)
                res.count('W:implicit')
            before = after
            raw_before = raw_after
            exiting = ()
            nlog = len(world.ops)
            pid = w.cell[0] if w is not None else last_pid
            raised = None
            reset_key = None
            kind = 'op'
            if op == 'W':
                kind = 'W'
                exiting = tuple(w.ids) if w is not None else ()
                spawn(st[1])
            elif op == 'D':
                kind = 'D'
                pid = st[1]
                mine = w is not None and pid in w.ids
                res.count('D:' + ('acting-worker' if mine else ('earlier-pid' if pid in pids_seen else 'never-used-pid')))
                if mine:
                    exiting = tuple(w.ids)
                    mpsim.close_class_files(w.cls)      # that process is dead
                    w = None
                try:
                    multiprocess.mark_process_dead(pid, sim.dir)
                except Exception as e:  # noqa
                    res.failures.append(('C09:raises', 'mark_process_dead(%s) raised %s: %s' % (pid, type(e).__name__, e), i))
                world.event(('D', str(pid)))
                oracle.dead(pid)
            elif op == 'pid':
                kind = 'pid'
                w.cell[0] = st[1]
                last_pid = st[1]
                w.ids.add(st[1])
                w.log.set_pid_logged(st[1])
                res.count('pid:' + ('return-to-seen' if st[1] in pids_seen else 'new'))
                pids_seen.add(st[1])
            elif op == 'bulk':
                # n children of a labelled counter, each incremented once, as ONE metric-level step (observed at its end)
                mi, n, vlen, xb = st[1], st[2], st[3], st[4]
                md = pool[mi]
                x = lib.from_bits(xb)
                hook, world.after, w.log.after = world.after, None, None
                try:
                    if md['kind'] == 'counter' and len(md['labels']) == 1:
                        for j in range(n):
                            lvs = (bulk_value(j, vlen),)
                            c, inst = w.child(mi, lvs)
                            oracle.create_child(mi, lvs)
                            c.inc(x)
                            w.wrote(inst, True)
                            oracle.update(pid, mi, lvs, 'inc', x, 0.0)
                except Exception as e:  # noqa
                    raised = type(e).__name__
                    res.failures.append(('C09:raises', 'step %r under identity %s raised %s: %s' % (st, pid, raised, e), i))
                finally:
                    world.after, w.log.after = hook, hook
                if len(world.ops) > nlog:
                    w.sync()
                    oracle.touched(pid)
                    hook(len(world.ops) - 1)
            elif op.startswith('old-') and st[1] not in w.handles:
                res.count('stale-handle:no-such-handle')    # (shrunk lists / after a new worker) nothing to do
            else:
                rebind_diff = w.cell[0] != w.remembered and different_order(w, before, w.cell[0])
                old = op.startswith('old-')
                if old:
                    inst = w.handles[st[1]]
                    mi, lvs = inst.key
                    uop = {'old-inc': 'inc', 'old-dec': 'dec', 'old-set': 'set', 'old-observe': 'obs', 'old-reset': 'reset'}[op]
                else:
                    mi = st[1]
                    lvs = c08.lvs_of(pool[mi], st[2]) if len(st) > 2 else ()
                    uop = op
                md = pool[mi]
                expect = None
                proc = w.proc
                try:
                    if op == 'create':
                        if md['labels']:
                            proc.metric(mi)
                        else:
                            w.child(mi, ())
                            oracle.create_child(mi, ())
                    elif op == 'read':
                        sim.use(w.cls)
                        if not md['labels']:
                            w.child(mi, ())
                            oracle.create_child(mi, ())
                        list(proc.metric(mi).collect())
                    elif op in ('remove', 'clear'):
                        if md['labels']:
                            sim.use(w.cls)
                            if op == 'remove':
                                proc.metric(mi).remove(*lvs)
                                n_gone = w.drop(pool, mi, lvs)
                            else:
                                proc.metric(mi).clear()
                                n_gone = w.drop(pool, mi)
                            res.count('%s:%s' % (op, 'existing-child' if n_gone else 'nothing-to-drop'))
                    elif op == 'keep':
                        if md['labels']:
                            c, inst = w.child(mi, lvs)
                            oracle.create_child(mi, lvs)
                            w.removed.discard((mi, lvs))
                            inst.kept, inst.handle = st[3], c
                            w.handles[st[3]] = inst
                    else:
                        if old:
                            c = inst.handle
                            res.count('stale-handle:update-through-%s-object' % ('current' if w.cur.get(inst.key) is inst else 'old'))
                        else:
                            c, inst = w.child(mi, lvs)
                            oracle.create_child(mi, lvs)
                            if (mi, lvs) in w.removed:
                                w.removed.discard((mi, lvs))
                                res.count('relabel-after-remove')
                        if uop == 'reset':
                            if md['kind'] == 'counter':
                                sim.use(w.cls)
                                c.reset()
                                if inst is not None:
                                    w.wrote(inst, False)
                                if len(world.ops) > nlog:
                                    oracle.touched(pid)
                                oracle.update(pid, mi, lvs, 'reset', 0.0, 0.0)
                                reset_key = json.dumps([md['name'], md['name'] + '_total', dict(zip(md['labels'], lvs)), md['help']], sort_keys=True)
                            else:
                                res.count('reset:skipped-not-a-counter')
                        elif uop != 'child':
                            x = lib.from_bits(st[2] if old else st[3])
                            tb = st[3:4] if old else st[4:5]
                            t = lib.from_bits(tb[0]) if tb else sim.clock.now
                            expect = 'RuntimeError' if (c08.is_mostrecent(md) and uop in ('inc', 'dec')) else None
                            sim.use(w.cls)
                            sim.clock.now = t
                            try:
                                if uop == 'inc':
                                    c.inc(x)
                                elif uop == 'dec':
                                    c.dec(x)
                                elif uop == 'obs':
                                    c.observe(x)
                                elif uop == 'settime':
                                    c.set_to_current_time()
                                else:
                                    c.set(x)
                            except Exception as e:  # noqa
                                raised = type(e).__name__
                            if len(world.ops) > nlog:
                                oracle.touched(pid)
                            if raised is None:
                                if inst is not None:
                                    w.wrote(inst, needs_cache(md, uop))
                                oracle.update(pid, mi, lvs, uop, x, t)
                    if raised != expect:
                        res.failures.append(('C09:raises', 'step %r under identity %s raised %s, expected %s' % (st, pid, raised, expect), i))
                except Exception as e:  # noqa
                    raised = type(e).__name__
                    res.failures.append(('C09:raises', 'step %r under identity %s raised %s: %s' % (st, pid, raised, e), i))
                if len(world.ops) > nlog:
                    if rebind_diff:
                        res.count('order:rebind-into-differently-ordered-file')
                    w.sync()
                    oracle.touched(pid)
                for o in world.ops[nlog:]:
                    if o[0] in ('I', 'S', 'G') and o[1] in w.dropped:
                        res.failures.append(('C09:dropped-child-used', 'step %r: value-level call %r goes to value object %d of a child '
                                             'that was removed from its parent and that the script did not keep' % (st, o[:2], o[1]), i))
            # the snapshot taken right after the step's last value-level call / event IS the state after the step
            after = res.snaps.get(len(world.ops) - 1) if len(world.ops) > nlog else None
            if after is None:
                after = mpsim.snapshot(sim.dir)
            raw_after = mpsim.raw_snapshot(sim.dir)
            for bn, raw in raw_after.items():
                if len(raw) > limit and bn not in grown:
                    grown.add(bn)
                    res.count('growth:file-grew')
                    res.grown_sizes[bn] = len(raw)
            if kind == 'pid':
                left.add(pid)
            elif kind in ('W', 'D'):
                left.update(exiting)
            if kind == 'op' and pid in left and any(bn.endswith('_%s.db' % pid) and len(raw_before.get(bn, b'')) > limit for bn in grown):
                res.count('growth:update-after-return-to-grown-file')
            if reset_key is not None and raised is None:
                fn = 'counter_%s.db' % w.cell[0]
                held = [(v, t) for k, v, t in after.get(fn, []) if k == reset_key]
                res.count('reset:' + ('under-first-identity' if len(w.ids) == 1 and ngen == 1 else 'after-identity-change-or-new-worker'))
                if held != [(0.0, 0.0)]:
                    res.failures.append(('C09:reset-not-zero', 'right after Counter.reset() on %s%r under identity %s the entry in %s reads %r' % (
                        md['name'], list(lvs), w.cell[0], fn, held), i))
            oracle_unreadable(res, i, after)
            oracle_corrupt(res, i, after)
            oracle_a(res, i, pid, before, after, kind)
            oracle_raw(res, i, kind, pid, raw_before, raw_after, exiting)
            try:
                collected = sim.collect()
            except Exception as e:  # noqa
                res.failures.append(('C09:raises', 'collect() raised %s: %s' % (type(e).__name__, e), i))
                continue
            if lossy or (w is not None and w.unsafe):
                # an update went through a value object whose cache another object had outdated: the library loses
                # updates there by construction (known two-live-values behaviour); from here on only the file-level
                # oracles and the model comparison apply
                lossy = True
                continue
            canon = oracle_bc(res, i, oracle, collected)
            if kind == 'op' and len(world.ops) > nlog and raised is None:
                oracle_d(res, i, w.log.objs, w.cell[0], after, w.skip_d())
            if w is not None and w.handover:
                handover = True
        if any(k.startswith('stale-handle:update-through') for k in res.counts):
            res.count('stale-handle:' + ('interleaved' if lossy else ('sequential-handover' if handover else 'epoch-single-object')))
        if scen.get('expect_growth') and not res.counts.get('growth:update-after-return-to-grown-file') and not res.failures:
            res.count('growth:EXPECTED-GROWTH-DID-NOT-HAPPEN')      # visible in the evidence; not an infrastructure fact
        res.line = mpsim.hist_request(scen['pid0'], world.ops) if not scen.get('no_model') else None
        res.nops = len(world.ops)
        res.gets = dict(world.gets)
        cut = min([k for k, v in res.snaps.items() if mpsim.corrupt_keys(v)] or [len(world.ops)])
        res.snaps = {k: mpsim.canon_snapshot(v) for k, v in res.snaps.items() if k < cut}
        res.gets = {k: v for k, v in res.gets.items() if k < cut}
        if any(st[0] in ('pid', 'W', 'D') for st in scen['steps']):
            res.key = hashlib.md5(((res.line or repr(scen['steps'])) + mpsim.fams_fingerprint(canon)).encode('utf-8')).hexdigest()
        if want_sample:
            res.sample = {'pid0': scen['pid0'], 'steps': [[s if not isinstance(s, int) or j < 2 or st[0] in ('pid', 'W', 'D') else repr(lib.from_bits(s))
                                                          for j, s in enumerate(st)] for st in scen['steps']][:14],
                          'files_at_end': sorted(after)}
    return res


def model_divergences(ctx, results):
    lines = [r.line for r in results]
    replies = mpsim.driver_run(ctx, lines)
    out = [[] for _ in results]
    if replies is None:
        return out, 0
    traces = 0
    for ri, (r, rep) in enumerate(zip(results, replies)):
        steps = mpsim.parse_hist_reply(rep)
        traces += 1
        if steps is None or len(steps) != r.nops:
            out[ri].append('model reply %r for a log of %d steps' % (rep[:80], r.nops))
            continue
        for k in sorted(r.snaps):
            d = mpsim.diff_disk(r.snaps[k], steps[k][1])
            if d:
                out[ri].append('after logged step %d: %s' % (k, d))
                break
        for k, g in sorted(r.gets.items()):
            mg = steps[k][0]
            if mg is None or not feq(mg, g):
                out[ri].append('logged step %d: get returned %r, model %r' % (k, g, mg))
                break
    return out, traces


# ================================================================================================== histories
def bases():
    """short hand-written base histories (no identity changes yet)"""
    out = []
    out.append(([mdef('counter', 'c')],
                [['create', 0], ['inc', 0, [], B(1.0)], ['inc', 0, [], B(2.0)], ['read', 0], ['inc', 0, [], B(0.5)]]))
    out.append(([mdef('counter', 'cl', ['l'])],
                [['create', 0], ['child', 0, ['x']], ['inc', 0, ['x'], B(1.0)], ['inc', 0, ['y'], B(2.0)],
                 ['inc', 0, ['x'], B(4.0)], ['read', 0]]))
    out.append(([mdef('counter', 'c1'), mdef('counter', 'c2'), mdef('gauge', 'g', (), 'all')],
                [['inc', 0, [], B(1.0)], ['create', 1], ['set', 2, [], B(5.0)], ['inc', 1, [], B(2.0)], ['inc', 0, [], B(4.0)],
                 ['inc', 2, [], B(1.5)]]))
    out.append(([mdef('gauge', 'g', (), 'all'), mdef('gauge', 'gl', ['l'], 'liveall')],
                [['create', 0], ['set', 0, [], B(1.0)], ['inc', 0, [], B(2.0)], ['child', 1, ['x']], ['set', 1, ['x'], B(-5.0)],
                 ['dec', 0, [], B(0.5)], ['read', 1]]))
    out.append(([mdef('histogram', 'h', (), '', 'small'), mdef('summary', 's', ['l'])],
                [['create', 0], ['obs', 0, [], B(1.0)], ['obs', 1, ['x'], B(2.5)], ['obs', 0, [], B(3.0)], ['obs', 1, ['x'], B(-0.5)],
                 ['read', 0]]))
    out.append(([mdef('gauge', 'gm', (), 'mostrecent'), mdef('gauge', 'gn', ['l'], 'livemin')],
                [['set', 0, [], B(1.0), B(10.0)], ['set', 1, ['x'], B(3.0), B(10.0)], ['set', 0, [], B(2.0), B(11.0)],
                 ['inc', 1, ['x'], B(-4.0), B(11.0)], ['set', 0, [], B(7.0), B(11.0)], ['inc', 0, [], B(1.0), B(12.0)]]))
    out.append(([mdef('counter', 'c'), mdef('counter', 'd', ['l', 'k'])],
                [['inc', 0, [], B(1.0)], ['reset', 0, []], ['inc', 0, [], B(2.0)], ['inc', 1, ['x', ''], B(1.0)], ['read', 0],
                 ['inc', 1, ['x', ''], B(0.25)]]))
    out.append(([mdef('histogram', 'hl', ['l'], '', 'big'), mdef('gauge', 'gs', (), 'sum'), mdef('counter', 'c')],
                [['child', 0, ['é']], ['obs', 0, ['é'], B(1000000.0)], ['set', 1, [], B(2.0)], ['inc', 2, [], B(1.0)],
                 ['obs', 0, ['é'], B(0.5)], ['inc', 1, [], B(1.0)]]))
    out.append(([mdef('summary', 's'), mdef('gauge', 'ga', ['l'], 'all'), mdef('gauge', 'gx', (), 'max')],
                [['obs', 0, [], B(1.0)], ['set', 1, ['a'], B(1.0)], ['set', 2, [], B(9.0)], ['set', 1, ['b'], B(2.0)],
                 ['obs', 0, [], B(2.0)], ['inc', 1, ['a'], B(0.5)]]))
    return out


def rename_ids(scen, mapping):
    """the same history with identities renamed (e.g. 11 -> 0): in pid0 and in every pid / W / D step"""
    if not mapping:
        return scen
    steps = [[st[0], mapping.get(st[1], st[1])] if st[0] in ('pid', 'W', 'D') else st for st in scen['steps']]
    return dict(scen, pid0=mapping.get(scen['pid0'], scen['pid0']), steps=steps)


def pick_ids(rng, n):
    """n distinct identities; 0 in about 40 % of the histories, the empty string in about 10 %"""
    if rng.random() < 0.12:     # string identities, look-alikes together
        g = rng.choice(c08.ID_GROUPS)
        return rng.sample(g, min(n, len(g)))
    pids = rng.sample(c08.PID_POOL, n)
    if rng.random() < 0.4:
        pids[rng.randrange(n)] = 0
    if rng.random() < 0.1:
        j = rng.randrange(n)
        if pids[j] != 0 or n == 1:
            pids[j] = ''
    return pids


def insertions(steps, pid0, a, b):
    n = len(steps)
    yield list(steps)
    for i in range(n + 1):
        yield steps[:i] + [['pid', a]] + steps[i:]
    for i in range(n + 1):
        for j in range(i, n + 1):
            for x in (pid0, b):
                yield steps[:i] + [['pid', a]] + steps[i:j] + [['pid', x]] + steps[j:]


def gen_history(rng, all_modes, long=False):
    pool = [c08.gen_metric(rng, i, all_modes) for i in range(rng.randint(1, 4))]
    if rng.random() < 0.5:      # several metrics of one type share the per-type file
        pool.append(dict(pool[0], name=pool[0]['name'] + '_bis'))
    for md in pool:
        if md['kind'] == 'histogram' and md['layout'] == 'default' and rng.random() < 0.7:
            md['layout'] = rng.choice(['small', 'dec', 'big', 'neg'])
    pids = pick_ids(rng, rng.choice([2, 2, 3, 4]))
    cands = []
    for md in pool:
        k = len(md['labels'])
        cands.append([[rng.choice(c08.LABEL_VALUES) for _ in range(k)] for _ in range(rng.randint(1, 3))] if k else [[]])
    steps = []
    t = 5.0
    for _ in range(rng.randint(25, 50) if long else rng.randint(6, 22)):
        r = rng.random()
        mi = rng.randrange(len(pool))
        md = pool[mi]
        lvs = rng.choice(cands[mi])
        if r < 0.2:
            steps.append(['pid', rng.choice(pids)])
        elif r < 0.26:
            steps.append(['create', mi])
        elif r < 0.33:
            steps.append(['child', mi, lvs])
        elif r < 0.41:
            steps.append(['read', mi])
        elif md['labels'] and r < 0.46:
            steps.append(['remove', mi, lvs] if rng.random() < 0.7 else ['clear', mi])
        elif md['kind'] == 'counter':
            if rng.random() < 0.04:
                steps.append(['reset', mi, lvs])
            else:
                steps.append(['inc', mi, lvs, B(c08.gen_value(rng, md, 'inc'))])
        elif md['kind'] in ('summary', 'histogram'):
            steps.append(['obs', mi, lvs, B(c08.gen_value(rng, md, 'obs'))])
        else:
            if rng.random() < 0.7:
                t += 1.0
            op = rng.choice(['set', 'set', 'set', 'inc', 'dec', 'settime'])
            steps.append([op, mi, lvs, B(t if op == 'settime' else c08.gen_value(rng, md, op)), B(t)])
    return {'pool': pool, 'pid0': pids[0], 'steps': steps, 'variant': rng.randrange(3)}


# ================================================================================================== generations
def world_bases():
    """base scripts of one worker (identity 10) for the systematic D/W placements: every gauge mode occurs"""
    out = []
    out.append(([mdef('gauge', 'g', (), 'all'), mdef('gauge', 'gl', (), 'liveall'), mdef('counter', 'c')],
                [['set', 0, [], B(3.0), B(10.0)], ['set', 1, [], B(4.0), B(10.0)], ['inc', 2, [], B(1.0)],
                 ['inc', 0, [], B(2.0), B(11.0)], ['inc', 1, [], B(1.0), B(11.0)], ['inc', 2, [], B(2.0)]]))
    out.append(([mdef('gauge', 'gs', ['l'], 'livesum'), mdef('gauge', 'gn', (), 'min'), mdef('gauge', 'gm', (), 'livemin'),
                 mdef('gauge', 'gt', (), 'sum')],
                [['set', 0, ['x'], B(2.0), B(10.0)], ['set', 1, [], B(-1.0), B(10.0)], ['set', 2, [], B(-2.0), B(10.0)],
                 ['inc', 3, [], B(4.0), B(11.0)], ['inc', 0, ['y'], B(1.0), B(11.0)], ['create', 1], ['dec', 3, [], B(1.0), B(12.0)]]))
    out.append(([mdef('gauge', 'gr', (), 'mostrecent'), mdef('gauge', 'glr', ['l'], 'livemostrecent'),
                 mdef('gauge', 'gx', (), 'max'), mdef('gauge', 'gy', (), 'livemax')],
                [['set', 0, [], B(1.0), B(10.0)], ['set', 1, ['x'], B(2.0), B(11.0)], ['set', 2, [], B(5.0), B(11.0)],
                 ['set', 3, [], B(6.0), B(11.0)], ['child', 0, []], ['set', 1, ['x'], B(3.0), B(12.0)], ['set', 0, [], B(4.0), B(12.0)]]))
    out.append(([mdef('histogram', 'h', (), '', 'small'), mdef('summary', 's', ['l']), mdef('gauge', 'ga', ['l'], 'liveall'),
                 mdef('counter', 'c', ['l'])],
                [['obs', 0, [], B(1.0)], ['obs', 1, ['x'], B(2.5)], ['set', 2, ['a'], B(7.0), B(10.0)], ['inc', 3, ['x'], B(1.0)],
                 ['obs', 0, [], B(3.0)], ['read', 2], ['inc', 3, ['x'], B(0.5)]]))
    out.append(([mdef('counter', 'c'), mdef('counter', 'cl', ['l'])],
                [['inc', 0, [], B(3.0)], ['reset', 0, []], ['inc', 0, [], B(2.0)], ['inc', 1, ['x'], B(1.0)], ['reset', 1, ['x']],
                 ['inc', 1, ['x'], B(4.0)]]))
    return out


def world_insertions(steps):
    """D/W placed at every position between the metric-level steps of a script that starts under identity 10"""
    n = len(steps)
    for i in range(n + 1):
        a, b = steps[:i], steps[i:]
        yield a + [['D', 10], ['W', 10]] + b            # death, the pid is reused
        yield a + [['W', 10]] + b                       # plain restart on the old files
        yield a + [['D', 10], ['W', 11]] + b            # death, a fresh pid takes over
        yield a + [['D', 10]] + b                       # death, no W in the script: implicit new worker, same pid
        yield a + [['D', 99]] + b                       # a pid nobody ever used
        yield a + [['pid', 11], ['D', 10]] + b          # D of an identity the acting worker has left: the worker ends
        for j in sorted({i, min(i + 1, n), n}):         # a later worker keeps running while the earlier pid is marked dead
            yield a + [['W', 11]] + steps[i:j] + [['D', 10]] + steps[j:]
        for j in range(i + 1, n + 1, 2):                # two deaths with reuse; back to the first pid after a detour
            yield a + [['D', 10], ['W', 10]] + steps[i:j] + [['D', 10], ['W', 10]] + steps[j:]
            yield a + [['D', 10], ['W', 11]] + steps[i:j] + [['W', 10]] + steps[j:]


def gen_world(rng, all_modes, long=False):
    """1-4 generations, each a short script (optionally with identity changes), D and W between (and D inside) them"""
    pool = [c08.gen_metric(rng, i, all_modes) for i in range(rng.randint(1, 4))]
    live = [m for m in all_modes if m.startswith('live')]
    pool.append(mdef('gauge', 'gw', rng.choice(c08.LABEL_NAMES) if rng.random() < 0.4 else [], rng.choice(live)))
    if rng.random() < 0.6:
        pool.append(mdef('gauge', 'gv', [], rng.choice([m for m in all_modes if not m.startswith('live')])))
    for md in pool:
        if md['kind'] == 'histogram' and md['layout'] == 'default' and rng.random() < 0.8:
            md['layout'] = rng.choice(['small', 'dec', 'big', 'neg'])
    pids = pick_ids(rng, rng.choice([2, 3, 3, 4]))
    cands = []
    for md in pool:
        k = len(md['labels'])
        cands.append([[rng.choice(c08.LABEL_VALUES) for _ in range(k)] for _ in range(rng.randint(1, 2))] if k else [[]])
    steps = []
    t = 5.0
    used = []               # identities of ended generations
    cur = pids[0]
    pid0 = cur
    ngen = rng.randint(2, 4) if long else rng.choice([1, 2, 2, 3, 3, 4])
    for g in range(ngen):
        ids = [cur]
        for _ in range(rng.randint(8, 20) if long else rng.randint(3, 10)):
            r = rng.random()
            mi = rng.randrange(len(pool))
            md = pool[mi]
            lvs = rng.choice(cands[mi])
            if r < 0.08:
                cur = rng.choice(pids)
                steps.append(['pid', cur])
                if cur not in ids:
                    ids.append(cur)
            elif r < 0.13:
                others = [q for q in used if q not in ids]
                # an earlier generation's pid (or a pid never used) is marked dead while this worker runs
                steps.append(['D', rng.choice(others) if others and rng.random() < 0.8 else 99])
            elif r < 0.19:
                steps.append(['create', mi])
            elif r < 0.25:
                steps.append(['child', mi, lvs])
            elif r < 0.31:
                steps.append(['read', mi])
            elif md['labels'] and r < 0.36:
                steps.append(['remove', mi, lvs] if rng.random() < 0.7 else ['clear', mi])
            elif md['kind'] == 'counter':
                steps.append(['reset', mi, lvs] if rng.random() < 0.05 else ['inc', mi, lvs, B(c08.gen_value(rng, md, 'inc'))])
            elif md['kind'] in ('summary', 'histogram'):
                steps.append(['obs', mi, lvs, B(c08.gen_value(rng, md, 'obs'))])
            else:
                if rng.random() < 0.7:
                    t += 1.0
                op = rng.choice(['set', 'set', 'set', 'inc', 'dec', 'settime'])
                steps.append([op, mi, lvs, B(t if op == 'settime' else c08.gen_value(rng, md, op)), B(t)])
        used += [q for q in ids if q not in used]
        if g + 1 == ngen:
            if rng.random() < 0.4:
                steps.append(['D', rng.choice(ids)])        # the history ends with a death
            break
        r = rng.random()
        if r < 0.6:
            steps.append(['D', rng.choice(ids)])
            if rng.random() < 0.25:
                steps.append(['D', rng.choice(used + [99])])
        elif r < 0.7:
            steps.append(['D', rng.choice(used + [99])])       # may or may not concern the acting worker
        cur = rng.choice(used) if rng.random() < 0.65 else rng.choice(pids)
        if not (steps and steps[-1][0] == 'D' and rng.random() < 0.12):    # sometimes no W: the runner restarts the worker itself
            steps.append(['W', cur])
        else:
            cur = ids[-1]
    return {'pool': pool, 'pid0': pid0, 'steps': steps, 'variant': rng.randrange(3)}


# ================================================================================================== remove / clear
def relabel_bases():
    """base scripts on LABELLED metrics (counter, gauge all + live modes, mostrecent, histogram, summary), identity 10"""
    out = []
    out.append(([mdef('counter', 'cl', ['l']), mdef('gauge', 'ga', ['l'], 'all')],
                [['inc', 0, ['x'], B(1.0)], ['set', 1, ['x'], B(3.0), B(10.0)], ['inc', 0, ['x'], B(2.0)],
                 ['inc', 1, ['x'], B(2.0), B(11.0)], ['inc', 0, ['y'], B(4.0)], ['read', 0]]))
    out.append(([mdef('histogram', 'hl', ['l'], '', 'small'), mdef('gauge', 'gv', ['l'], 'livesum')],
                [['obs', 0, ['x'], B(1.0)], ['set', 1, ['x'], B(4.0), B(10.0)], ['obs', 0, ['x'], B(3.0)],
                 ['inc', 1, ['x'], B(1.0), B(11.0)], ['obs', 0, ['y'], B(2.5)], ['dec', 1, ['x'], B(0.5), B(12.0)]]))
    out.append(([mdef('gauge', 'gm', ['l'], 'mostrecent'), mdef('gauge', 'gn', ['l'], 'liveall'), mdef('summary', 's', ['l'])],
                [['set', 0, ['x'], B(1.0), B(10.0)], ['set', 1, ['x'], B(2.0), B(10.0)], ['obs', 2, ['x'], B(1.0)],
                 ['set', 0, ['x'], B(5.0), B(11.0)], ['inc', 1, ['x'], B(1.0), B(11.0)], ['obs', 2, ['x'], B(2.0)]]))
    return out


def relabel_insertions(steps):
    """remove/clear of the child the NEXT step uses, at every position, with an identity change / new worker / death at
    every place relative to it: before the removal, between removal and re-labels(), between re-labels() and the first
    update, after the first update; incl. the return to a seen identity"""
    n = len(steps)
    for i in range(n + 1):
        a, b = steps[:i], steps[i:]
        nxt = steps[min(i, n - 1)]
        mi, lvs = nxt[1], (nxt[2] if len(nxt) > 2 else ['x'])
        for R in (['remove', mi, lvs], ['clear', mi]):
            relabel = ['child', mi, lvs]
            yield a + [R] + b
            yield a + [['pid', 11], R] + b
            yield a + [R, ['pid', 11]] + b
            yield a + [R, relabel, ['pid', 11]] + b
            yield a + [R] + b[:1] + [['pid', 11]] + b[1:]
            yield a + [['pid', 11], R, ['pid', 10]] + b
            yield a + [R, ['pid', 11]] + b[:1] + [['pid', 10]] + b[1:]
            if R[0] == 'clear' and i % 2:
                continue        # (time) clear gets the remaining placements at every other position only
            yield a + [['pid', 11]] + b[:1] + [['pid', 10], R, relabel, ['pid', 11]] + b[1:]
            yield a + [R, ['D', 10], ['W', 10]] + b
            yield a + [['D', 10], ['W', 10], relabel, R] + b
            yield a + [R, ['W', 10]] + b
            yield a + [R, ['W', 11]] + b[:1] + [R, ['W', 10]] + b[1:]
            yield a + [R, ['pid', 11], relabel, ['D', 10]] + b


# ================================================================================================== key order
def order_histories():
    """the identity switched to already has files laid out in ANOTHER key order than the acting worker's creation order"""
    t = [B(10.0 + j) for j in range(8)]
    sets = [
        ('counters', [mdef('counter', 'c0'), mdef('counter', 'c1'), mdef('counter', 'c2', ['l'])],
         [lambda x: ['inc', 0, [], B(x)], lambda x: ['inc', 1, [], B(x)], lambda x: ['inc', 2, ['x'], B(x)]]),
        ('gauges', [mdef('gauge', 'g0', (), 'all'), mdef('gauge', 'g1', (), 'all'), mdef('gauge', 'g2', ['l'], 'all')],
         [lambda x: ['set', 0, [], B(x), t[0]], lambda x: ['inc', 1, [], B(x), t[1]], lambda x: ['set', 2, ['x'], B(x), t[2]]]),
        ('live-gauges', [mdef('gauge', 'v0', (), 'livesum'), mdef('gauge', 'v1', ['l'], 'livesum'), mdef('gauge', 'v2', (), 'livesum')],
         [lambda x: ['inc', 0, [], B(x), t[0]], lambda x: ['set', 1, ['x'], B(x), t[1]], lambda x: ['inc', 2, [], B(x), t[2]]]),
        ('summaries+histogram', [mdef('summary', 's0'), mdef('summary', 's1', ['l']), mdef('histogram', 'h', (), '', 'small')],
         [lambda x: ['obs', 0, [], B(x)], lambda x: ['obs', 1, ['x'], B(x)], lambda x: ['obs', 2, [], B(x)]]),
    ]
    k = 0
    for name, pool, U in sets:
        first = [U[0](1.0), U[1](2.0), U[2](4.0)]
        every = [U[0](8.0), U[1](16.0), U[2](32.0), ['read', 0], ['read', 1]]
        for perm in ((1, 0, 2), (2, 1, 0), (1, 2, 0)):
            second = [U[j](0.5) for j in perm]
            shapes = [
                first + [['W', 11]] + second + [['pid', 10]] + every,                     # (a) another generation, then back into 10's layout
                first + [['W', 10]] + second + [['pid', 11]] + every + [['pid', 10]] + every[:3],   # the pid reused, then a FRESH identity
                [U[2](4.0), U[0](1.0), U[1](2.0), ['W', 11]] + second[:2] + [['pid', 10]] + every,   # (b) extra metric created first
                [['W', 12]] + second + [['W', 11]] + first + [['pid', 12]] + every,       # (c) pre-populated before the first real worker
                first + [['D', 10], ['W', 11]] + second + [['pid', 10]] + every + [['D', 11], ['W', 10]] + second,
            ]
            for steps in shapes:
                k += 1
                yield rename_ids({'pool': pool, 'pid0': 10, 'variant': 0, 'steps': steps}, [{}, {10: 0}, {11: 'w-0b', 10: 'w-0'}, {}][k % 4])


# ================================================================================================== growth
def growth_histories():
    """one identity fills its file past the (patched) initial size, the history leaves that identity and comes back"""
    t = 10.0
    kinds = [
        ('counter', mdef('counter', 'cl', ['l']), lambda j, lv: ['inc', 0, [lv], B(1.0 + j % 3)]),
        ('gauge-all', mdef('gauge', 'ga', ['l'], 'all'), lambda j, lv: ['set', 0, [lv], B(2.0 + j), B(t + j)]),
        ('gauge-livesum', mdef('gauge', 'gv', ['l'], 'livesum'), lambda j, lv: ['inc', 0, [lv], B(1.0), B(t + j)]),
        ('histogram', mdef('histogram', 'hl', ['l'], '', 'small'), lambda j, lv: ['obs', 0, [lv], B([1.0, 2.5, 8.0][j % 3])]),
    ]
    k = 0
    for name, md, upd in kinds:
        for n, ims in ((6, 256), (14, 512), (30, 256)):
            if name == 'histogram' and n == 30:
                n = 12
            lv = lambda j: 'child-%02d-%s' % (j, 'y' * (6 + 3 * (j % 4)))
            fill = [upd(j, lv(j)) for j in range(n)]
            away = [upd(0, lv(0)), upd(n - 1, lv(n - 1))]
            after = [upd(0, lv(0)), upd(n // 2, lv(n // 2)), upd(n - 1, lv(n - 1)), upd(n, lv(n)), upd(n + 1, lv(n + 1)), ['read', 0]]
            backs = [
                [['pid', 11]] + away + [['pid', 10]],
                [['pid', 11]] + away + [['pid', 12], away[0], ['pid', 10]],        # back via a third identity
                [['W', 11]] + away + [['W', 10]],                                   # another worker, then the pid is reused
                [['pid', 11]] + away + [['D', 10], ['W', 10]],                      # death and restart on the old pid
                [['D', 10], ['W', 10]],                                             # immediate restart
            ]
            for back in backs:
                scen = {'pool': [md], 'pid0': 10, 'variant': 0, 'initial_mmap_size': ims, 'steps': fill + back + after}
                k += 1
                if name != 'gauge-livesum' or back[-2:] != [['D', 10], ['W', 10]]:
                    scen['expect_growth'] = True        # (a dead live-gauge file starts again from nothing)
                yield rename_ids(scen, [{}, {10: 0}, {11: 0}][k % 3])


def big_history(n=700, vlen=64, ident=10):
    """UNPATCHED initial size: n children of one counter push counter_<pid>.db past 65536 bytes; away and back"""
    first, mid, last, new = [bulk_value(j, vlen) for j in (0, n // 2, n - 1, n)]
    return {'pool': [mdef('counter', 'c', ['l'])], 'pid0': ident, 'variant': 0, 'expect_growth': True, 'no_model': True, 'steps': [
        ['bulk', 0, n, vlen, B(1.0)], ['pid', 11], ['inc', 0, [first], B(2.0)], ['pid', ident], ['inc', 0, [first], B(4.0)],
        ['inc', 0, [mid], B(8.0)], ['inc', 0, [last], B(16.0)], ['inc', 0, [new], B(32.0)], ['read', 0]]}


# ================================================================================================== stale handles
def stale_pools():
    """(pool, first update, update through the kept object, update through the young object) per labelled metric kind"""
    t = [B(10.0), B(11.0), B(12.0)]
    return [
        ([mdef('counter', 'cl', ['l'])], ['inc', 0, ['x'], B(1.0)], ['old-inc', 'h', B(2.0)], ['inc', 0, ['x'], B(4.0)]),
        ([mdef('gauge', 'ga', ['l'], 'all')], ['set', 0, ['x'], B(3.0), t[0]], ['old-inc', 'h', B(2.0), t[1]], ['inc', 0, ['x'], B(4.0), t[2]]),
        ([mdef('gauge', 'gv', ['l'], 'livesum')], ['inc', 0, ['x'], B(1.0), t[0]], ['old-set', 'h', B(5.0), t[1]], ['dec', 0, ['x'], B(0.5), t[2]]),
        ([mdef('histogram', 'hl', ['l'], '', 'small')], ['obs', 0, ['x'], B(1.0)], ['old-observe', 'h', B(3.0)], ['obs', 0, ['x'], B(2.5)]),
        ([mdef('summary', 's', ['l']), mdef('gauge', 'gm', ['l'], 'mostrecent')], ['obs', 0, ['x'], B(1.0)], ['old-observe', 'h', B(2.0)],
         ['obs', 0, ['x'], B(4.0)]),
    ]


def stale_shapes(A, O, Y):
    """keep; remove/clear; labels() again (young object); then updates through the OLD and the YOUNG object around
    identity changes, new workers and deaths.  The last two interleave both objects within one identity."""
    K, R, C, L = ['keep', 0, ['x'], 'h'], ['remove', 0, ['x']], ['clear', 0], ['child', 0, ['x']]
    P = lambda q: ['pid', q]
    return [
        [A, K, R, L, P(11), O],                                 # the old object only, in the new identity
        [A, K, C, L, P(11), O, O, P(10), O],                    # ... and back in the first identity
        [A, K, R, L, O, P(11), Y],                              # old before the change, young after
        [A, K, R, L, O, P(11), Y, P(10), O],                    # old, change, young, change, old
        [A, K, R, L, P(11), O, P(12), Y, P(11), ['read', 0], O],
        [K, A, R, P(11), L, O, P(10), Y],                       # keep creates the child; change between remove and labels()
        [A, K, R, L, P(11), O, ['W', 11], Y],                   # the worker restarts: the handle is gone
        [A, K, R, L, ['D', 99], P(11), O, ['D', 10], Y],        # death of the identity the worker has left
        [A, K, R, L, P(11), O, ['D', 11], ['W', 10], Y, P(11), Y],
        [A, K, R, L, Y, P(11), O, O],                           # young in the first identity, old in the second
        [A, K, R, L, ['keep', 0, ['x'], 'h2'], R, L, P(11), O, P(12), [O[0], 'h2'] + O[2:], P(10), Y],    # two kept generations
        [A, K, R, L, O, Y, P(11), Y],                           # INTERLEAVED: the young object is stale when it is used
        [A, K, R, L, Y, O, P(11), O, Y, P(10), Y],              # INTERLEAVED
    ]


def stale_histories():
    cl = [mdef('counter', 'cl', ['l'])]
    K, R, L = ['keep', 0, ['x'], 'h'], ['remove', 0, ['x']], ['child', 0, ['x']]
    I = lambda x: ['inc', 0, ['x'], B(x)]
    # Counter.reset() through the kept old object and through the young one, around identity changes
    yield cl, [I(1.0), K, R, L, ['pid', 11], ['old-reset', 'h'], ['old-inc', 'h', B(2.0)], ['pid', 10], I(4.0)]
    yield cl, [I(1.0), K, R, L, ['old-reset', 'h'], ['pid', 11], I(2.0), ['reset', 0, ['x']], I(4.0), ['pid', 10], ['old-inc', 'h', B(8.0)]]
    yield cl, [I(1.0), K, R, L, ['reset', 0, ['x']], ['pid', 11], ['old-inc', 'h', B(2.0)], ['old-reset', 'h'], ['W', 10], I(4.0), ['reset', 0, ['x']]]
    for pool, A, O, Y in stale_pools():
        shapes = stale_shapes(A, O, Y)
        for k, steps in enumerate(shapes):
            yield pool, steps
        # an identity change at every position of the three two-object bases (the tracker decides what stays checkable)
        for base in (shapes[2][:5] + [shapes[2][4]], shapes[9][:5] + [Y], shapes[3]):
            base = [st for st in base if st[0] != 'pid']
            for i in range(len(base) + 1):
                yield pool, base[:i] + [['pid', 11]] + base[i:]
                for j in range(i + 1, len(base) + 1, 3):
                    yield pool, base[:i] + [['pid', 11]] + base[i:j] + [['pid', 10]] + base[j:]


def sprinkle_stale(rng, pool, steps):
    """keep / old-* steps at random places of a random history (handles are forgotten at a new worker)"""
    out = []
    handles = []    # (name, mi)
    n = 0
    lastt = 5.0
    for st in steps:
        out.append(st)
        if st[0] == 'W':
            handles = []
        if st[0] in ('set', 'inc', 'dec', 'settime') and len(st) > 4:
            lastt = lib.from_bits(st[4])
        if st[0] in ('inc', 'dec', 'set', 'settime', 'obs', 'child') and pool[st[1]]['labels'] and rng.random() < 0.3:
            n += 1
            handles.append(('h%d' % n, st[1]))
            out.append(['keep', st[1], st[2], 'h%d' % n])
        elif handles and rng.random() < 0.25:
            name, mi = rng.choice(handles)
            md = pool[mi]
            if md['kind'] == 'counter':
                out.append(['old-reset', name] if rng.random() < 0.15 else ['old-inc', name, B(c08.gen_value(rng, md, 'inc'))])
            elif md['kind'] in ('summary', 'histogram'):
                out.append(['old-observe', name, B(c08.gen_value(rng, md, 'obs'))])
            else:
                op = rng.choice(['set', 'inc', 'dec'])
                out.append(['old-' + op, name, B(c08.gen_value(rng, md, op)), B(lastt)])
    return out


# ================================================================================================== real fork
def gen_fork_history(rng, all_modes):
    h = gen_history(rng, all_modes, long=True)
    phases = [[]]
    for st in h['steps']:
        if st[0] == 'pid':
            if phases[-1]:
                phases.append([])
        elif st[0] not in ('reset', 'remove', 'clear', 'keep') and not st[0].startswith('old-'):
            phases[-1].append(st)
    if not phases[-1]:
        phases.pop()
    return {'pool': h['pool'], 'phases': phases[:7], 'variant': h['variant'], 'fork': True}


def run_steps_real(proc, pool, steps, clock):
    """run metric-level steps in the current OS process; -> 0 ok, 2 wrong exception behaviour"""
    code = 0
    for st in steps:
        md = pool[st[1]]
        lvs = c08.lvs_of(md, st[2]) if len(st) > 2 else ()
        if st[0] == 'create':
            proc.metric(st[1])
        elif st[0] == 'read':
            list(proc.metric(st[1]).collect())
        elif st[0] == 'child':
            proc.child(st[1], lvs)
        else:
            raised = proc.update(st[1], lvs, st[0], lib.from_bits(st[3]), lib.from_bits(st[4]) if len(st) > 4 else clock.now)
            expect = 'RuntimeError' if (c08.is_mostrecent(md) and st[0] in ('inc', 'dec')) else None
            if raised != expect:
                code = 2
    return code


def oracle_steps(oracle, pid, pool, steps):
    """fork mode has no value-level log: whether a step reaches a value object is decided at the metric level"""
    for st in steps:
        mi = st[1]
        md = pool[mi]
        lvs = c08.lvs_of(md, st[2]) if len(st) > 2 else ()
        if st[0] in ('create', 'read'):
            new = oracle.create_child(mi, ()) if not md['labels'] else False
            if new or (st[0] == 'read' and any(c[0] == mi for c in oracle.children)):
                oracle.touched(pid)
            continue
        new = oracle.create_child(mi, lvs)
        refused = c08.is_mostrecent(md) and st[0] in ('inc', 'dec')
        if st[0] == 'child' or refused:
            if new:
                oracle.touched(pid)
            continue
        oracle.touched(pid)
        oracle.update(pid, mi, lvs, st[0], lib.from_bits(st[3]), lib.from_bits(st[4]) if len(st) > 4 else 0.0)


def run_fork_history(scen):
    """phases alternate parent, forked child, parent, forked child, ...: every child is forked from the parent's current
    state, runs its phase on the inherited metric objects and exits; the parent is idle meanwhile"""
    import sys
    from prometheus_client import values
    res = Result()
    pool = scen['pool']
    with mpsim.Sim() as sim:
        cls = values.MultiProcessValue()
        sim.classes.append(cls)
        sim.use(cls)
        proc = c08.RealProc(cls, pool, sim.use, sim.clock, scen.get('variant', 0))
        me = os.getpid()
        oracle = Oracle(pool)
        after = mpsim.snapshot(sim.dir)
        raw_after = mpsim.raw_snapshot(sim.dir)
        for k, steps in enumerate(scen['phases']):
            before = after
            raw_before = raw_after
            if k % 2 == 0:
                actor = me
                try:
                    if run_steps_real(proc, pool, steps, sim.clock):
                        res.failures.append(('C09:raises', 'parent phase %d: wrong exception behaviour' % k, k))
                except Exception as e:  # noqa
                    res.failures.append(('C09:raises', 'parent phase %d raised %s: %s' % (k, type(e).__name__, e), k))
                oracle_steps(oracle, actor, pool, steps)
            else:
                sys.stdout.flush()
                sys.stderr.flush()
                child = os.fork()
                if child == 0:
                    code = 3
                    try:
                        code = run_steps_real(proc, pool, steps, sim.clock)
                        mpsim.close_class_files(cls)
                    except BaseException:  # noqa
                        code = 3
                    finally:
                        os._exit(code)
                _, status = os.waitpid(child, 0)
                rc = os.waitstatus_to_exitcode(status)
                if rc != 0:
                    res.failures.append(('C09:raises', 'forked child (phase %d) exited with %d (2: wrong exception behaviour, 3: crashed)' % (k, rc), k))
                actor = child
                saved = list(oracle.children)
                oracle_steps(oracle, actor, pool, steps)
                # what the child created lives on in the files but not in the parent's memory
                oracle.children = saved
            after = mpsim.snapshot(sim.dir)
            raw_after = mpsim.raw_snapshot(sim.dir)
            oracle_unreadable(res, k, after)
            oracle_a(res, k, actor, before, after, 'op')
            # a forked child's exit closes the files it inherited; its own act ends with it — but it must not alter the
            # PARENT's files: bytes of every file not named …_<actor>.db stay as they were
            oracle_raw(res, k, 'op', actor, raw_before, raw_after)
            try:
                collected = sim.collect()
            except Exception as e:  # noqa
                res.failures.append(('C09:raises', 'collect() raised %s' % type(e).__name__, k))
                continue
            oracle_bc(res, k, oracle, collected)
        res.count('fork-histories')
        res.count('fork-children', len(scen['phases']) // 2)
    return res


# ================================================================================================== concurrent fork tree
# REAL os.fork() with the parent RUNNING ON next to its children (mpsim.ForkTree; interleaving fixed by pipes).  A case:
#   {'cfork': True, 'pool': [...], 'variant': v, ('initial_mmap_size': n,) 'script': [action, ...]}
#   action = ['run', process, [metric-level steps]] | ['fork', parent process, new process] | ['exit', process]
# Processes are named 'P' (the harness process: the pre-fork master), 'P.0', 'P.1' (its children), 'P.0.0' (a grandchild)...
# Every process works on the metric objects / value closure / open MmapedDict handles it INHERITED at its fork.  Exactly
# one process acts at a time and the harness observes the directory (raw bytes + the store reader + the real collector)
# after every action, i.e. while every process is idle.  Actions naming a process that does not exist (any more) are
# skipped, so shrunk scripts stay valid.  Oracles (property text only; there is no model comparison here — the Lean
# closure model has one acting closure at a time):
#  (ii) bytes: an action of process X leaves every file not named `*_<real pid of X>.db` byte-identical — size, header,
#       entries, unused tail.  The file of an ANCESTOR of X changed -> C09:child-wrote-parent-file ("the previous identity's
#       files are never written again by the new process"); any other foreign file -> C09:foreign-file-written; fork and
#       exit by themselves change no byte of any file; no file disappears;
#  (i)  C09:fork-conservation: collected counters / summary _count,_sum / histogram buckets,_count,_sum == totals of ALL
#       updates issued by ALL processes of the tree so far (exact: amounts are multiples of 1/8);
#  (iii) C09:fork-per-pid-gauge / C09:fork-gauge-aggregate: every process that reached a value object holds, for each
#       gauge child in ITS memory (inherited ones included: the re-binding re-creates them at what its own file holds,
#       0.0), its own contribution = what was last set/inc'ed in THAT process; processes that never acted hold none.
def cfork_pid_text(what, pids):
    """real pids -> process names in a message (stable `what` texts across runs)"""
    import re
    for name, pid in sorted(pids.items(), key=lambda kv: -kv[1]):
        what = re.sub(r'(?<![0-9.])%d(?![0-9])' % pid, '<%s>' % name, what)
    return what


def cfork_owner(bn, pids):
    for name, pid in pids.items():
        if bn.endswith('_%s.db' % pid):
            return name
    return None


def header_of(raw):
    import struct
    return struct.unpack_from('i', raw, 0)[0] if len(raw) >= 4 else None


def oracle_tree(res, i, act, tree, nth, before, after, raw_before, raw_after):
    kind, who = act[0], act[1]
    pid = tree.pids[who]
    anc = tree.ancestors(who) if kind == 'run' else []
    for bn, raw in raw_before.items():
        if bn not in raw_after:
            res.failures.append(('C09:foreign-file-written', 'file %s disappeared during %r of process %s' % (bn, kind, who), i))
            continue
        if raw_after[bn] == raw or (kind == 'run' and bn.endswith('_%s.db' % pid)):
            continue
        owner = cfork_owner(bn, tree.pids)
        nb = before.get(bn, [])
        na = after.get(bn, [])
        lost = [k for k in [e[0] for e in nb] if k not in [e[0] for e in na]]
        detail = 'size %d -> %d, used-size header %r -> %r, readable entries %d -> %d%s' % (
            len(raw), len(raw_after[bn]), header_of(raw), header_of(raw_after[bn]), len(nb), len(na),
            ('; series no longer in the file: %s' % ', '.join(lost[:3])) if lost else '')
        if kind != 'run':
            res.failures.append(('C09:foreign-file-written', 'the %s of process %s itself changed %s (%s)' % (kind, who, bn, detail), i))
        elif owner in anc:
            res.failures.append(('C09:child-wrote-parent-file',
                                 "operation group #%d of forked process %s (steps %r) modified %s, the file of its %s %s, which was idle: %s" % (
                                     nth, who, [s[:3] for s in act[2]][:4], bn,
                                     'parent' if owner == anc[0] else 'ancestor', owner, detail), i))
        else:
            res.failures.append(('C09:foreign-file-written', 'operations of process %s modified %s (file of %s): %s' % (
                who, bn, owner or 'no process of the tree', detail), i))
    for bn in raw_after:
        if bn not in raw_before and not (kind == 'run' and bn.endswith('_%s.db' % pid)):
            res.failures.append(('C09:foreign-file-written', 'file %s created by the %s of process %s (real pid %s)' % (bn, kind, who, pid), i))


def run_cfork(scen):
    from prometheus_client import mmap_dict
    saved = mmap_dict._INITIAL_MMAP_SIZE
    try:
        if scen.get('initial_mmap_size'):
            mmap_dict._INITIAL_MMAP_SIZE = scen['initial_mmap_size']
        return _run_cfork(scen)
    finally:
        mmap_dict._INITIAL_MMAP_SIZE = saved


def _run_cfork(scen):
    from prometheus_client import values
    res = Result()
    pool = scen['pool']
    script = scen['script']
    limit = scen.get('initial_mmap_size') or 65536
    names = sorted({a[2] for a in script if a[0] == 'fork'})
    with mpsim.Sim() as sim:
        cls = values.MultiProcessValue()        # the library's default: the real os.getpid
        sim.classes.append(cls)
        sim.use(cls)
        proc = c08.RealProc(cls, pool, sim.use, sim.clock, scen.get('variant', 0))

        def handler(payload):
            if payload[0] == 'pid':
                return os.getpid()
            return run_steps_real(proc, pool, payload[1], sim.clock)

        tree = mpsim.ForkTree(names, handler)
        oracle = Oracle(pool)
        mem = {'P': []}         # process -> the children existing in ITS memory (inherited at the fork, then its own)
        nrun = {'P': 0}         # process -> 'run' actions since its fork
        at_fork = {}            # process -> {ancestor file: (entries, size)} when it was forked
        after = mpsim.snapshot(sim.dir)
        raw_after = mpsim.raw_snapshot(sim.dir)
        i = 0
        try:
            for i, act in enumerate(script):
                kind, who = act[0], act[1]
                if who not in tree.alive or (kind == 'fork' and act[2] in tree.pids) or (kind == 'exit' and who == 'P'):
                    res.count('cfork:skipped-action')
                    continue
                before, raw_before = after, raw_after
                res.count('cfork:' + kind)
                if kind == 'run':
                    if nrun[who] == 0 and who != 'P':
                        # coverage: did an ancestor append series / grow its file between the fork and this first operation
                        own = at_fork[who]
                        if any(bn in own and len(before[bn]) > own[bn][0] for bn in before):
                            res.count('cfork:ancestor-appended-series-between-fork-and-first-op')
                        if any(bn in own and len(raw_before[bn]) > own[bn][1] for bn in raw_before):
                            res.count('cfork:ancestor-file-grew-between-fork-and-first-op')
                        if any(bn in own and len(raw_before[bn]) > limit for bn in raw_before):
                            res.count('cfork:inherited-handle-on-grown-file')
                    nrun[who] += 1
                    rep = tree.call(who, ['steps', act[2]])
                    if 'exc' in rep:
                        res.failures.append(('C09:raises', 'process %s, steps %r raised %s: %s' % (who, act[2], rep['exc'], rep.get('msg')), i))
                    elif rep['ok'] != 0:
                        res.failures.append(('C09:raises', 'process %s, steps %r: wrong exception behaviour' % (who, act[2]), i))
                    oracle.children = mem[who]
                    oracle_steps(oracle, tree.pids[who], pool, act[2])
                elif kind == 'fork':
                    new = act[2]
                    pid = tree.fork(who, new)
                    mem[new] = list(mem[who])
                    nrun[new] = 0
                    ups = [tree.pids[a] for a in tree.ancestors(new)]
                    at_fork[new] = {bn: (len(after[bn]), len(raw_after[bn])) for bn in after
                                    if any(bn.endswith('_%s.db' % q) for q in ups)}
                    rep = tree.call(new, ['pid'])
                    if rep.get('ok') != pid or pid in [q for n, q in tree.pids.items() if n != new]:
                        res.failures.append(('C09:raises', 'fork of %s by %s returned %r, the child reports %r' % (new, who, pid, rep), i))
                    res.count('cfork:fork-depth-%d' % len(ups))
                else:
                    rc = tree.exit(who)
                    if rc not in (0, None):
                        res.failures.append(('C09:raises', 'process %s exited with status %r' % (who, rc), i))
                after = mpsim.snapshot(sim.dir)
                raw_after = mpsim.raw_snapshot(sim.dir)
                oracle_unreadable(res, i, after)
                oracle_corrupt(res, i, after)
                oracle_tree(res, i, act, tree, nrun.get(who, 0), before, after, raw_before, raw_after)
                try:
                    collected = sim.collect()
                except Exception as e:  # noqa
                    res.failures.append(('C09:raises', 'collect() raised %s: %s' % (type(e).__name__, e), i))
                    continue
                canon, dups = mpsim.canon_fams(collected)
                for d in dups:
                    res.failures.append(('C09:fork-conservation', 'collector output: ' + d, i))
                for sig, what in check_exact(canon, oracle.expected_conserved(), 'C09:fork-conservation'):
                    res.failures.append((sig, 'after %r of process %s: %s (the expected totals are the sums of the updates issued by all '
                                         'processes of the tree)' % (kind, who, what), i))
                for sig, what in oracle.check_gauges(canon):
                    res.failures.append((sig.replace('C09:', 'C09:fork-'), 'after %r of process %s: %s' % (kind, who, what), i))
        except mpsim.ForkTreeError as e:
            res.failures.append(('C09:raises', str(e), i))
        finally:
            pids = dict(tree.pids)
            tree.close()
        res.failures = [(sig, cfork_pid_text(what, pids), k) for sig, what, k in res.failures]
        res.count('cfork:histories')
        if len(pids) > 2:
            res.count('cfork:histories-with-several-forks')
        res.key = hashlib.md5(json.dumps([scen['pool'], script, scen.get('initial_mmap_size')], sort_keys=True).encode('utf-8')).hexdigest()
    return res


def cfork_materials():
    """(pool, pre-fork steps of P, P's steps after the fork [NEW series, existing series, NEW series in another file],
    a child's steps [inherited series, NEW series, inherited series of the other metric], a grandchild's steps)"""
    t = [B(10.0 + j) for j in range(6)]
    return [
        ([mdef('counter', 'cl', ['l']), mdef('gauge', 'ga', ['l'], 'all')],
         [['inc', 0, ['x'], B(2.0)], ['set', 1, ['x'], B(3.0), t[0]]],
         [['inc', 0, ['y'], B(5.0)], ['inc', 0, ['x'], B(1.0)], ['set', 1, ['z'], B(7.0), t[1]]],
         [['inc', 0, ['x'], B(1.0)], ['inc', 0, ['w'], B(4.0)], ['set', 1, ['x'], B(9.0), t[2]]],
         [['inc', 0, ['x'], B(16.0)], ['set', 1, ['v'], B(11.0), t[3]]]),
        ([mdef('histogram', 'hl', ['l'], '', 'small'), mdef('summary', 's', ['l'])],
         [['obs', 0, ['x'], B(1.0)], ['obs', 1, ['x'], B(2.5)]],
         [['obs', 0, ['y'], B(3.0)], ['obs', 1, ['x'], B(1.0)], ['obs', 1, ['y'], B(2.0)]],
         [['obs', 0, ['x'], B(2.5)], ['obs', 1, ['w'], B(4.0)], ['obs', 1, ['x'], B(0.5)]],
         [['obs', 1, ['x'], B(8.0)], ['obs', 0, ['v'], B(0.5)]]),
        ([mdef('gauge', 'gv', ['l'], 'livesum'), mdef('gauge', 'gn', ['l'], 'min'), mdef('counter', 'c')],
         [['set', 0, ['x'], B(2.0), t[0]], ['set', 1, ['x'], B(-1.0), t[0]], ['inc', 2, [], B(1.0)]],
         [['set', 0, ['y'], B(4.0), t[1]], ['inc', 2, [], B(2.0)], ['set', 1, ['y'], B(-3.0), t[1]]],
         [['inc', 2, [], B(4.0)], ['inc', 0, ['w'], B(1.0), t[2]], ['set', 1, ['x'], B(-5.0), t[2]]],
         [['inc', 0, ['x'], B(8.0), t[3]], ['inc', 2, [], B(8.0)]]),
        ([mdef('gauge', 'gr', ['l'], 'mostrecent'), mdef('gauge', 'gl', (), 'liveall'), mdef('summary', 's')],
         [['set', 0, ['x'], B(1.0), t[0]], ['set', 1, [], B(2.0), t[0]], ['obs', 2, [], B(1.0)]],
         [['set', 0, ['y'], B(3.0), t[1]], ['obs', 2, [], B(2.0)], ['inc', 1, [], B(1.0), t[1]]],
         [['obs', 2, [], B(4.0)], ['set', 0, ['w'], B(5.0), t[2]], ['set', 1, [], B(6.0), t[2]]],
         [['set', 0, ['x'], B(7.0), t[3]], ['obs', 2, [], B(8.0)]]),
    ]


def merges(seqs):
    """all interleavings of the given sequences (each keeps its own order)"""
    seqs = [s for s in seqs if s]
    if not seqs:
        yield []
        return
    for k, s in enumerate(seqs):
        for rest in merges(seqs[:k] + [s[1:]] + seqs[k + 1:]):
            yield [s[0]] + rest


def cfork_script(mat, tokens):
    """tokens: 'pre' | 'p1'..'p3' (P) | 'F<k>' (P forks P.<k>) | 'a<k>1'..'a<k>3' (P.<k>) | 'f<k>' (P.<k> forks P.<k>.0) |
    'g<k>1' 'g<k>2' (P.<k>.0) | 'X<k>' / 'x<k>' (P.<k> / P.<k>.0 exits) | 'pp' (P: all three again as ONE action)"""
    pool, pre, P, C, G = mat
    out = []
    for tk in tokens:
        if tk == 'pre':
            out.append(['run', 'P', pre])
        elif tk == 'pp':
            out.append(['run', 'P', P])
        elif tk[0] == 'p':
            out.append(['run', 'P', [P[int(tk[1]) - 1]]])
        elif tk[0] == 'F':
            out.append(['fork', 'P', 'P.' + tk[1]])
        elif tk[0] == 'a':
            out.append(['run', 'P.' + tk[1], [C[int(tk[2]) - 1]]])
        elif tk[0] == 'f':
            out.append(['fork', 'P.' + tk[1], 'P.%s.0' % tk[1]])
        elif tk[0] == 'g':
            out.append(['run', 'P.%s.0' % tk[1], [G[int(tk[2]) - 1]]])
        elif tk[0] == 'X':
            out.append(['exit', 'P.' + tk[1]])
        elif tk[0] == 'x':
            out.append(['exit', 'P.%s.0' % tk[1]])
    return out


CFORK_CHAINS = [
    'pre F0 f0 p1 g01 p2 a01 p3 g02 a02',           # the child forks before it ever acts: the grandchild holds P's handles
    'pre F0 p1 f0 p3 g01 p2 a01 g02',
    'pre F0 a01 f0 a02 p1 g01 a03 g02 p2',          # the grandchild inherits the CHILD's files, the child appends (a02) before g01
    'pre F0 p1 a01 p3 f0 a02 g01 p2 X0 g02 p1',     # the child exits while the grandchild lives on
    'F0 pre f0 p1 a01 p3 g01 p2 a02 g02',           # fork before anything exists: nothing inherited but the closure
]
CFORK_SIBLINGS = [
    'pre F0 p1 F1 p3 a01 p2 a11 a02 a12 pp',        # two children forked at different file sizes of P
    'pre F0 F1 p1 a11 p3 a01 p2 a12 a02',
    'pre F0 p1 a01 F1 p3 a02 a11 X0 p2 a12',
    'pre F0 p1 F1 f1 p3 g11 a01 p2 a11 g12 x1 X1 X0 pp',    # siblings and a chain
    'pre F0 p1 X0 p2 F1 p3 X1 pp',                   # children that never act
]


def cfork_systematic(quick):
    mats = cfork_materials()
    for mi, mat in enumerate(mats):
        # EXHAUSTIVE: one child, every interleaving of P's three steps after the fork with the child's first two
        for order in merges([['p1', 'p2', 'p3'], ['a01', 'a02']]):
            yield {'cfork': True, 'pool': mat[0], 'variant': mi % 3, 'script': cfork_script(mat, ['pre', 'F0'] + order + ['X0', 'p2'])}
        for line in CFORK_CHAINS + CFORK_SIBLINGS:
            yield {'cfork': True, 'pool': mat[0], 'variant': mi % 3, 'script': cfork_script(mat, line.split())}
    if not quick:
        # every interleaving of P (3 steps), the child (fork of a grandchild + 2 steps) and the grandchild (2 steps)
        for mi, mat in enumerate(mats[:2]):
            for corder in (['f0', 'a01', 'a02'], ['a01', 'f0', 'a02']):
                for order in merges([['p1', 'p2', 'p3'], corder, ['g01', 'g02']]):
                    if order.index('f0') < order.index('g01'):
                        yield {'cfork': True, 'pool': mat[0], 'variant': 0, 'script': cfork_script(mat, ['pre', 'F0'] + order)}
    # GROWTH: the parent's file grows (truncate + new mapping) between the fork and the child's first operation, the
    # child still holds the mapping of the OLD size; also a file that had grown before the fork, and the child's own growth
    lv = lambda j: 'child-%02d-%s' % (j, 'y' * (6 + 3 * (j % 4)))
    t = B(10.0)
    for name, md, upd in [('counter', mdef('counter', 'cl', ['l']), lambda j: ['inc', 0, [lv(j)], B(1.0 + j % 3)]),
                          ('gauge-all', mdef('gauge', 'ga', ['l'], 'all'), lambda j: ['set', 0, [lv(j)], B(2.0 + j), t]),
                          ('histogram', mdef('histogram', 'hl', ['l'], '', 'small'), lambda j: ['obs', 0, [lv(j)], B([1.0, 2.5, 8.0][j % 3])])]:
        for ims, n0, n1 in ((256, 1, 6), (256, 5, 9), (512, 2, 14)):
            if name == 'histogram':
                n1 = n0 + 3
            grow = [upd(j) for j in range(n0, n1)]
            base = {'cfork': True, 'pool': [md], 'variant': 0, 'initial_mmap_size': ims}
            R = lambda who, steps: ['run', who, steps]
            yield dict(base, script=[R('P', [upd(j) for j in range(n0)]), ['fork', 'P', 'P.0'], R('P', grow), R('P.0', [upd(0)]),
                                     R('P', [upd(n1 - 1), upd(n1)]), R('P.0', [upd(n1 + 1)]), R('P', [upd(0)])])
            yield dict(base, script=[R('P', [upd(j) for j in range(n0)]), ['fork', 'P', 'P.0'], ['fork', 'P.0', 'P.0.0'], R('P', grow[:2]),
                                     R('P.0.0', [upd(0)] + grow), R('P', grow[2:]), R('P.0', [upd(0)]), ['fork', 'P', 'P.1'],
                                     R('P', [upd(n1)]), R('P.0.0', [upd(n1 + 1)]), R('P.1', [upd(1)]), R('P.0', [upd(n1 + 2)])])


def shrink_cfork(case, sig, what):
    """fewer actions, then fewer steps inside each remaining 'run' action; -> (case, what of the shrunk case)"""
    def fails(script):
        return [f for f in run_cfork(dict(case, script=script)).failures if f[0] == sig]
    script = lib.shrink_list(case['script'], lambda sc: bool(fails(sc)), max_rounds=30)
    for k in range(len(script)):
        if script[k][0] == 'run' and len(script[k][2]) > 1:
            def still(steps, k=k):
                return bool(fails(script[:k] + [['run', script[k][1], steps]] + script[k + 1:]))
            script[k] = ['run', script[k][1], lib.shrink_list(script[k][2], still, max_rounds=8)]
    f = fails(script)
    if not f:
        return case, what
    return dict(case, script=script), f[0][1]


def gen_cfork(rng, all_modes):
    """seeded random process tree: up to 4 forks (depth <= 3), chunks of a long random history dealt to the live
    processes — after a fork the FORKING process is favoured, so that it keeps running before the new process acts"""
    h = gen_history(rng, all_modes, long=True)
    steps = [st for st in h['steps'] if st[0] not in ('pid', 'reset', 'remove', 'clear', 'keep') and not st[0].startswith('old-')]
    scen = {'cfork': True, 'pool': h['pool'], 'variant': h['variant']}
    if rng.random() < 0.35:
        scen['initial_mmap_size'] = rng.choice([256, 512, 1024])
    script = []
    alive = ['P']
    forks = 0
    favoured = None
    k = rng.randint(1, 4)
    script.append(['run', 'P', steps[:k]])
    while k < len(steps):
        r = rng.random()
        if forks < 4 and r < 0.22:
            par = rng.choice([p for p in alive if p.count('.') < 2])
            new = '%s.%d' % (par, sum(1 for a in script if a[0] == 'fork' and a[1] == par))
            script.append(['fork', par, new])
            alive.append(new)
            forks += 1
            favoured = par
            continue
        if len(alive) > 1 and r < 0.27:
            gone = rng.choice(alive[1:])
            alive.remove(gone)
            script.append(['exit', gone])
            favoured = None if favoured == gone else favoured
            continue
        who = favoured if favoured is not None and rng.random() < 0.6 else rng.choice(alive)
        if who != favoured:
            favoured = None
        n = rng.randint(1, 3)
        script.append(['run', who, steps[k:k + n]])
        k += n
    scen['script'] = script
    return scen


# ================================================================================================== os.fork / raw libc fork
RAWFORK_VARIANTS = [
    {'rawfork': True, 'order': ['os', 'raw'], 'a0': B(1.0), 'v0': B(3.0), 'incs': [B(2.0), B(4.0)], 'sets': [B(5.0), B(6.0)],
     'a_end': B(8.0), 'v_end': B(7.0)},
    {'rawfork': True, 'order': ['raw', 'os'], 'a0': B(0.5), 'v0': B(-1.0), 'incs': [B(16.0), B(0.25)], 'sets': [B(2.0), B(-0.0)],
     'a_end': B(1024.0), 'v_end': B(9.0)},
    {'rawfork': True, 'order': ['raw', 'raw', 'os'], 'a0': B(1.0), 'v0': B(1.0), 'incs': [B(2.0), B(4.0), B(8.0)],
     'sets': [B(2.0), B(3.0), B(4.0)], 'a_end': B(16.0), 'v_end': B(5.0)},
]
CKEY = '["c", "c_total", {}, "h"]'
GKEY = '["g", "g", {}, "h"]'


def run_rawfork(case):
    """the library's DEFAULT value class (os.getpid) in a helper subprocess that forks through os.fork() and through the
    raw libc fork(); -> Result.  A child writes only files carrying ITS real pid, never the parent's; totals conserved."""
    res = Result()
    status, doc, err = mpsim.run_rawfork_helper(case)
    res.count('raw-fork:variants')
    if status != 'ok':
        res.failures.append(('C09:raises', 'the fork helper ended with %s; stderr: %s' % (status, err.strip()[-400:]), 0))
        return res
    if not doc['multiprocess']:
        res.failures.append(('C09:raises', 'the default value class is not the multiprocess one although PROMETHEUS_MULTIPROC_DIR is set', 0))
        return res
    parent = doc['parent']
    sig = 'C09:raw-fork-writes-parent-files'
    prev = doc['before']
    val = lambda snap, fn, key: [lib.from_bits(v) for k, v, t in snap.get(fn, {'entries': []})['entries'] if k == key]
    incs = [lib.from_bits(case['a0'])]
    gauges = {str(parent): lib.from_bits(case['v0'])}
    for j, ch in enumerate(doc['children']):
        if ch.get('unavailable'):
            res.count('raw-fork:unavailable')
            continue
        kind = {'os': 'os.fork()', 'raw': 'raw libc fork()'}[ch['kind']]
        res.count('raw-fork:' + ch['kind'])
        cpid = ch['reported']
        k, v = lib.from_bits(case['incs'][j]), lib.from_bits(case['sets'][j])
        incs.append(k)
        gauges[str(cpid)] = v
        if ch['status'] != 0 or cpid is None or cpid != ch['fork_returned'] or cpid == parent:
            res.failures.append(('C09:raises', 'child %d (%s): exit status %s, fork returned %s, child reports pid %s' % (
                j, kind, ch['status'], ch['fork_returned'], cpid), j))
            continue
        aft = ch['after']
        for fn in sorted(prev):          # (b) the child left every file that existed byte-identical, the parent's first of all
            if fn not in aft or (aft[fn]['sha'], aft[fn]['size']) != (prev[fn]['sha'], prev[fn]['size']):
                whose = "the PARENT's file" if fn.endswith('_%s.db' % parent) else 'the existing file'
                res.failures.append((sig, 'child %d (%s, real pid %s) rewrote %s %s: %r -> %r' % (
                    j, kind, cpid, whose, fn, [lib.from_bits(e[1]) for e in prev[fn]['entries']],
                    [lib.from_bits(e[1]) for e in aft.get(fn, {'entries': []})['entries']]), j))
        for fn, key, want in (('counter_%s.db' % cpid, CKEY, k), ('gauge_all_%s.db' % cpid, GKEY, v)):   # (a)
            got = val(aft, fn, key)
            if len(got) != 1 or not feq(got[0], want):
                res.failures.append((sig, "child %d (%s, real pid %s): its update (%r) is not in its own file %s (holds %r); files now: %s" % (
                    j, kind, cpid, want, fn, got, sorted(aft)), j))
        for fn in sorted(set(aft) - set(prev)):
            if not fn.endswith('_%s.db' % cpid):
                res.failures.append((sig, 'child %d (%s, real pid %s) created %s' % (j, kind, cpid, fn), j))
        prev = aft
    incs.append(lib.from_bits(case['a_end']))
    gauges[str(parent)] = lib.from_bits(case['v_end'])
    end = doc['end']
    total = 0.0
    for a in incs:
        total += a
    on_disk = 0.0
    for fn in end:
        for x in val(end, fn, CKEY):
            on_disk += x
    if not feq(on_disk, total):      # (c)
        res.failures.append(('C09:conservation', 'counter: the files hold %r in total, the increments issued add up to %r' % (on_disk, total), 0))
    coll = {n: {(sn, tuple(map(tuple, ls))): lib.from_bits(v) for sn, ls, v in ss} for n, ss in doc['collected']}
    if not feq(coll.get('c', {}).get(('c_total', ()), float('nan')), total):
        res.failures.append(('C09:conservation', 'collected c_total %r, the increments issued add up to %r' % (coll.get('c'), total), 0))
    want_g = {('g', (('pid', p),)): v for p, v in gauges.items()}
    got_g = coll.get('g', {})
    if set(got_g) != set(want_g) or any(not feq(got_g[k], want_g[k]) for k in want_g):
        res.failures.append(('C09:per-pid-gauge', 'collected gauge %r, each process last set %r' % (got_g, want_g), 0))
    res.key = hashlib.md5(json.dumps(case, sort_keys=True).encode('utf-8')).hexdigest()
    res.sample = {'rawfork': case['order'], 'files_at_end': sorted(end)}
    return res


# ================================================================================================== candidate finding
def probe_two_live_values(ctx):
    """two live value objects bound to the same (file, key) lose updates even without an identity change"""
    from prometheus_client import Counter
    sig = 'C09:two-live-values-one-key'
    found = []
    results = []
    for which in ('two-metrics', 'remove-then-labels'):
        res = Result()
        log = mpsim.ValueLog()
        with mpsim.Sim() as sim:
            cls, cell = sim.cell_class(5, log)
            log.after = lambda at: res.snaps.__setitem__(at, mpsim.snapshot(sim.dir))
            sim.use(cls)
            if which == 'two-metrics':
                c1 = Counter('c', 'h', registry=None)
                c2 = Counter('c', 'h', registry=None)
                c1.inc()
                c2.inc()
                c1.inc()
                witness = "c1=Counter('c','h',registry=None); c2=Counter('c','h',registry=None); c1.inc(); c2.inc(); c1.inc()"
            else:
                c = Counter('c', 'h', ['l'], registry=None)
                a = c.labels('x')
                a.inc()
                c.remove('x')
                b = c.labels('x')
                b.inc()
                a.inc()
                witness = "c=Counter('c','h',['l'],registry=None); a=c.labels('x'); a.inc(); c.remove('x'); b=c.labels('x'); b.inc(); a.inc()"
            got = [s[2] for f in sim.collect() for s in f[3] if s[0] == 'c_total']
            res.line = mpsim.hist_request(5, log.ops)
            res.nops = len(log.ops)
            res.snaps = {k: mpsim.canon_snapshot(v) for k, v in res.snaps.items()}
        results.append(res)
        if got != [3.0]:
            found.append({'sig': sig, 'what': 'three increments of one series are collected as %r (%s)' % (got, which), 'witness': witness})
    divs, traces = model_divergences(ctx, results)
    ctx.traces += traces
    for which, d in zip(('two-metrics', 'remove-then-labels'), divs):
        for what in d:
            ctx.diverge('probe two live values (%s): %s' % (which, what), {'probe': 'two-live-values'})
    known = lib.match_known(lib.load_known(), 'C09', sig)
    for f in found:
        if known is not None:
            ctx.fail(sig, f['what'], {'probe': 'two-live-values'})
        else:
            ctx.extra.setdefault('candidate_findings', []).append(f)
    ctx.count('probe:two-live-values')


# ================================================================================================== driver of the check
class Reporter:
    def __init__(self, ctx):
        self.ctx = ctx
        self.shrunk = set()
        self.shrunk_div = 0

    def failures(self, scen, res):
        seen = set()
        for sig, what, i in res.failures:
            if sig in seen:
                continue
            seen.add(sig)
            case = scen
            if scen.get('cfork'):
                case = dict(scen, script=scen['script'][:i + 1])
                if sig not in self.shrunk and len(self.shrunk) < 3:
                    self.shrunk.add(sig)
                    case, what = shrink_cfork(case, sig, what)
            elif not scen.get('fork') and not scen.get('rawfork'):
                case = dict(scen, expect_growth=False, steps=scen['steps'][:i + 1])
                if sig not in self.shrunk and len(self.shrunk) < 3:
                    self.shrunk.add(sig)

                    def still(steps, sig=sig):
                        return any(f[0] == sig for f in run_history(dict(scen, expect_growth=False, steps=steps)).failures)
                    case = dict(scen, expect_growth=False, steps=lib.shrink_list(case['steps'], still, max_rounds=40))
                    for f in run_history(case).failures:
                        if f[0] == sig:
                            what = f[1]
                            break
            self.ctx.fail(sig, what, case)

    def divergences(self, scen, divs):
        if not divs:
            return
        what = divs[0]
        case = scen
        if not scen.get('fork') and not scen.get('rawfork') and not scen.get('cfork') and self.shrunk_div < 2:
            self.shrunk_div += 1
            ctx = self.ctx

            def still(steps):
                return bool(model_divergences(ctx, [run_history(dict(scen, expect_growth=False, steps=steps))])[0][0])
            case = dict(scen, expect_growth=False, steps=lib.shrink_list(scen['steps'], still, max_rounds=25))
            d = model_divergences(ctx, [run_history(case)])[0][0]
            if d:
                what = d[0]
        self.ctx.diverge(what, case)


def flush(ctx, rep, batch):
    todo = [(s, r) for s, r in batch if r.line is not None]
    divs, traces = model_divergences(ctx, [r for _, r in todo])
    ctx.traces += traces
    dmap = {id(r): d for (_, r), d in zip(todo, divs)}
    for scen, res in batch:
        ctx.case(res.key, res.sample)
        for k, n in res.counts.items():
            ctx.count(k, n)
        rep.failures(scen, res)
        rep.divergences(scen, dmap.get(id(res), []))
    del batch[:]


def run(ctx):
    all_modes = c08.modes()
    ctx.rule = ('history = metric pool + metric-level script under one value class with a scripted process identity; 9 hand-written '
                'base histories with an identity change inserted at every position (one change; two changes, the second '
                'returning to the first identity or going to a third), then seeded random histories (2-4 identities, 6-50 steps, '
                'all metric types, all gauge modes, metrics sharing a per-type file); family "generations": 4 base scripts with '
                'mark_process_dead / new worker (reused or fresh pid) placed at every position, then seeded random worlds of 1-4 '
                'worker generations with identity changes inside and deaths between and inside them; one case = one history, '
'family "relabel": 3 base scripts on labelled metrics with remove()/clear() of the next child at every position and '
                'an identity change / new worker / death at every place relative to it, plus remove/clear sprinkled into all random '
                'histories; key-order histories (re-binding into files an earlier generation laid out differently); int, falsy and string identities '
                '(look-alike groups together); growth histories (initial store size patched to 256/512 bytes: fill a file past it, leave the identity, come '
                'back by identity change / pid reuse / death+restart, update old and new children) and one unpatched with ~700 children; '
                'stale-handle histories (a kept old child object next to its re-created successor, updated around identity changes); '
                '3 real-process cases (helper subprocess, default value class, os.fork and raw libc fork); concurrent fork trees (real '
                'os.fork of the harness process, interleaving fixed by pipes: every interleaving of the parent\'s 3 post-fork steps '
                '[new series / existing series / new series in another file] with the child\'s first 2 operations for 4 metric pools, '
                'chains child->grandchild, several children, idle children, files growing between fork and the child\'s first operation, '
                'seeded random trees; bytes of all foreign files compared around every action, totals and per-process gauges collected); the falsy identities 0 and "" occur as initial identity, change target, identity returned to, reused pid '
                'and dead pid (systematic families re-run with 10/11 renamed, ~40 % / ~10 % of the random ones); '
                'observed after every step; non-trivial when it contains an identity change, a new worker or a death; '
                'distinct by value-level log + final collection')
    quick = ctx.tier == 'quick'
    budget = 52.0 if quick else 480.0
    n_random = 350 if quick else 5000
    n_world = 220 if quick else 4000
    n_fork = 2 if quick else 200
    n_cfork = 12 if quick else 400
    if ctx.broken:
        n_random *= 3
        n_world *= 3
        n_cfork *= 3
        budget *= 1.5
    t0 = time.time()
    rep = Reporter(ctx)
    probe_two_live_values(ctx)
    batch = []
    samples = 3
    for case in RAWFORK_VARIANTS if quick else RAWFORK_VARIANTS * 4:
        batch.append((case, run_rawfork(case)))
    flush(ctx, rep, batch)
    for bi, (pool, steps) in enumerate(bases()):
        rename = [{11: 0}, {10: 0}, {}][bi % 3]     # change to 0 and on to a third / initial identity 0 and back to it / none
        for k, ins in enumerate(insertions(steps, 10, 11, 12)):
            scen = rename_ids({'pool': pool, 'pid0': 10, 'steps': ins, 'variant': 0}, rename)
            want = samples > 0 and k == 20
            samples -= 1 if want else 0
            batch.append((scen, run_history(scen, want)))
            ctx.count('histories:systematic')
            if len(batch) >= 60:
                flush(ctx, rep, batch)
        if bi in (2, 3, 8):     # gauge bases: the single-change and first two-change placements with look-alike STRING identities
            for m in ({10: 'w-0b', 11: 'w-0d', 12: 'w-0'}, {10: 'a', 11: 'a.db', 12: 'a.d'}, {10: 'bd', 11: 'd', 12: 'b'}):
                for ins in list(insertions(steps, 10, 11, 12))[1:len(steps) + 8]:
                    scen = rename_ids({'pool': pool, 'pid0': 10, 'steps': ins, 'variant': 0}, m)
                    batch.append((scen, run_history(scen)))
                    ctx.count('histories:systematic')
        if bi in (0, 3, 5):     # the single-change placements again with the empty string as an identity
            for m in ({11: ''}, {10: ''}, {10: 0, 11: ''}):
                for ins in list(insertions(steps, 10, 11, 12))[1:len(steps) + 2]:
                    scen = rename_ids({'pool': pool, 'pid0': 10, 'steps': ins, 'variant': 0}, m)
                    batch.append((scen, run_history(scen)))
                    ctx.count('histories:systematic')
    flush(ctx, rep, batch)
    for bi, (pool, steps) in enumerate(world_bases()):
        for k, ins in enumerate(world_insertions(steps)):
            if bi == 4 and k % 2:
                continue        # (time) the reset script gets every other placement
            scen = rename_ids({'pool': pool, 'pid0': 10, 'steps': ins, 'variant': 0}, [{}, {10: 0}, {11: 0}, {10: ''}][bi % 4])
            batch.append((scen, run_history(scen, k == 14 and len(ctx.samples) < 5)))
            ctx.count('histories:generations-systematic')
            if len(batch) >= 60:
                flush(ctx, rep, batch)
    flush(ctx, rep, batch)
    fifteen = {'pool': [mdef('counter', 'cl', ['l'])], 'pid0': 10, 'variant': 0, 'steps': [
        ['inc', 0, ['x'], B(1.0)], ['remove', 0, ['x']], ['inc', 0, ['x'], B(2.0)], ['pid', 11], ['inc', 0, ['x'], B(4.0)],
        ['pid', 10], ['inc', 0, ['x'], B(8.0)]]}      # collects 15
    batch.append((fifteen, run_history(fifteen)))
    ctx.count('histories:relabel-systematic')
    for bi, (pool, steps) in enumerate(relabel_bases()):
        for k, ins in enumerate(relabel_insertions(steps)):
            scen = rename_ids({'pool': pool, 'pid0': 10, 'steps': ins, 'variant': 0}, [{}, {10: 0}, {11: 0}][bi % 3])
            batch.append((scen, run_history(scen, k == 33 and len(ctx.samples) < 6)))
            ctx.count('histories:relabel-systematic')
            if len(batch) >= 60:
                flush(ctx, rep, batch)
    flush(ctx, rep, batch)
    for scen in order_histories():
        batch.append((scen, run_history(scen)))
        ctx.count('histories:order')
        if len(batch) >= 60:
            flush(ctx, rep, batch)
    for scen in growth_histories():
        batch.append((scen, run_history(scen)))
        ctx.count('histories:growth')
        if len(batch) >= 60:
            flush(ctx, rep, batch)
    for scen in [big_history()] if quick else [big_history(), big_history(900, 50, 0), big_history(700, 120, 11), big_history(1500, 40)]:
        batch.append((scen, run_history(scen)))
        ctx.count('histories:growth-unpatched-65536')
    flush(ctx, rep, batch)
    for k, (pool, steps) in enumerate(stale_histories()):
        scen = rename_ids({'pool': pool, 'pid0': 10, 'steps': steps, 'variant': 0}, [{}, {}, {11: 0}][k % 3])
        batch.append((scen, run_history(scen)))
        ctx.count('histories:stale-handle-systematic')
        if len(batch) >= 60:
            flush(ctx, rep, batch)
    flush(ctx, rep, batch)
    for scen in cfork_systematic(quick):
        batch.append((scen, run_cfork(scen)))
        ctx.count('histories:concurrent-fork-systematic')
    flush(ctx, rep, batch)
    for k in range(n_cfork):
        scen = gen_cfork(ctx.rng, all_modes)
        batch.append((scen, run_cfork(scen)))
        ctx.count('histories:concurrent-fork-random')
        if len(batch) >= 40:
            flush(ctx, rep, batch)
    flush(ctx, rep, batch)
    for k in range(n_fork):
        scen = gen_fork_history(ctx.rng, all_modes)
        batch.append((scen, run_fork_history(scen)))
    flush(ctx, rep, batch)
    for k in range(n_world):
        if time.time() - t0 > budget * 0.8:
            ctx.count('histories:skipped-for-time', n_world - k)
            break
        scen = gen_world(ctx.rng, all_modes, long=(k % 6 == 5))
        if k % 8 == 3:
            scen['steps'] = sprinkle_stale(ctx.rng, scen['pool'], scen['steps'])
        batch.append((scen, run_history(scen)))
        ctx.count('histories:generations-random')
        if len(batch) >= 40:
            flush(ctx, rep, batch)
    flush(ctx, rep, batch)
    for k in range(n_random):
        if time.time() - t0 > budget:
            ctx.count('histories:skipped-for-time', n_random - k)
            break
        scen = gen_history(ctx.rng, all_modes, long=(k % 8 == 7))
        if k % 8 == 5:
            scen['steps'] = sprinkle_stale(ctx.rng, scen['pool'], scen['steps'])
        batch.append((scen, run_history(scen, samples > 0)))
        samples -= 1
        ctx.count('histories:random')
        if len(batch) >= 40:
            flush(ctx, rep, batch)
    flush(ctx, rep, batch)


def replay(ctx, case):
    scen = case.get('case')
    if scen is None and case.get('divergences'):
        scen = case['divergences'][0].get('case')
    if not scen:
        print('REPLAY: the file records no failing input (kind=%s)' % case.get('kind'))
        return 0
    if scen.get('probe'):
        probe_two_live_values(ctx)
    elif scen.get('rawfork'):
        for sig, what, i in run_rawfork(scen).failures:
            ctx.fail(sig, what, scen)
    elif scen.get('cfork'):
        res = run_cfork(scen)
        for a in scen['script']:
            print('REPLAY', a)
        for sig, what, i in res.failures:
            ctx.fail(sig, 'action %d: %s' % (i, what), scen)
    elif scen.get('fork'):
        res = run_fork_history(scen)
        for sig, what, i in res.failures:
            ctx.fail(sig, 'phase %d: %s' % (i, what), scen)
    else:
        res = run_history(scen)
        for sig, what, i in res.failures:
            ctx.fail(sig, 'step %d: %s' % (i, what), scen)
        for what in model_divergences(ctx, [res])[0][0]:
            ctx.diverge(what, scen)
    for f in ctx.failures:
        print('REPLAY-FAIL', f['sig'], f['what'])
    for f in ctx.divergences:
        print('REPLAY-DIVERGE', f['what'])
    return 1 if ctx.failures or ctx.divergences else 0
