"""C09 — a change of process identity (fork) never loses or double-counts updates.

Real code: ONE `MultiProcessValue` class whose `process_identifier` reads a mutable cell (harness/mpsim.py, C09 style),
wrapped so that every value-object call is logged.  A history is a metric-level script (create / labels() / inc / dec /
observe / set at a scripted time / read via `metric.collect()` / Counter.reset) with identity changes `['pid', p]`
inserted systematically at every position (one change, and two changes incl. returning to the first identity or going
to a third) of hand-written base histories, plus seeded random longer ones.  After EVERY step the harness reads every
`*.db` file through the real store reader and runs the real collector.  Thorough tier (two cheap cases in the quick
tier): real `os.fork()` with `MultiProcessValue()` on the real `os.getpid`.

ORACLE (independent of the Lean model; from the metric-level script and the property text):
 (a) C09:foreign-file-written — a step executed under identity p changes or creates only files named `*_<p>.db`
     (an identity change by itself changes nothing; no file ever disappears);
 (b) C09:conservation — collected counters, summary _count/_sum and histogram buckets/_count/_sum equal the totals of
     all updates ever issued, whatever identity issued them (amounts are multiples of 1/8 below 2^41 or ±inf/NaN, so
     the totals are exact in any order); metrics on which Counter.reset() was used are excluded;
 (c) C09:per-pid-gauge — for gauges of mode all/liveall every identity that made at least one value-level call while
     the child existed has exactly one series pid=<identity> showing what was last set/inc'ed under THAT identity
     (0.0 if never), identities that did nothing since the child exists have none;
 (d) C09:rebind-cache — after every step that reached a value object, each value object's cached (value, set-time)
     equals what `<prefix>_<current identity>.db` holds for its key.
MODEL: the value-level log of the same history is one `c08 hist` request; the whole directory after every value-level
call and every `get` result are compared with the real ones.
"""
import hashlib
import os
import time

import lib
import mpsim
from mpsim import feq
from props import c08
from props.c08 import B, LAYOUTS, mdef

INF = c08.INF


def is_perpid(md):
    return md['kind'] == 'gauge' and md['mode'] in ('all', 'liveall')


def raw_equal(a, b):
    return len(a) == len(b) and all(x[0] == y[0] and lib.bits_of(x[1]) == lib.bits_of(y[1]) and
                                    lib.bits_of(x[2]) == lib.bits_of(y[2]) for x, y in zip(a, b))


# ================================================================================================== the oracle
class Oracle:
    def __init__(self, pool):
        self.pool = pool
        self.children = []      # (mi, lvs) existing in the acting process, in creation order
        self.totals = {}        # (mi, lvs) -> [list of amounts]  (counter incs / observations)
        self.excluded = set()   # metric indices on which reset() was used
        self.cells = {}         # identity -> {(mi, lvs): value}   per-pid gauges

    def create_child(self, mi, lvs):
        """-> True when the child is new in the acting process's memory (its value objects get constructed)"""
        self.totals.setdefault((mi, lvs), [])
        if (mi, lvs) in self.children:
            return False
        self.children.append((mi, lvs))
        return True

    def touched(self, pid):
        """identity `pid` reached a value object: every existing per-pid gauge child now has a cell of its own there"""
        cells = self.cells.setdefault(pid, {})
        for mi, lvs in self.children:
            if is_perpid(self.pool[mi]):
                cells.setdefault((mi, lvs), 0.0)

    def update(self, pid, mi, lvs, op, x):
        md = self.pool[mi]
        if md['kind'] == 'gauge':
            if is_perpid(md):
                cells = self.cells[pid]
                if op == 'set':
                    cells[(mi, lvs)] = float(x)
                elif op == 'inc':
                    cells[(mi, lvs)] += x
                else:
                    cells[(mi, lvs)] += -x
        else:
            self.totals[(mi, lvs)].append(x)

    def expected_conserved(self):
        """{family: {(sample name, labels): total}} for counters, summaries, histograms never reset"""
        out = {}
        for (mi, lvs), amounts in self.totals.items():
            md = self.pool[mi]
            if md['kind'] == 'gauge' or mi in self.excluded:
                continue
            n = md['name']
            L = tuple(sorted(zip(md['labels'], lvs)))
            fam = out.setdefault(n, {})
            tot = 0.0
            for a in amounts:
                tot += a
            if md['kind'] == 'counter':
                fam[(n + '_total', L)] = tot
            elif md['kind'] == 'summary':
                fam[(n + '_count', L)] = float(len(amounts))
                fam[(n + '_sum', L)] = tot
            else:
                fam[(n + '_sum', L)] = tot
                for b, text in LAYOUTS[md['layout']]:
                    fam[(n + '_bucket', tuple(sorted(L + (('le', text),))))] = float(sum(1 for a in amounts if a <= b))
                fam[(n + '_count', L)] = float(sum(1 for a in amounts if a <= INF))
        return out

    def expected_perpid(self):
        out = {}
        for pid, cells in self.cells.items():
            for (mi, lvs), v in cells.items():
                md = self.pool[mi]
                L = tuple(sorted(tuple(zip(md['labels'], lvs)) + (('pid', str(pid)),)))
                out.setdefault(md['name'], {})[(md['name'], L)] = v
        return out


def check_exact(canon, expected, sig):
    probs = []
    for name, es in expected.items():
        rs = canon.get(name, (None, None, {}))[2]
        if set(rs) != set(es):
            probs.append((sig, 'family %s: series missing %s, unexpected %s' % (
                name, sorted(set(es) - set(rs))[:4], sorted(set(rs) - set(es))[:4])))
            continue
        for k in sorted(es):
            if not feq(es[k], rs[k]):
                probs.append((sig, 'family %s: series %s%r collected %r, the history demands %r' % (
                    name, k[0], dict(k[1]), rs[k], es[k])))
                break
    return probs


# ================================================================================================== running a history
class Result:
    def __init__(self):
        self.failures = []      # (sig, what, step index)
        self.line = None        # c08 hist request
        self.snaps = {}         # value-level op index -> canonical directory snapshot
        self.gets = {}
        self.nops = 0
        self.key = None
        self.sample = None
        self.counts = {}

    def count(self, k, n=1):
        self.counts[k] = self.counts.get(k, 0) + n


def file_prefix_of(obj):
    typ, mode = obj._params[0], obj._params[6]
    return typ + '_' + mode if typ == 'gauge' else typ


def oracle_a(res, i, pid, before, after, is_pid_step):
    for bn in before:
        if bn not in after:
            res.failures.append(('C09:foreign-file-written', 'file %s disappeared during a step under identity %s' % (bn, pid), i))
    for bn, entries in after.items():
        if bn in before and raw_equal(before[bn], entries):
            continue
        verb = 'created' if bn not in before else 'changed'
        if is_pid_step:
            res.failures.append(('C09:foreign-file-written', 'file %s %s by the identity change itself' % (bn, verb), i))
        elif not bn.endswith('_%s.db' % pid):
            res.failures.append(('C09:foreign-file-written', 'file %s %s by a step executed under identity %s' % (bn, verb, pid), i))


def oracle_bc(res, i, oracle, collected):
    canon, dups = mpsim.canon_fams(collected)
    for d in dups:
        res.failures.append(('C09:conservation', 'collector output: ' + d, i))
    for sig, what in check_exact(canon, oracle.expected_conserved(), 'C09:conservation'):
        res.failures.append((sig, what, i))
    for sig, what in check_exact(canon, oracle.expected_perpid(), 'C09:per-pid-gauge'):
        res.failures.append((sig, what, i))
    return canon


def oracle_d(res, i, objs, pid, after):
    for idx, obj in enumerate(objs):
        if not hasattr(obj, '_key'):
            continue
        fn = '%s_%s.db' % (file_prefix_of(obj), pid)
        held = [(v, t) for k, v, t in after.get(fn, []) if k == obj._key]
        if len(held) != 1:
            res.failures.append(('C09:rebind-cache', 'value object %d %r: its key occurs %d times in %s' % (
                idx, obj._params[1:5], len(held), fn), i))
        elif not (feq(held[0][0], obj._value) and feq(held[0][1], obj._timestamp)):
            res.failures.append(('C09:rebind-cache', 'value object %d %r caches (%r, %r) but %s holds %r' % (
                idx, obj._params[1:5], obj._value, obj._timestamp, fn, held[0]), i))


def run_history(scen, want_sample=False):
    res = Result()
    pool = scen['pool']
    log = mpsim.ValueLog()
    oracle = Oracle(pool)
    with mpsim.Sim() as sim:
        cls, cell = sim.cell_class(scen['pid0'], log)
        log.after = lambda at: res.snaps.__setitem__(at, mpsim.snapshot(sim.dir))
        proc = c08.RealProc(cls, pool, sim.use, sim.clock, scen.get('variant', 0))
        after = mpsim.snapshot(sim.dir)
        pids_seen = {scen['pid0']}
        canon = {}
        for i, st in enumerate(scen['steps']):
            before = after
            nlog = len(log.ops)
            pid = cell[0]
            op = st[0]
            res.count('step:' + op)
            raised = None
            if op == 'pid':
                cell[0] = st[1]
                log.set_pid_logged(st[1])
                res.count('pid:' + ('return-to-seen' if st[1] in pids_seen else 'new'))
                pids_seen.add(st[1])
            else:
                mi = st[1]
                md = pool[mi]
                lvs = c08.lvs_of(md, st[2]) if len(st) > 2 else ()
                expect = None
                try:
                    if op == 'create':
                        proc.metric(mi)
                        if not md['labels']:
                            oracle.create_child(mi, ())
                    elif op == 'read':
                        sim.use(cls)
                        list(proc.metric(mi).collect())
                        if not md['labels']:
                            oracle.create_child(mi, ())
                    else:
                        proc.child(mi, lvs)
                        oracle.create_child(mi, lvs)
                        if op == 'reset':
                            sim.use(cls)
                            proc.child(mi, lvs).reset()
                            oracle.excluded.add(mi)
                        elif op != 'child':
                            x = lib.from_bits(st[3])
                            t = lib.from_bits(st[4]) if len(st) > 4 else sim.clock.now
                            expect = 'RuntimeError' if (c08.is_mostrecent(md) and op in ('inc', 'dec')) else None
                            raised = proc.update(mi, lvs, op, x, t)
                            if len(log.ops) > nlog:
                                oracle.touched(pid)
                            if raised is None:
                                oracle.update(pid, mi, lvs, op, x)
                    if raised != expect:
                        res.failures.append(('C09:raises', 'step %r under identity %s raised %s, expected %s' % (st, pid, raised, expect), i))
                except Exception as e:  # noqa
                    raised = type(e).__name__
                    res.failures.append(('C09:raises', 'step %r under identity %s raised %s: %s' % (st, pid, raised, e), i))
                if len(log.ops) > nlog:
                    oracle.touched(pid)
            after = mpsim.snapshot(sim.dir)
            oracle_a(res, i, pid, before, after, op == 'pid')
            try:
                collected = sim.collect()
            except Exception as e:  # noqa
                res.failures.append(('C09:raises', 'collect() raised %s: %s' % (type(e).__name__, e), i))
                continue
            canon = oracle_bc(res, i, oracle, collected)
            if len(log.ops) > nlog and op != 'pid' and raised is None:
                oracle_d(res, i, log.objs, cell[0], after)
        res.line = mpsim.hist_request(scen['pid0'], log.ops)
        res.nops = len(log.ops)
        res.gets = dict(log.gets)
        res.snaps = {k: mpsim.canon_snapshot(v) for k, v in res.snaps.items()}
        npid = sum(1 for st in scen['steps'] if st[0] == 'pid')
        if npid:
            res.key = hashlib.md5((res.line + mpsim.fams_fingerprint(canon)).encode('utf-8')).hexdigest()
        if want_sample:
            res.sample = {'pid0': scen['pid0'], 'steps': [[s if not isinstance(s, int) or j < 2 or st[0] == 'pid' else repr(lib.from_bits(s))
                                                          for j, s in enumerate(st)] for st in scen['steps']][:14],
                          'files_at_end': sorted(after)}
    return res


def model_divergences(ctx, results):
    lines = [r.line for r in results]
    replies = mpsim.driver_run(ctx, lines)
    out = [[] for _ in results]
    if replies is None:
        return out, 0
    traces = 0
    for ri, (r, rep) in enumerate(zip(results, replies)):
        steps = mpsim.parse_hist_reply(rep)
        traces += 1
        if steps is None or len(steps) != r.nops:
            out[ri].append('model reply %r for a log of %d value-level calls' % (rep[:80], r.nops))
            continue
        for k in sorted(r.snaps):
            d = mpsim.diff_disk(r.snaps[k], steps[k][1])
            if d:
                out[ri].append('after value-level call %d: %s' % (k, d))
                break
        for k, g in sorted(r.gets.items()):
            mg = steps[k][0]
            if mg is None or not feq(mg, g):
                out[ri].append('value-level call %d: get returned %r, model %r' % (k, g, mg))
                break
    return out, traces


# ================================================================================================== histories
def bases():
    """short hand-written base histories (no identity changes yet)"""
    out = []
    out.append(([mdef('counter', 'c')],
                [['create', 0], ['inc', 0, [], B(1.0)], ['inc', 0, [], B(2.0)], ['read', 0], ['inc', 0, [], B(0.5)]]))
    out.append(([mdef('counter', 'cl', ['l'])],
                [['create', 0], ['child', 0, ['x']], ['inc', 0, ['x'], B(1.0)], ['inc', 0, ['y'], B(2.0)],
                 ['inc', 0, ['x'], B(4.0)], ['read', 0]]))
    out.append(([mdef('counter', 'c1'), mdef('counter', 'c2'), mdef('gauge', 'g', (), 'all')],
                [['inc', 0, [], B(1.0)], ['create', 1], ['set', 2, [], B(5.0)], ['inc', 1, [], B(2.0)], ['inc', 0, [], B(4.0)],
                 ['inc', 2, [], B(1.5)]]))
    out.append(([mdef('gauge', 'g', (), 'all'), mdef('gauge', 'gl', ['l'], 'liveall')],
                [['create', 0], ['set', 0, [], B(1.0)], ['inc', 0, [], B(2.0)], ['child', 1, ['x']], ['set', 1, ['x'], B(-5.0)],
                 ['dec', 0, [], B(0.5)], ['read', 1]]))
    out.append(([mdef('histogram', 'h', (), '', 'small'), mdef('summary', 's', ['l'])],
                [['create', 0], ['obs', 0, [], B(1.0)], ['obs', 1, ['x'], B(2.5)], ['obs', 0, [], B(3.0)], ['obs', 1, ['x'], B(-0.5)],
                 ['read', 0]]))
    out.append(([mdef('gauge', 'gm', (), 'mostrecent'), mdef('gauge', 'gn', ['l'], 'livemin')],
                [['set', 0, [], B(1.0), B(10.0)], ['set', 1, ['x'], B(3.0), B(10.0)], ['set', 0, [], B(2.0), B(11.0)],
                 ['inc', 1, ['x'], B(-4.0), B(11.0)], ['set', 0, [], B(7.0), B(11.0)], ['inc', 0, [], B(1.0), B(12.0)]]))
    out.append(([mdef('counter', 'c'), mdef('counter', 'd', ['l', 'k'])],
                [['inc', 0, [], B(1.0)], ['reset', 0, []], ['inc', 0, [], B(2.0)], ['inc', 1, ['x', ''], B(1.0)], ['read', 0],
                 ['inc', 1, ['x', ''], B(0.25)]]))
    out.append(([mdef('histogram', 'hl', ['l'], '', 'big'), mdef('gauge', 'gs', (), 'sum'), mdef('counter', 'c')],
                [['child', 0, ['é']], ['obs', 0, ['é'], B(1000000.0)], ['set', 1, [], B(2.0)], ['inc', 2, [], B(1.0)],
                 ['obs', 0, ['é'], B(0.5)], ['inc', 1, [], B(1.0)]]))
    out.append(([mdef('summary', 's'), mdef('gauge', 'ga', ['l'], 'all'), mdef('gauge', 'gx', (), 'max')],
                [['obs', 0, [], B(1.0)], ['set', 1, ['a'], B(1.0)], ['set', 2, [], B(9.0)], ['set', 1, ['b'], B(2.0)],
                 ['obs', 0, [], B(2.0)], ['inc', 1, ['a'], B(0.5)]]))
    return out


def insertions(steps, pid0, a, b):
    n = len(steps)
    yield list(steps)
    for i in range(n + 1):
        yield steps[:i] + [['pid', a]] + steps[i:]
    for i in range(n + 1):
        for j in range(i, n + 1):
            for x in (pid0, b):
                yield steps[:i] + [['pid', a]] + steps[i:j] + [['pid', x]] + steps[j:]


def gen_history(rng, all_modes, long=False):
    pool = [c08.gen_metric(rng, i, all_modes) for i in range(rng.randint(1, 4))]
    if rng.random() < 0.5:      # several metrics of one type share the per-type file
        pool.append(dict(pool[0], name=pool[0]['name'] + '_bis'))
    for md in pool:
        if md['kind'] == 'histogram' and md['layout'] == 'default' and rng.random() < 0.7:
            md['layout'] = rng.choice(['small', 'dec', 'big', 'neg'])
    pids = rng.sample(c08.PID_POOL, rng.choice([2, 2, 3, 4]))
    cands = []
    for md in pool:
        k = len(md['labels'])
        cands.append([[rng.choice(c08.LABEL_VALUES) for _ in range(k)] for _ in range(rng.randint(1, 3))] if k else [[]])
    steps = []
    t = 5.0
    for _ in range(rng.randint(25, 50) if long else rng.randint(6, 22)):
        r = rng.random()
        mi = rng.randrange(len(pool))
        md = pool[mi]
        lvs = rng.choice(cands[mi])
        if r < 0.2:
            steps.append(['pid', rng.choice(pids)])
        elif r < 0.26:
            steps.append(['create', mi])
        elif r < 0.33:
            steps.append(['child', mi, lvs])
        elif r < 0.41:
            steps.append(['read', mi])
        elif md['kind'] == 'counter':
            if rng.random() < 0.04:
                steps.append(['reset', mi, lvs])
            else:
                steps.append(['inc', mi, lvs, B(c08.gen_value(rng, md, 'inc'))])
        elif md['kind'] in ('summary', 'histogram'):
            steps.append(['obs', mi, lvs, B(c08.gen_value(rng, md, 'obs'))])
        else:
            if rng.random() < 0.7:
                t += 1.0
            op = rng.choice(['set', 'set', 'set', 'inc', 'dec'])
            steps.append([op, mi, lvs, B(c08.gen_value(rng, md, op)), B(t)])
    return {'pool': pool, 'pid0': pids[0], 'steps': steps, 'variant': rng.randrange(3)}


# ================================================================================================== real fork
def gen_fork_history(rng, all_modes):
    h = gen_history(rng, all_modes, long=True)
    phases = [[]]
    for st in h['steps']:
        if st[0] == 'pid':
            if phases[-1]:
                phases.append([])
        elif st[0] != 'reset':
            phases[-1].append(st)
    if not phases[-1]:
        phases.pop()
    return {'pool': h['pool'], 'phases': phases[:7], 'variant': h['variant'], 'fork': True}


def run_steps_real(proc, pool, steps, clock):
    """run metric-level steps in the current OS process; -> 0 ok, 2 wrong exception behaviour"""
    code = 0
    for st in steps:
        md = pool[st[1]]
        lvs = c08.lvs_of(md, st[2]) if len(st) > 2 else ()
        if st[0] == 'create':
            proc.metric(st[1])
        elif st[0] == 'read':
            list(proc.metric(st[1]).collect())
        elif st[0] == 'child':
            proc.child(st[1], lvs)
        else:
            raised = proc.update(st[1], lvs, st[0], lib.from_bits(st[3]), lib.from_bits(st[4]) if len(st) > 4 else clock.now)
            expect = 'RuntimeError' if (c08.is_mostrecent(md) and st[0] in ('inc', 'dec')) else None
            if raised != expect:
                code = 2
    return code


def oracle_steps(oracle, pid, pool, steps):
    """fork mode has no value-level log: whether a step reaches a value object is decided at the metric level"""
    for st in steps:
        mi = st[1]
        md = pool[mi]
        lvs = c08.lvs_of(md, st[2]) if len(st) > 2 else ()
        if st[0] in ('create', 'read'):
            new = oracle.create_child(mi, ()) if not md['labels'] else False
            if new or (st[0] == 'read' and any(c[0] == mi for c in oracle.children)):
                oracle.touched(pid)
            continue
        new = oracle.create_child(mi, lvs)
        refused = c08.is_mostrecent(md) and st[0] in ('inc', 'dec')
        if st[0] == 'child' or refused:
            if new:
                oracle.touched(pid)
            continue
        oracle.touched(pid)
        oracle.update(pid, mi, lvs, st[0], lib.from_bits(st[3]))


def run_fork_history(scen):
    """phases alternate parent, forked child, parent, forked child, ...: every child is forked from the parent's current
    state, runs its phase on the inherited metric objects and exits; the parent is idle meanwhile"""
    import sys
    from prometheus_client import values
    res = Result()
    pool = scen['pool']
    with mpsim.Sim() as sim:
        cls = values.MultiProcessValue()
        sim.classes.append(cls)
        sim.use(cls)
        proc = c08.RealProc(cls, pool, sim.use, sim.clock, scen.get('variant', 0))
        me = os.getpid()
        oracle = Oracle(pool)
        after = mpsim.snapshot(sim.dir)
        for k, steps in enumerate(scen['phases']):
            before = after
            if k % 2 == 0:
                actor = me
                try:
                    if run_steps_real(proc, pool, steps, sim.clock):
                        res.failures.append(('C09:raises', 'parent phase %d: wrong exception behaviour' % k, k))
                except Exception as e:  # noqa
                    res.failures.append(('C09:raises', 'parent phase %d raised %s: %s' % (k, type(e).__name__, e), k))
                oracle_steps(oracle, actor, pool, steps)
            else:
                sys.stdout.flush()
                sys.stderr.flush()
                child = os.fork()
                if child == 0:
                    code = 3
                    try:
                        code = run_steps_real(proc, pool, steps, sim.clock)
                        mpsim.close_class_files(cls)
                    except BaseException:  # noqa
                        code = 3
                    finally:
                        os._exit(code)
                _, status = os.waitpid(child, 0)
                rc = os.waitstatus_to_exitcode(status)
                if rc != 0:
                    res.failures.append(('C09:raises', 'forked child (phase %d) exited with %d (2: wrong exception behaviour, 3: crashed)' % (k, rc), k))
                actor = child
                saved = list(oracle.children)
                oracle_steps(oracle, actor, pool, steps)
                # what the child created lives on in the files but not in the parent's memory
                oracle.children = saved
            after = mpsim.snapshot(sim.dir)
            oracle_a(res, k, actor, before, after, False)
            try:
                collected = sim.collect()
            except Exception as e:  # noqa
                res.failures.append(('C09:raises', 'collect() raised %s' % type(e).__name__, k))
                continue
            oracle_bc(res, k, oracle, collected)
        res.count('fork-histories')
        res.count('fork-children', len(scen['phases']) // 2)
    return res


# ================================================================================================== candidate finding
def probe_two_live_values(ctx):
    """two live value objects bound to the same (file, key) lose updates even without an identity change"""
    from prometheus_client import Counter
    sig = 'C09:two-live-values-one-key'
    found = []
    results = []
    for which in ('two-metrics', 'remove-then-labels'):
        res = Result()
        log = mpsim.ValueLog()
        with mpsim.Sim() as sim:
            cls, cell = sim.cell_class(5, log)
            log.after = lambda at: res.snaps.__setitem__(at, mpsim.snapshot(sim.dir))
            sim.use(cls)
            if which == 'two-metrics':
                c1 = Counter('c', 'h', registry=None)
                c2 = Counter('c', 'h', registry=None)
                c1.inc()
                c2.inc()
                c1.inc()
                witness = "c1=Counter('c','h',registry=None); c2=Counter('c','h',registry=None); c1.inc(); c2.inc(); c1.inc()"
            else:
                c = Counter('c', 'h', ['l'], registry=None)
                a = c.labels('x')
                a.inc()
                c.remove('x')
                b = c.labels('x')
                b.inc()
                a.inc()
                witness = "c=Counter('c','h',['l'],registry=None); a=c.labels('x'); a.inc(); c.remove('x'); b=c.labels('x'); b.inc(); a.inc()"
            got = [s[2] for f in sim.collect() for s in f[3] if s[0] == 'c_total']
            res.line = mpsim.hist_request(5, log.ops)
            res.nops = len(log.ops)
            res.snaps = {k: mpsim.canon_snapshot(v) for k, v in res.snaps.items()}
        results.append(res)
        if got != [3.0]:
            found.append({'sig': sig, 'what': 'three increments of one series are collected as %r (%s)' % (got, which), 'witness': witness})
    divs, traces = model_divergences(ctx, results)
    ctx.traces += traces
    for which, d in zip(('two-metrics', 'remove-then-labels'), divs):
        for what in d:
            ctx.diverge('probe two live values (%s): %s' % (which, what), {'probe': 'two-live-values'})
    known = lib.match_known(lib.load_known(), 'C09', sig)
    for f in found:
        if known is not None:
            ctx.fail(sig, f['what'], {'probe': 'two-live-values'})
        else:
            ctx.extra.setdefault('candidate_findings', []).append(f)
    ctx.count('probe:two-live-values')


# ================================================================================================== driver of the check
class Reporter:
    def __init__(self, ctx):
        self.ctx = ctx
        self.shrunk = set()
        self.shrunk_div = 0

    def failures(self, scen, res):
        seen = set()
        for sig, what, i in res.failures:
            if sig in seen:
                continue
            seen.add(sig)
            case = scen
            if not scen.get('fork'):
                case = dict(scen, steps=scen['steps'][:i + 1])
                if sig not in self.shrunk and len(self.shrunk) < 3:
                    self.shrunk.add(sig)

                    def still(steps, sig=sig):
                        return any(f[0] == sig for f in run_history(dict(scen, steps=steps)).failures)
                    case = dict(scen, steps=lib.shrink_list(case['steps'], still, max_rounds=40))
                    for f in run_history(case).failures:
                        if f[0] == sig:
                            what = f[1]
                            break
            self.ctx.fail(sig, what, case)

    def divergences(self, scen, divs):
        if not divs:
            return
        what = divs[0]
        case = scen
        if not scen.get('fork') and self.shrunk_div < 2:
            self.shrunk_div += 1
            ctx = self.ctx

            def still(steps):
                return bool(model_divergences(ctx, [run_history(dict(scen, steps=steps))])[0][0])
            case = dict(scen, steps=lib.shrink_list(scen['steps'], still, max_rounds=25))
            d = model_divergences(ctx, [run_history(case)])[0][0]
            if d:
                what = d[0]
        self.ctx.diverge(what, case)


def flush(ctx, rep, batch):
    todo = [(s, r) for s, r in batch if r.line is not None]
    divs, traces = model_divergences(ctx, [r for _, r in todo])
    ctx.traces += traces
    dmap = {id(r): d for (_, r), d in zip(todo, divs)}
    for scen, res in batch:
        ctx.case(res.key, res.sample)
        for k, n in res.counts.items():
            ctx.count(k, n)
        rep.failures(scen, res)
        rep.divergences(scen, dmap.get(id(res), []))
    del batch[:]


def run(ctx):
    all_modes = c08.modes()
    ctx.rule = ('history = metric pool + metric-level script under one value class with a scripted process identity; 9 hand-written '
                'base histories with an identity change inserted at every position (one change; two changes, the second '
                'returning to the first identity or going to a third), then seeded random histories (2-4 identities, 6-50 steps, '
                'all metric types, all gauge modes, metrics sharing a per-type file); one case = one history, observed after '
                'every step; non-trivial when it contains an identity change; distinct by value-level log + final collection')
    quick = ctx.tier == 'quick'
    budget = 42.0 if quick else 420.0
    n_random = 350 if quick else 5000
    n_fork = 2 if quick else 200
    if ctx.broken:
        n_random *= 3
        budget *= 1.5
    t0 = time.time()
    rep = Reporter(ctx)
    probe_two_live_values(ctx)
    batch = []
    samples = 3
    for pool, steps in bases():
        for k, ins in enumerate(insertions(steps, 10, 11, 12)):
            scen = {'pool': pool, 'pid0': 10, 'steps': ins, 'variant': 0}
            want = samples > 0 and k == 20
            samples -= 1 if want else 0
            batch.append((scen, run_history(scen, want)))
            ctx.count('histories:systematic')
            if len(batch) >= 60:
                flush(ctx, rep, batch)
    flush(ctx, rep, batch)
    for k in range(n_fork):
        scen = gen_fork_history(ctx.rng, all_modes)
        batch.append((scen, run_fork_history(scen)))
    flush(ctx, rep, batch)
    for k in range(n_random):
        if time.time() - t0 > budget:
            ctx.count('histories:skipped-for-time', n_random - k)
            break
        scen = gen_history(ctx.rng, all_modes, long=(k % 8 == 7))
        batch.append((scen, run_history(scen, samples > 0)))
        samples -= 1
        ctx.count('histories:random')
        if len(batch) >= 40:
            flush(ctx, rep, batch)
    flush(ctx, rep, batch)


def replay(ctx, case):
    scen = case.get('case')
    if scen is None and case.get('divergences'):
        scen = case['divergences'][0].get('case')
    if not scen:
        print('REPLAY: the file records no failing input (kind=%s)' % case.get('kind'))
        return 0
    if scen.get('probe'):
        probe_two_live_values(ctx)
    elif scen.get('fork'):
        res = run_fork_history(scen)
        for sig, what, i in res.failures:
            ctx.fail(sig, 'phase %d: %s' % (i, what), scen)
    else:
        res = run_history(scen)
        for sig, what, i in res.failures:
            ctx.fail(sig, 'step %d: %s' % (i, what), scen)
        for what in model_divergences(ctx, [res])[0][0]:
            ctx.diverge(what, scen)
    for f in ctx.failures:
        print('REPLAY-FAIL', f['sig'], f['what'])
    for f in ctx.divergences:
        print('REPLAY-DIVERGE', f['what'])
    return 1 if ctx.failures or ctx.divergences else 0
