"""C07, built-in collectors part — GCCollector, PlatformCollector, ProcessCollector (registered in the default REGISTRY,
auto_describe=True, at import).

Cases
  gc        GCCollector.collect() with gc.get_stats patched to 0-5 generations of int counters
  platform  PlatformCollector(registry=None, platform=<fake object>): system Linux / Java, arbitrary version strings
  process   ProcessCollector(namespace, pid=lambda: 42, proc=<fake proc dir under tempfile.mkdtemp()>, registry=None): the
            directory holds stat (with / without a btime line / missing), 42/stat (well-formed / missing / a directory /
            too few fields / a non-numeric field), 42/limits (with / without a `Max open files` line / missing / malformed
            value), 42/fd (directory with k entries / missing / a plain file); namespace '', 'myns', 'a_b', 'bad-ns'
            (invalid under legacy validation); legacy validation on / off
  default   the three collectors the library registered in prometheus_client.REGISTRY at import (oracle only)

Oracles on the real code, written without the Lean model:
  * every sample name emitted is among the names the registry recorded for the collector at registration under
    auto_describe (CollectorRegistry._get_names)                                     C07:builtin-sample-name-unclaimed
  * restricted_registry(names).collect() is the per-sample-name filter of collect() (name, type, documentation, unit and
    kept samples unchanged, empty families dropped) for single names, all names, family names, unknown names and random
    subsets                                                                          C07:builtin-restricted-not-filter
  * python_info: one family of that name, one sample, value 1, whose labels are exactly version / implementation / major /
    minor / patchlevel (+ the four jvm_* labels when system() == "Java") with the fake platform's answers
                                                                                     C07:builtin-platform-labels
  * gc: every sample is labelled generation=str(i), i = 0..n-1 in order, per family  C07:builtin-gc-generation-labels
  * process: every family name starts with '<namespace>_process_' ('process_' without namespace); nothing is yielded when
    <proc>/stat gave no boot time                                                    C07:builtin-process-namespace-missing
                                                                                     C07:builtin-process-unavailable-not-empty
T2: the same environment goes to the driver (module "bi"): the raised class, or the family list (name, type, help, unit,
label names, sample names, label pairs in order; values for gc / platform) is compared with Model/Builtins.lean.
"""
import os
import shutil
import tempfile

import lib

GC_KEYS = ['collected', 'uncollectable', 'collections']
INFO_KEYS = ['version', 'implementation', 'major', 'minor', 'patchlevel']
JAVA_KEYS = ['jvm_version', 'jvm_release', 'jvm_vendor', 'jvm_name']
STRS = ['3.12.1', 'CPython', '3', '12', '1', '', 'PyPy', 'Jython', '2.7.3', 'väl', 'a b', 'x"y', '17.0.2', 'OpenJDK 64-Bit', 'Oracle']
NAMESPACES = ['', '', 'myns', 'a_b', 'bad-ns', 'x']
MAX_REPORTS = 3


def hexs(s):
    return s.encode('utf-8', 'surrogatepass').hex()


def sfield(s):
    return 's' + hexs(s)


# ------------------------------------------------------------------------------------------------ observation
def enc_value(v, with_values):
    if not with_values:
        return '*'
    if isinstance(v, bool) or not isinstance(v, int):
        return 'o?%s:%r' % (type(v).__name__, v)
    return 'oi%d' % v


def enc_sample(s, with_values):
    return '/'.join([hexs(s.name), 'L' + '&'.join('%s=%s' % (hexs(k), hexs(str(x))) for k, x in s.labels.items()),
                     enc_value(s.value, with_values), 'N' if s.timestamp is None else 'v?', 'N' if s.exemplar is None else 'v?'])


def enc_fam(m, with_values):
    return '!'.join([hexs(m.name), m.type, hexs(m.documentation), hexs(m.unit),
                     'L' + '+'.join(hexs(x) for x in getattr(m, '_labelnames', ())),
                     '+'.join(enc_sample(s, with_values) for s in m.samples) or '_', '.'])


def enc_fams(fams, with_values):
    return 'ok ok ' + ('|'.join(enc_fam(m, with_values) for m in fams) or '-')


def strip_values(rep):
    """driver reply with every sample value replaced by * (process: values are not compared)"""
    if not rep.startswith('ok ok ') or rep == 'ok ok -':
        return rep
    out = []
    for fam in rep[6:].split('|'):
        f = fam.split('!')
        if len(f) == 7 and f[5] != '_':
            ss = []
            for e in f[5].split('+'):
                x = e.split('/')
                if len(x) == 5:
                    x[2] = '*'
                ss.append('/'.join(x))
            f[5] = '+'.join(ss)
        out.append('!'.join(f))
    return 'ok ok ' + '|'.join(out)


def describe(rep):
    if not rep.startswith('ok ok '):
        return rep[:200]
    if rep == 'ok ok -':
        return '[]'
    out = []
    for fam in rep[6:].split('|'):
        f = fam.split('!')
        if len(f) != 7:
            return rep[:300]
        def smp(e):
            x = e.split('/')
            if len(x) != 5:
                return e
            labels = [tuple(bytes.fromhex(h).decode('utf-8', 'replace') for h in kv.split('=')) for kv in x[1][1:].split('&') if kv]
            return (bytes.fromhex(x[0]).decode('utf-8', 'replace'), labels, x[2])
        out.append({'name': bytes.fromhex(f[0]).decode('utf-8', 'replace'), 'type': f[1],
                    'labelnames': [bytes.fromhex(h).decode('utf-8', 'replace') for h in f[4][1:].split('+') if h],
                    'samples': [] if f[5] == '_' else [smp(e) for e in f[5].split('+')]})
    return repr(out)


class Legacy:
    def __init__(self, on):
        self.on = on

    def __enter__(self):
        from prometheus_client import validation
        self.was = validation.get_legacy_validation()
        (validation.enable_legacy_validation if self.on else validation.disable_legacy_validation)()

    def __exit__(self, *a):
        from prometheus_client import validation
        (validation.enable_legacy_validation if self.was else validation.disable_legacy_validation)()


# ------------------------------------------------------------------------------------------------ registry oracles
def smp_key(s, values):
    return tuple(s) if values else (s.name, tuple(s.labels.items()))


def fam_key(m, values=True):
    return (m.name, m.type, m.documentation, m.unit, [smp_key(s, values) for s in m.samples])


def registry_oracles(rng, coll, who, fails, values=True):
    """(ii): claimed names cover the emitted ones; the restricted registry is the filter of the full collection"""
    from prometheus_client.registry import CollectorRegistry
    reg = CollectorRegistry(auto_describe=True)
    try:
        reg.register(coll)
    except Exception:  # noqa  collect() raises in this environment: nothing is registered, nothing to restrict
        return False
    claimed = list(reg._collector_to_names[coll])
    full = list(reg.collect())
    emitted = []
    for m in full:
        for s in m.samples:
            if s.name not in emitted:
                emitted.append(s.name)
    bad = [n for n in emitted if n not in claimed]
    if bad:
        fails.append(('C07:builtin-sample-name-unclaimed', '%s: sample name(s) %r are not among the names the registry recorded for '
                      'the collector %r' % (who, bad, claimed)))
    pool = emitted + [m.name for m in full] + claimed + ['nope', 'process_', 'python_info_total']
    sets = [[n] for n in emitted] + [list(emitted), [m.name for m in full], ['nope'], []]
    for _ in range(6):
        sets.append(rng.sample(pool, rng.randrange(1, min(len(pool), 5) + 1)))
    for names in sets:
        got = sorted((fam_key(m, values) for m in reg.restricted_registry(names).collect()), key=lambda k: k[0])
        want = []
        for m in full:
            kept = [smp_key(s, values) for s in m.samples if s.name in names]
            if kept:
                want.append((m.name, m.type, m.documentation, m.unit, kept))
        want.sort(key=lambda k: k[0])
        if got != want:
            fails.append(('C07:builtin-restricted-not-filter', '%s: restricted_registry(%r).collect() yields %r, the filter of '
                          'collect() is %r' % (who, names, [(g[0], [s[0] for s in g[4]]) for g in got],
                                               [(w[0], [s[0] for s in w[4]]) for w in want])))
            break
    return True


# ------------------------------------------------------------------------------------------------ gc
def gen_gc(rng):
    n = rng.choice([0, 1, 2, 3, 3, 3, 4, 5, 12])
    return {'builtin': 'gc', 'legacy': rng.random() < 0.4,
            'stats': [[rng.choice([0, 1, 7, 1000, 2 ** 40, rng.randrange(10 ** 6)]) for _ in GC_KEYS] for _ in range(n)]}


def run_gc(rng, c, fails):
    import gc as _gc
    from prometheus_client import gc_collector
    stats = [dict(zip(GC_KEYS, st)) for st in c['stats']]
    orig = _gc.get_stats
    _gc.get_stats = lambda: [dict(d) for d in stats]
    try:
        with Legacy(c['legacy']):
            from prometheus_client.registry import CollectorRegistry
            coll = gc_collector.GCCollector(registry=CollectorRegistry())
            try:
                fams = list(coll.collect())
            except Exception as e:  # noqa
                return 'ok ' + type(e).__name__
            who = 'GCCollector with %d generation(s)' % len(stats)
            for m in fams:
                labs = [dict(s.labels) for s in m.samples if s.name.endswith('_total')]
                if labs != [{'generation': str(i)} for i in range(len(stats))]:
                    fails.append(('C07:builtin-gc-generation-labels', '%s: family %s has samples labelled %r, expected generation="0".."%d"'
                                  % (who, m.name, labs, len(stats) - 1)))
            registry_oracles(rng, coll, who, fails)
            return enc_fams(fams, True)
    finally:
        _gc.get_stats = orig


def req_gc(c):
    st = ';'.join('+'.join('%s=i%d' % (sfield(k), v) for k, v in zip(GC_KEYS, s)) for s in c['stats']) or '.'
    return 'bi gc %d %s' % (1 if c['legacy'] else 0, st)


# ------------------------------------------------------------------------------------------------ platform
class FakePlatform:
    def __init__(self, d):
        self.d = d

    def system(self):
        return self.d['system']

    def python_version_tuple(self):
        return (self.d['major'], self.d['minor'], self.d['patchlevel'])

    def python_version(self):
        return self.d['version']

    def python_implementation(self):
        return self.d['implementation']

    def java_ver(self):
        return (self.d['jvm_version'], '', (self.d['jvm_name'], self.d['jvm_release'], self.d['jvm_vendor']), ('', '', ''))


def gen_platform(rng):
    d = {k: rng.choice(STRS) for k in INFO_KEYS + JAVA_KEYS}
    d['system'] = rng.choice(['Linux', 'Java', 'Java', 'Darwin', 'java', ''])
    return {'builtin': 'platform', 'legacy': rng.random() < 0.4, 'answers': d}


def run_platform(rng, c, fails):
    from prometheus_client import platform_collector
    d = c['answers']
    with Legacy(c['legacy']):
        try:
            coll = platform_collector.PlatformCollector(registry=None, platform=FakePlatform(d))
            fams = list(coll.collect())
        except Exception as e:  # noqa
            return 'ok ' + type(e).__name__
        who = 'PlatformCollector(system=%r)' % d['system']
        want = {k: d[k] for k in INFO_KEYS}
        if d['system'] == 'Java':
            want.update({k: d[k] for k in JAVA_KEYS})
        ok = len(fams) == 1 and fams[0].name == 'python_info' and len(fams[0].samples) == 1
        if ok:
            s = fams[0].samples[0]
            ok = s.name == 'python_info' and dict(s.labels) == want and list(s.labels) == list(want) and s.value == 1
        if not ok:
            fails.append(('C07:builtin-platform-labels', '%s: expected one python_info sample with labels %r and value 1, got %r'
                          % (who, want, [(m.name, [(s.name, dict(s.labels), s.value) for s in m.samples]) for m in fams])))
        registry_oracles(rng, coll, who, fails)
        return enc_fams(fams, True)


def req_platform(c):
    d = c['answers']
    info = '+'.join('%s=%s' % (sfield(k), sfield(d[k])) for k in INFO_KEYS)
    java = '+'.join('%s=%s' % (sfield(k), sfield(d[k])) for k in JAVA_KEYS) if d['system'] == 'Java' else 'N'
    return 'bi platform %d %s %s' % (1 if c['legacy'] else 0, info, java)


# ------------------------------------------------------------------------------------------------ process
STAT_KINDS = ['ok', 'ok', 'ok', 'ok', 'missing', 'dir', 'short', 'nonnum']
LIMITS_KINDS = ['ok', 'ok', 'ok', 'missing', 'noline', 'shortline', 'nonnum', 'dir']
FD_KINDS = ['ok', 'ok', 'ok', 'missing', 'file']
BTIME_KINDS = ['ok', 'ok', 'ok', 'ok', 'missing', 'noline', 'zero']
READING = {'ok': 'ok', 'missing': 'EFileNotFoundError', 'dir': 'EOSError', 'file': 'EOSError', 'short': 'EIndexError',
           'nonnum': 'EValueError', 'shortline': 'EIndexError'}


def gen_process(rng):
    return {'builtin': 'process', 'legacy': rng.random() < 0.4, 'ns': rng.choice(NAMESPACES), 'btime': rng.choice(BTIME_KINDS),
            'stat': rng.choice(STAT_KINDS), 'limits': rng.choice(LIMITS_KINDS), 'fd': rng.choice(FD_KINDS),
            'nfds': rng.randrange(0, 5), 'comm': rng.choice(['python', 'my (odd) name', 'a b'])}


def make_proc(root, c):
    os.makedirs(os.path.join(root, '42'))
    if c['btime'] != 'missing':
        with open(os.path.join(root, 'stat'), 'w') as f:
            f.write('cpu  1 2 3 4\n')
            if c['btime'] == 'ok':
                f.write('btime 1700000000\n')
            elif c['btime'] == 'zero':
                f.write('btime 0\n')
            f.write('processes 5\n')
    p = os.path.join(root, '42', 'stat')
    fields = ['S'] + [str(100 + i) for i in range(1, 45)]
    if c['stat'] == 'dir':
        os.makedirs(p)
    elif c['stat'] != 'missing':
        if c['stat'] == 'short':
            fields = fields[:15]
        if c['stat'] == 'nonnum':
            fields[20] = 'x'
        with open(p, 'w') as f:
            f.write('42 (%s) %s\n' % (c['comm'], ' '.join(fields)))
    p = os.path.join(root, '42', 'limits')
    if c['limits'] == 'dir':
        os.makedirs(p)
    elif c['limits'] != 'missing':
        with open(p, 'w') as f:
            f.write('Limit                     Soft Limit           Hard Limit           Units     \n')
            f.write('Max cpu time              unlimited            unlimited            seconds   \n')
            if c['limits'] == 'ok':
                f.write('Max open files            1024                 4096                 files     \n')
            elif c['limits'] == 'shortline':
                f.write('Max open files\n')
            elif c['limits'] == 'nonnum':
                f.write('Max open files            unlimited            unlimited            files     \n'.replace('unlimited', 'many'))
            f.write('Max locked memory         65536                65536                bytes     \n')
    p = os.path.join(root, '42', 'fd')
    if c['fd'] == 'file':
        open(p, 'w').close()
    elif c['fd'] == 'ok':
        os.makedirs(p)
        for i in range(c['nfds']):
            open(os.path.join(p, str(i)), 'w').close()


def run_process(rng, c, fails):
    from prometheus_client import process_collector
    root = tempfile.mkdtemp(prefix='pv-c07b-')
    try:
        make_proc(root, c)
        with Legacy(c['legacy']):
            coll = process_collector.ProcessCollector(namespace=c['ns'], pid=lambda: 42, proc=root, registry=None)
            try:
                fams = list(coll.collect())
            except Exception as e:  # noqa
                return 'ok ' + type(e).__name__
            who = 'ProcessCollector(namespace=%r) on a proc directory with stat:%s 42/stat:%s 42/limits:%s 42/fd:%s' % (
                c['ns'], c['btime'], c['stat'], c['limits'], c['fd'])
            pre = c['ns'] + '_process_' if c['ns'] else 'process_'
            bad = [m.name for m in fams if not m.name.startswith(pre)] + \
                  [s.name for m in fams for s in m.samples if not s.name.startswith(pre)]
            if bad:
                fails.append(('C07:builtin-process-namespace-missing', '%s: %r do(es) not start with %r' % (who, bad, pre)))
            if c['btime'] != 'ok' and fams:
                fails.append(('C07:builtin-process-unavailable-not-empty', '%s: no boot time was read, yet collect() yields %r'
                              % (who, [m.name for m in fams])))
            registry_oracles(rng, coll, who, fails)
            return enc_fams(fams, False)
    finally:
        shutil.rmtree(root, ignore_errors=True)


def req_process(c):
    lim = {'ok': 'some', 'noline': 'none'}.get(c['limits']) or READING[c['limits']]
    return 'bi process %d %s %d %s %s %s' % (1 if c['legacy'] else 0, sfield(c['ns']), 1 if c['btime'] == 'ok' else 0,
                                            READING[c['stat']], lim, READING[c['fd']])


# ------------------------------------------------------------------------------------------------ default registry
def run_default(rng, fails):
    """the collectors the library itself registered at import: real gc, real platform, real /proc"""
    import prometheus_client
    from prometheus_client import gc_collector, platform_collector, process_collector
    reg = prometheus_client.REGISTRY
    for name, coll in (('GC_COLLECTOR', gc_collector.GC_COLLECTOR), ('PLATFORM_COLLECTOR', platform_collector.PLATFORM_COLLECTOR),
                       ('PROCESS_COLLECTOR', process_collector.PROCESS_COLLECTOR)):
        claimed = reg._collector_to_names.get(coll)
        if claimed is None:
            continue      # unregistered by an earlier test of this process, or gc.get_stats unavailable
        emitted = sorted({s.name for m in coll.collect() for s in m.samples})
        bad = [n for n in emitted if n not in claimed]
        if bad:
            fails.append(('C07:builtin-sample-name-unclaimed', 'default REGISTRY, %s: sample name(s) %r are not among the names '
                          'recorded at import %r' % (name, bad, list(claimed))))
        registry_oracles(rng, coll, 'a fresh auto-describing registry holding ' + name, fails, values=False)   # live readings move


# ------------------------------------------------------------------------------------------------ run / replay
RUNNERS = {'gc': (run_gc, req_gc), 'platform': (run_platform, req_platform), 'process': (run_process, req_process)}

CORPUS = [
    {'builtin': 'gc', 'legacy': False, 'stats': [[10, 0, 3], [7, 1, 2], [0, 0, 0]]},
    {'builtin': 'gc', 'legacy': True, 'stats': []},
    {'builtin': 'platform', 'legacy': False, 'answers': {'system': 'Linux', 'version': '3.12.1', 'implementation': 'CPython', 'major': '3',
                                                         'minor': '12', 'patchlevel': '1', 'jvm_version': '', 'jvm_release': '',
                                                         'jvm_vendor': '', 'jvm_name': ''}},
    {'builtin': 'platform', 'legacy': True, 'answers': {'system': 'Java', 'version': '2.7.3', 'implementation': 'Jython', 'major': '2',
                                                        'minor': '7', 'patchlevel': '3', 'jvm_version': '17.0.2', 'jvm_release': '17',
                                                        'jvm_vendor': 'Oracle', 'jvm_name': 'OpenJDK 64-Bit'}},
    {'builtin': 'process', 'legacy': False, 'ns': '', 'btime': 'ok', 'stat': 'ok', 'limits': 'ok', 'fd': 'ok', 'nfds': 3, 'comm': 'python'},
    {'builtin': 'process', 'legacy': True, 'ns': 'myns', 'btime': 'ok', 'stat': 'ok', 'limits': 'missing', 'fd': 'ok', 'nfds': 1, 'comm': 'my (odd) name'},
    {'builtin': 'process', 'legacy': False, 'ns': 'myns', 'btime': 'ok', 'stat': 'missing', 'limits': 'ok', 'fd': 'ok', 'nfds': 0, 'comm': 'python'},
    {'builtin': 'process', 'legacy': False, 'ns': '', 'btime': 'ok', 'stat': 'ok', 'limits': 'noline', 'fd': 'ok', 'nfds': 2, 'comm': 'python'},
    {'builtin': 'process', 'legacy': False, 'ns': '', 'btime': 'ok', 'stat': 'ok', 'limits': 'ok', 'fd': 'missing', 'nfds': 0, 'comm': 'python'},
    {'builtin': 'process', 'legacy': False, 'ns': 'x', 'btime': 'missing', 'stat': 'ok', 'limits': 'ok', 'fd': 'ok', 'nfds': 2, 'comm': 'python'},
    {'builtin': 'process', 'legacy': False, 'ns': '', 'btime': 'ok', 'stat': 'nonnum', 'limits': 'ok', 'fd': 'ok', 'nfds': 2, 'comm': 'python'},
    {'builtin': 'process', 'legacy': True, 'ns': 'bad-ns', 'btime': 'ok', 'stat': 'ok', 'limits': 'ok', 'fd': 'ok', 'nfds': 2, 'comm': 'python'},
]


class BuiltinRunner:
    def __init__(self, ctx):
        self.ctx = ctx
        self.pending = []
        self.reported = {}

    def report(self, fails, case):
        ctx = self.ctx
        for sig, what in fails:
            n = self.reported.get(sig, 0)
            self.reported[sig] = n + 1
            ctx.count('oracle-' + sig)
            if n < MAX_REPORTS:
                ctx.fail(sig, what, case)

    def one(self, c):
        ctx = self.ctx
        run, req = RUNNERS[c['builtin']]
        fails = []
        obs = run(ctx.rng, c, fails)
        nfam = 0 if not obs.startswith('ok ok ') or obs == 'ok ok -' else obs.count('|') + 1
        ctx.case(nontrivial_key=hash(('builtin', c['builtin'], obs)) if nfam >= 1 else None,
                 sample={'builtin-collector': c['builtin'], 'case': {k: v for k, v in c.items() if k not in ('builtin', 'answers')},
                         'families': nfam} if nfam >= 3 else None)
        ctx.count('builtin-%s-%s' % (c['builtin'], 'families-%d' % nfam if obs.startswith('ok ok') else obs.split(' ')[1]))
        self.report(fails, c)
        self.pending.append((c, req(c), obs))

    def flush(self):
        ctx = self.ctx
        if not self.pending:
            return
        replies = ctx.driver.run([p[1] for p in self.pending])
        if replies is not None:
            for (c, _, obs), rep in zip(self.pending, replies):
                ctx.traces += 1
                if c['builtin'] == 'process':
                    rep = strip_values(rep)
                if rep != obs:
                    ctx.diverge('built-in collector %s: model %s, implementation %s' % (c['builtin'], describe(rep), describe(obs)), c)
        self.pending = []


def run(ctx):
    ctx.rule += ('; BUILT-IN COLLECTORS: GCCollector (gc.get_stats patched, 0-12 generations), PlatformCollector (fake platform '
                 'object, Java or not), ProcessCollector (fake proc directory: stat / limits / fd present, missing, corrupt; '
                 'namespace on/off; legacy validation on/off), and the three collectors of the default REGISTRY; an evaluation is '
                 'one collect() in one environment, non-trivial when it yields at least one family')
    rn = BuiltinRunner(ctx)
    fails = []
    run_default(ctx.rng, fails)
    ctx.case(nontrivial_key=hash('builtin-default'))
    rn.report(fails, {'builtin': 'default'})
    for c in CORPUS:
        rn.one(c)
    # ProcessCollector: the whole product of file kinds is small — enumerate it once, then sample the rest
    for st in ['ok', 'missing', 'dir', 'short', 'nonnum']:
        for li in ['ok', 'missing', 'noline', 'shortline', 'nonnum', 'dir']:
            for fd in ['ok', 'missing', 'file']:
                for ns in ['', 'myns']:
                    rn.one({'builtin': 'process', 'legacy': False, 'ns': ns, 'btime': 'ok', 'stat': st, 'limits': li, 'fd': fd,
                            'nfds': 2, 'comm': 'python'})
    n = 150 if ctx.tier == 'quick' else 3000
    if ctx.broken:
        n *= 3
    for _ in range(n):
        rn.one(gen_gc(ctx.rng))
        rn.one(gen_platform(ctx.rng))
        rn.one(gen_process(ctx.rng))
    rn.flush()


def replay(ctx, case):
    c = case.get('case', case)
    rn = BuiltinRunner(ctx)
    print('built-in collector case:', c)
    if c.get('builtin') == 'default':
        fails = []
        run_default(ctx.rng, fails)
        rn.report(fails, c)
    else:
        rn.one(c)
        print('implementation:', describe(rn.pending[0][2]) if rn.pending else None)
        rn.flush()
    for f in ctx.failures:
        print('REPLAY-FAIL', f['sig'], f['what'])
    for d in ctx.divergences:
        print('REPLAY-DIVERGE', d['what'])
    return 1 if ctx.failures or ctx.divergences else 0
