"""C13 — float rendering is exact, injective and canonical.

T2: utils.floatToGoString(d) (real code) vs Model.Utils.floatToGoString(repr(d)) (driver), plus the spec spelling.
Oracle on the real code (independent of the model): float(text) is d bit-for-bit (NaN->NaN, +Inf/-Inf spelled so);
for d >= 1e6 the text matches Go's canonical form, computed independently from the exact decimal expansion of
repr(d) (Python Decimal), i.e. shortest mantissa, explicit sign, two-digit-minimum exponent.
"""
import math
import re
import struct
from decimal import Decimal

import lib

REPR_RE = re.compile(r'^-?(\d+\.\d+|\d(\.\d+)?e[+-]\d\d+)$')
CANON_RE = re.compile(r'^[1-9](\.\d*[1-9])?e\+(\d\d|[1-9]\d\d+)$')


def go_expected(d):
    """Go's strconv 'g' shortest formatting for d >= 1e21 uses exponent too; we only pin what the property pins:
    positive values from one million up whose repr is plain (d < 1e16)."""
    r = repr(d)
    dec = Decimal(r)
    sign, digits, exp = dec.as_tuple()
    ds = ''.join(map(str, digits)).rstrip('0') or '0'
    e10 = len(digits) + exp - 1
    mant = ds[0] + ('.' + ds[1:] if len(ds) > 1 else '')
    return '%se+%02d' % (mant, e10)


def gen_doubles(ctx, n_random):
    rng = ctx.rng
    out = []
    # every power of ten and neighbours by 1, 2 ulps
    for e in range(-323, 309):
        x = float('1e%d' % e)
        out.append(x)
        for k in (1, 2):
            y = x
            z = x
            for _ in range(k):
                y = math.nextafter(y, math.inf)
                z = math.nextafter(z, -math.inf)
            out += [y, z]
    # digit-count / trailing-zero patterns around the switch points
    for nd in range(1, 18):
        for tz in range(0, nd):
            for lead in ('1', '9', '5'):
                s = lead + ''.join(rng.choice('0123456789') for _ in range(nd - 1 - tz)) + '0' * tz
                for frac in ('', '.5', '.25', '.125'):
                    try:
                        out.append(float(s + frac))
                    except ValueError:
                        pass
    for base in (1e6, 1e7, 1e10, 1e15, 1e16, 1e17, 1e21, 1e22):
        for k in range(-3, 4):
            y = base
            for _ in range(abs(k)):
                y = math.nextafter(y, math.inf if k > 0 else -math.inf)
            out.append(y)
        out += [base - 1, base + 1, base - 0.5, base + 0.5, base * 1.5, base * 9.999999]
    # integers up to 2^64
    for p in range(0, 65):
        for dlt in (-1, 0, 1):
            out.append(float(2 ** p + dlt))
    for _ in range(300):
        out.append(float(rng.randrange(0, 2 ** 64)))
        out.append(float(rng.randrange(10 ** 6, 10 ** 16)))
        out.append(rng.randrange(10 ** 6, 10 ** 16) + rng.random())
    # subnormals, specials
    out += [5e-324, 2.225e-308, 2.2250738585072014e-308, 0.0, -0.0, math.inf, -math.inf, math.nan,
            1.7976931348623157e308, 0.1, 1 / 3, 123456.7, 1234567.8, 999999.9999999999, 1000000.0000000001]
    # uniformly random bit patterns
    for _ in range(n_random):
        out.append(struct.unpack('<d', struct.pack('<Q', rng.getrandbits(64)))[0])
    neg = [-x for x in out[::7]]
    return out + neg


def oracle(d, text):
    """property oracle on the real code's output; returns None or a description"""
    if d != d:
        return None if text == 'NaN' else 'NaN rendered as %r' % text
    if d == math.inf:
        return None if text == '+Inf' else '+Inf rendered as %r' % text
    if d == -math.inf:
        return None if text == '-Inf' else '-Inf rendered as %r' % text
    try:
        back = float(text)
    except ValueError:
        return 'rendering %r does not parse as a float' % text
    if lib.bits_of(back) != lib.bits_of(d):
        return 'rendering %r parses back to %r, not %r' % (text, back, d)
    if d >= 1e6:
        r = repr(d)
        if 'e' not in r:
            exp = go_expected(d)
            if text != exp:
                return 'd=%r rendered %r, canonical Go spelling is %r' % (d, text, exp)
        if not CANON_RE.match(text):
            return 'd=%r rendered %r is not in canonical mantissa-exponent form' % (d, text)
    return None


def classify(d):
    if d != d or d in (math.inf, -math.inf):
        return 'special'
    r = repr(d)
    if 'e' in r:
        return 'exp-form'
    if d <= 0:
        return 'nonpositive'
    dot = r.find('.')
    return 'plain-%02d-int-digits' % dot


def run_cases(ctx, doubles):
    from prometheus_client import utils
    reqs, reals = [], []
    for d in doubles:
        r = repr(d)
        # re-validate the trusted facts on every sample
        if d == d and d not in (math.inf, -math.inf):
            if not REPR_RE.match(r) or lib.bits_of(float(r)) != lib.bits_of(d):
                raise lib.Infra('trusted repr fact violated for %r' % d)
            if ('e' in r) != (not (1e-4 <= abs(d) < 1e16) and d != 0):
                raise lib.Infra('trusted repr exponent-range fact violated for %r' % d)
        try:
            real = utils.floatToGoString(d)
        except Exception as e:
            ctx.fail('C13:raises', 'floatToGoString(%r) raised %s' % (d, type(e).__name__), {'bits': lib.bits_of(d)})
            real = None
        reals.append(real)
        reqs.append('c13 go ' + lib.hx(r))
    replies = ctx.driver.run(reqs)
    seen_text = {}
    for idx, d in enumerate(doubles):
        real = reals[idx]
        cls = classify(d)
        ctx.count(cls)
        ctx.case(nontrivial_key=lib.bits_of(d) if cls not in ('special',) else None,
                 sample={'d': repr(d), 'rendered': real})
        if real is None:
            continue
        why = oracle(d, real)
        if why:
            ctx.fail('C13:' + ('noncanonical' if 'canonical' in why else 'inexact'), why,
                     {'bits': lib.bits_of(d), 'repr': repr(d), 'rendered': real})
        # injectivity over the sample
        b = lib.bits_of(d)
        if real in seen_text and seen_text[real] != b and not (d == 0 and False):
            ctx.fail('C13:collision', 'doubles %r and %r share rendering %r' % (lib.from_bits(seen_text[real]), d, real),
                     {'bits': b, 'other': seen_text[real], 'rendered': real})
        seen_text[real] = b
        if replies is not None:
            rep = replies[idx].split(' ')
            if rep[0] != 'ok':
                ctx.diverge('driver error %r' % replies[idx], {'bits': b})
                continue
            ctx.traces += 1
            model = lib.unhx(rep[1])
            if model != real:
                ctx.diverge('model renders %r, implementation %r for d=%r' % (model, real, d), {'bits': b, 'repr': repr(d)})
            if rep[2] != '-' and lib.unhx(rep[2]) != model:
                ctx.diverge('model %r differs from spec spelling %r (theorem go_big) for d=%r' % (model, lib.unhx(rep[2]), d), {'bits': b})
            if rep[3] != '-' and rep[4] != '-':
                n1, m1, e1 = rep[3].split(','); n2, m2, e2 = rep[4].split(',')
                if n1 != n2 or Decimal(int(m1)).scaleb(int(e1)) != Decimal(int(m2)).scaleb(int(e2)):
                    ctx.diverge('denotations differ for d=%r: %s vs %s' % (d, rep[3], rep[4]), {'bits': b})


def run_ints(ctx):
    """floatToGoString is given Python ints too (custom collectors pass them as sample values): the rendering must be the
    rendering of float(n) — in particular two ints that are the same double must not render differently"""
    from prometheus_client import utils
    rng = ctx.rng
    ints = [0, 1, -1, 10 ** 6, 10 ** 6 + 1, 2 ** 53, 2 ** 53 + 1, 2 ** 53 - 1, 10 ** 16, 10 ** 16 + 1, 2 ** 64 - 1, 2 ** 64, 10 ** 22, 10 ** 22 + 7,
            10 ** 23, -(2 ** 60) + 3, 123456789012345678, 999999, 1000000, 9007199254740993, True, False]
    ints += [rng.randrange(10 ** 6, 10 ** 20) for _ in range(200)] + [rng.randrange(0, 2 ** 70) for _ in range(100)]
    for n_ in ints:
        ctx.case(nontrivial_key=('int', int(n_)))
        ctx.count('int-input')
        try:
            got = utils.floatToGoString(n_)
            want = utils.floatToGoString(float(n_))
        except OverflowError:
            continue
        except Exception as e:
            ctx.fail('C13:int-raises', 'floatToGoString(%r) raised %s' % (n_, type(e).__name__), {'int': int(n_)})
            continue
        why = oracle(float(n_), got)
        if why or got != want:
            ctx.fail('C13:int-rendering', 'floatToGoString(%r) = %r but floatToGoString(float(n)) = %r%s' % (n_, got, want, ('; ' + why) if why else ''),
                     {'int': int(n_)})


def run_expo(ctx, doubles):
    """the same floats rendered THROUGH the two expositions (sample values, le labels, exemplar values), many per scrape —
    the property speaks of every float the library renders, not only of floatToGoString called alone"""
    import famcodec
    from prometheus_client import CollectorRegistry, generate_latest
    from prometheus_client.metrics_core import GaugeMetricFamily, HistogramMetricFamily, CounterMetricFamily
    from prometheus_client.openmetrics import exposition as om
    from prometheus_client.samples import Exemplar

    class Coll:
        def __init__(self, fams): self.fams = fams
        def collect(self): return self.fams

    reqs, expect = [], []
    B = 40
    for start in range(0, len(doubles), B):
        batch = doubles[start:start + B]
        g = GaugeMetricFamily('v', 'values', labels=['i'])
        for k, d in enumerate(batch):
            g.add_metric([str(k)], d)
        # the same values under a name that needs the quoted {"name",…} spelling (its own branch of both sample-line writers)
        gq = GaugeMetricFamily('v.\u00e9', 'values', labels=['i'])
        for k, d in enumerate(batch):
            gq.add_metric([str(k)], d)
        fams = [g, gq]
        # le labels and exemplar values: a histogram family built from the positive finite values of the batch
        bounds = sorted({d for d in batch if d == d and 0 < d < math.inf})[:8]
        if bounds:
            buckets = [(utils_go(b), float(j + 1), Exemplar({'t': 'x'}, b)) for j, b in enumerate(bounds)]
            buckets.append(('+Inf', float(len(bounds) + 1), None))
            fams.append(HistogramMetricFamily('h', 'hist', buckets=[(b, c, e) for b, c, e in buckets], sum_value=1.0))
        # exemplar values of every class (±Inf, NaN, big, small), with and without an exemplar timestamp, on counter samples
        cf = CounterMetricFamily('e', 'exemplars', labels=['i'])
        exvals = [d for d in batch[:12]]
        for k, d in enumerate(exvals):
            cf.add_metric([str(k)], 1.0, exemplar=Exemplar({'t': 'x'}, d, 1.5 if k % 2 else None))
        fams.append(cf)
        reg = CollectorRegistry(); reg.register(Coll(fams))
        for fmt, gen in (('text', generate_latest), ('om', om.generate_latest)):
            try:
                out = gen(reg).decode('utf-8')
            except Exception as e:
                ctx.fail('C13:expo-raises', '%s exposition of a batch of floats raised %s' % (fmt, type(e).__name__),
                         {'bits_list': [lib.bits_of(d) for d in batch], 'fmt': fmt})
                continue
            lines = out.split('\n')
            seen, seenq = {}, {}
            QRE = re.compile(r'^\{"v\.\u00e9", ?i="(\d+)"\} (\S+)')
            for ln in lines:
                if ln.startswith('v{i="'):
                    k = int(ln[5:ln.index('"', 5)])
                    seen[k] = ln.split('} ', 1)[1].split(' ')[0]
                elif QRE.match(ln):
                    seenq[int(QRE.match(ln).group(1))] = QRE.match(ln).group(2)
            for k, d in enumerate(batch):
                tq = seenq.get(k)
                if tq is None or oracle(d, tq):
                    ctx.fail('C13:expo-quoted-name', '%s exposition renders value %r of a sample with a quoted (UTF-8) name as %r: %s'
                             % (fmt, d, tq, oracle(d, tq) if tq is not None else 'sample line missing'),
                             {'bits_list': [lib.bits_of(x) for x in batch], 'fmt': fmt, 'index': k})
            for k, d in enumerate(batch):
                ctx.case(nontrivial_key=('expo', fmt, lib.bits_of(d)))
                tok = seen.get(k)
                if tok is None:
                    ctx.fail('C13:expo-missing', '%s exposition lost sample %d of a batch' % (fmt, k), {'bits_list': [lib.bits_of(x) for x in batch], 'fmt': fmt})
                    continue
                try:
                    back = float(tok)
                except ValueError:
                    back = None
                if back is None or lib.bits_of(back) != lib.bits_of(d):
                    ctx.fail('C13:expo-inexact', '%s exposition renders sample value %r (bits %016x) as %r, which parses back to %r — in a scrape that also holds %s'
                             % (fmt, d, lib.bits_of(d), tok, back, [repr(x) for x in batch if x == d and lib.bits_of(x) != lib.bits_of(d)][:2]),
                             {'bits_list': [lib.bits_of(x) for x in batch], 'fmt': fmt, 'index': k})
            if fmt == 'om':
                for ln in lines:
                    if ln.startswith('e_total{i="') and ' # {' in ln:
                        k = int(ln[11:ln.index('"', 11)])
                        ev = ln.split(' # {', 1)[1].split('} ', 1)[1].split(' ')[0]
                        why = oracle(exvals[k], ev) if k < len(exvals) else None
                        if why:
                            ctx.fail('C13:expo-exemplar-inexact', 'om exposition renders exemplar value %r as %r: %s' % (exvals[k], ev, why),
                                     {'bits_list': [lib.bits_of(x) for x in batch], 'fmt': fmt})
            # le labels and exemplar values of the histogram family
            for ln in lines:
                if ln.startswith('h_bucket{le="') and '+Inf' not in ln.split('}')[0]:
                    le = ln[13:ln.index('"', 13)]
                    j = int(float(ln.split('} ', 1)[1].split(' ')[0])) - 1
                    if 0 <= j < len(bounds) and oracle(bounds[j], le):
                        ctx.fail('C13:expo-le-inexact', '%s exposition renders le bound %r as %r: %s' % (fmt, bounds[j], le, oracle(bounds[j], le)),
                                 {'bits_list': [lib.bits_of(x) for x in batch], 'fmt': fmt})
                    if fmt == 'om' and ' # {' in ln:
                        ev = ln.split(' # {', 1)[1].split('} ', 1)[1].split(' ')[0]
                        if 0 <= j < len(bounds):
                            why = oracle(bounds[j], ev)
                            if why:
                                ctx.fail('C13:expo-exemplar-inexact', 'om exposition renders exemplar value %r as %r: %s' % (bounds[j], ev, why),
                                         {'bits_list': [lib.bits_of(x) for x in batch], 'fmt': fmt})
            reqs.append('expo %s %s' % (fmt, famcodec.enc_families(fams)))
            expect.append((fmt, out, [lib.bits_of(x) for x in batch]))
    replies = ctx.driver.run(reqs)
    if replies is not None:
        for r, (fmt, out, bl) in zip(replies, expect):
            ctx.traces += 1
            if not r.startswith('ok ') or lib.unhx(r.split(' ')[1]) != out:
                ctx.diverge('%s exposition of a batch of floats differs from the model' % fmt, {'bits_list': bl, 'fmt': fmt})


def run_hist(ctx, doubles):
    """le labels of real Histograms: the same bounds given as floats, ints and strings in several spellings must all be
    exposed as one canonical text that parses back to the bound (the property: bucket label strings agree across processes,
    restarts and clients)"""
    from prometheus_client import CollectorRegistry, Histogram
    rng = ctx.rng
    pos = sorted({d for d in doubles if d == d and 0 < d < math.inf})
    if not pos:
        return

    def spellings(b):
        out = [b, repr(b), ' %r ' % b, '%.17e' % b, '+%r' % b]
        if b == int(b) and b < 1e22:
            out += [int(b), str(int(b)), '%d.0' % int(b), '%de0' % int(b)]
        return out

    for start in range(0, len(pos), 6):
        bounds = pos[start:start + 6]
        variants = [list(bounds), [rng.choice(spellings(b)) for b in bounds], [rng.choice(spellings(b)) for b in bounds]]
        labels = []
        for v in variants:
            try:
                h = Histogram('h', 'd', buckets=v + [rng.choice([math.inf, 'inf', '+Inf', 'Infinity'])], registry=CollectorRegistry())
                les = [s.labels['le'] for s in h.collect()[0].samples if s.name == 'h_bucket']
            except Exception as e:
                ctx.fail('C13:hist-raises', 'Histogram(buckets=%r) raised %s' % (v, type(e).__name__), {'bounds_bits': [lib.bits_of(b) for b in bounds]})
                les = None
            labels.append(les)
        ctx.case(nontrivial_key=('hist', tuple(lib.bits_of(b) for b in bounds)))
        ctx.count('hist-le-labels')
        for v, les in zip(variants, labels):
            if les is None:
                continue
            if len(les) != len(bounds) + 1 or les[-1] != '+Inf':
                ctx.fail('C13:hist-le-shape', 'Histogram(buckets=%r) exposes le labels %r' % (v, les), {'bounds_bits': [lib.bits_of(b) for b in bounds]})
                continue
            for b, le in zip(bounds, les):
                why = oracle(b, le)
                if why:
                    ctx.fail('C13:hist-le', 'bound %r given as one of %r is exposed as le=%r: %s' % (b, v, le, why),
                             {'bounds_bits': [lib.bits_of(x) for x in bounds], 'variant': [repr(x) for x in v]})
        if labels[0] is not None:
            for v, les in zip(variants[1:], labels[1:]):
                if les is not None and les != labels[0]:
                    ctx.fail('C13:hist-le-spelling', 'the same bounds spelled %r are exposed with le labels %r, spelled as floats %r'
                             % (v, les, labels[0]), {'bounds_bits': [lib.bits_of(x) for x in bounds], 'variant': [repr(x) for x in v]})


def run_ambient(ctx, doubles):
    """the rendering is a function of the double alone: not of the ambient decimal context (precision, rounding, traps — an
    application may narrow it for its own arithmetic), not of the locale-free repr a float SUBCLASS chooses for itself
    (`class Seconds(float)` with its own __repr__/__str__ is still that double when it is a sample value or a bucket bound)"""
    import decimal
    from prometheus_client import utils

    class Loud(float):
        def __repr__(self): return 'Loud(%s)' % float.__repr__(self)
        __str__ = __repr__

    class Rounded(float):
        def __repr__(self): return '%.3g' % float(self)
        def __str__(self): return '%.3g' % float(self)
        def __format__(self, spec): return '%.3g' % float(self)

    ctxs = [decimal.Context(prec=3), decimal.Context(prec=6, rounding=decimal.ROUND_DOWN),
            decimal.Context(prec=1, rounding=decimal.ROUND_UP), decimal.Context(prec=9, traps=[decimal.Inexact, decimal.Rounded])]
    pick = [d for d in doubles if d == d and abs(d) != math.inf]
    big = [d for d in pick if d >= 1e6][:120]
    pick = big + pick[:120] + [1234567.0, 123456789012.0, 1e15 + 1, 9007199254740993.0, 1234567.891, 0.1, -2.5]
    for d in pick:
        try:
            plain = utils.floatToGoString(d)
        except Exception:
            continue  # run_cases reports it
        ctx.case(nontrivial_key=('ambient', lib.bits_of(d)))
        ctx.count('ambient-decimal-context/float-subclass')
        for i, dc in enumerate(ctxs):
            try:
                with decimal.localcontext(dc):
                    got = utils.floatToGoString(d)
            except Exception as e:
                got = 'raised ' + type(e).__name__
            if got != plain:
                ctx.fail('C13:ambient-decimal-context', 'floatToGoString(%r) = %r, but %r under decimal context #%d (prec=%d, %s)'
                         % (d, plain, got, i, dc.prec, dc.rounding), {'bits': lib.bits_of(d), 'ambient': i})
                break
        for cls in (Loud, Rounded):
            try:
                got = utils.floatToGoString(cls(d))
            except Exception as e:
                got = 'raised ' + type(e).__name__
            if got != plain:
                ctx.fail('C13:float-subclass', 'floatToGoString(%s(%r)) = %r, but the same double as a plain float renders %r'
                         % (cls.__name__, d, got, plain), {'bits': lib.bits_of(d), 'ambient': cls.__name__})
                break


def run_hist_order(ctx):
    """le labels must not depend on which histograms the process rendered earlier: bounds that compare equal but are different
    doubles (0.0 / -0.0) or that another histogram already used, in both creation orders, children and repeated collects"""
    from prometheus_client import CollectorRegistry, Histogram
    rng = ctx.rng
    pool = [0.0, -0.0, -1.0, -2.5, 1.0, 2.5, 1e6, 1234567.0, -1234567.0, 5e-324, 0.1]
    seqs = [[[-0.0, 1.0], [0.0, 1.0], [-0.0, 1.0]], [[0.0, 1.0], [-0.0, 1.0], [0.0, 1.0]], [[-2.5, -0.0, 2.5], [-2.5, 0.0, 2.5]]]
    for _ in range(12 if ctx.tier == 'quick' else 120):
        seqs.append([sorted(set(rng.sample(pool, rng.randint(1, 4))), key=lambda v: (v, math.copysign(1, v))) for _ in range(rng.randint(2, 4))])
    for seq in seqs:
        ctx.case(nontrivial_key=('hist-order', tuple(tuple(lib.bits_of(b) for b in bs) for bs in seq)))
        ctx.count('hist-le-order')
        for bs in seq:
            bs = list(bs)
            try:
                h = Histogram('h', 'd', ['l'], buckets=bs + [math.inf], registry=CollectorRegistry())
                h.labels('a').observe(1); h.labels('b')
                got = []
                for _k in range(2):
                    got.append([s.labels['le'] for s in h.collect()[0].samples if s.name == 'h_bucket' and s.labels['l'] == 'a'])
            except Exception as e:
                ctx.fail('C13:hist-raises', 'Histogram(buckets=%r) raised %s' % (bs, type(e).__name__), {'order_bits': [[lib.bits_of(b) for b in x] for x in seq]})
                continue
            for les in got:
                for b, le in zip(bs, les):
                    why = oracle(b, le)
                    if why:
                        ctx.fail('C13:hist-le-order', 'after histograms with bounds %r, bound %r (bits %016x) is exposed as le=%r: %s'
                                 % (seq, b, lib.bits_of(b), le, why), {'order_bits': [[lib.bits_of(b) for b in x] for x in seq]})


def utils_go(b):
    from prometheus_client import utils
    return utils.floatToGoString(b)


def run(ctx):
    ctx.rule = ('doubles: every power of ten ±1,±2 ulp over the whole exponent range, digit-count × trailing-zero patterns '
                '(1–17 integer digits), neighbours of 1e6/1e7/1e10/1e15/1e16/1e17/1e21/1e22, integers to 2^64, subnormals, '
                'specials, uniformly random bit patterns, and negations; a case is non-trivial when finite; distinct by bit pattern')
    n = 4000 if ctx.tier == 'quick' else 200000
    if ctx.broken:
        n *= 3  # a proof obligation broke: widen the failing-input search
    ds = gen_doubles(ctx, n)
    run_cases(ctx, ds)
    run_ints(ctx)
    run_ambient(ctx, ds)
    # through the expositions: signed zeros, NaN, infinities and neighbours side by side in one scrape
    rng = ctx.rng
    mix = [0.0, -0.0, 1.0, -1.0, math.nan, math.inf, -math.inf, 5e-324, -5e-324, 1e6, 1000000.0000000001, 1e16, 123456789.125]
    sample = mix + [ds[i] for i in range(0, len(ds), max(1, len(ds) // (600 if ctx.tier == 'quick' else 6000)))]
    rng.shuffle(sample)
    run_expo(ctx, mix + sample)
    run_hist_order(ctx)
    run_hist(ctx, [x for x in mix + sample if x == x and 0 < x < math.inf] + [1e6, 1e7, 2.5e15, 1e16, 1e21, 1e22, 0.005, 123456789.0])


def replay(ctx, case):
    c = case.get('case', {})
    if 'int' in c:
        run_ints(ctx)
    elif 'order_bits' in c:
        run_hist_order(ctx)
    elif 'bounds_bits' in c:
        run_hist(ctx, [lib.from_bits(int(b)) for b in c['bounds_bits']])
    elif 'bits_list' in c:
        run_expo(ctx, [lib.from_bits(int(b)) for b in c['bits_list']])
    elif 'ambient' in c:
        run_ambient(ctx, [lib.from_bits(int(c['bits']))])
    else:
        d = lib.from_bits(int(c['bits']))
        run_cases(ctx, [d])
    for f in ctx.failures:
        print('REPLAY-FAIL', f['what'])
    for f in ctx.divergences:
        print('REPLAY-DIVERGE', f['what'])
    return 1 if ctx.failures or ctx.divergences else 0
