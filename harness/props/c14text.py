"""C14, text half — the Prometheus text parser is total: every input ends in families or ValueError.

Real code: list(parser.text_string_to_metric_families(s)), run twice per input under a watchdog.
Oracle (independent of the Lean model): the outcome is a list of families or a ValueError; any other exception class
fails with the signature  C14:text:<ExceptionClass>:<function of the innermost traceback frame>,  a watchdog expiry with
C14:text:Timeout, two runs that differ with C14:text:nondeterministic.
T2: `c03 parse <legacy> h:<doc>` of the driver must give the same outcome class and, for ok, the same families
(canonical token string, timestamps compared after the harness did the `/ 1000`).

Inputs: a corpus of known witnesses, grammar-generated documents of every family type, every single token-level
mutation of them (line insert/delete/duplicate/swap, token delete/duplicate/replace, truncation at every offset of
short documents), some double mutations, unstructured strings over the format's special characters (incl. non-ASCII
white space and Unicode digits), very long digit strings in value and timestamp position.

Also exports the canonicaliser and the watchdogged parse used by props/c03.py.
"""
import hashlib
import os
import signal
import sys
import time

if __name__ == '__main__':      # development runner: same path set-up as check.py
    sys.path.insert(0, os.path.dirname(os.path.dirname(os.path.abspath(__file__))))
import lib

# ------------------------------------------------------------------------------------------ real code under a watchdog


class _Timeout(BaseException):
    pass


def _on_alarm(signum, frame):
    raise _Timeout()


def set_legacy(V, legacy):
    (V.enable_legacy_validation if legacy else V.disable_legacy_validation)()


def real_parse(doc, legacy, limit=2.0):
    """('ok', families) | ('err', ExceptionClassName, innermost function name) | ('timeout',)"""
    from prometheus_client import parser as P
    from prometheus_client import validation as V
    legacy0 = V.get_legacy_validation()
    set_legacy(V, legacy)
    old = None
    try:
        old = signal.signal(signal.SIGALRM, _on_alarm)
    except ValueError:      # not in the main thread: run without the watchdog
        old = None
    try:
        try:
            if old is not None:
                signal.setitimer(signal.ITIMER_REAL, limit)
            try:
                fams = list(P.text_string_to_metric_families(doc))
            finally:
                if old is not None:
                    signal.setitimer(signal.ITIMER_REAL, 0)
            return ('ok', fams)
        except _Timeout:
            return ('timeout',)
        except Exception as e:  # noqa: every class is an observation
            tb = e.__traceback__
            fn = '?'
            while tb is not None:
                fn = tb.tb_frame.f_code.co_name
                tb = tb.tb_next
            return ('err', type(e).__name__, fn)
    finally:
        if old is not None:
            signal.signal(signal.SIGALRM, old)
        set_legacy(V, legacy0)


# ------------------------------------------------------------------------------------------ canonical observations
def enc_num(v):
    if isinstance(v, bool):
        return 'B:%d' % v
    if isinstance(v, int):
        try:
            return 'i:%d' % v
        except ValueError:
            return 'i:<huge>'
    return lib.fbits(v)


def canon_families(fams):
    out = [str(len(fams))]
    for f in fams:
        out += [lib.hx(f.name), lib.hx(f.documentation), lib.hx(f.type), str(len(f.samples))]
        for s in f.samples:
            out += [lib.hx(s.name), str(len(s.labels))]
            for k, v in s.labels.items():
                out += [lib.hx(k), lib.hx(v)]
            out.append(enc_num(s.value))
            out.append('-' if s.timestamp is None else lib.fbits(s.timestamp))
    return ' '.join(out)


def canon_real(outcome):
    if outcome[0] == 'ok':
        return 'ok ' + canon_families(outcome[1])
    if outcome[0] == 'err':
        return 'err ' + outcome[1]
    return 'err Timeout'


def _div1000(tok):
    """the model leaves `num / 1000` symbolic: do Python's true division here"""
    if tok == '-':
        return '-'
    if tok.startswith('i:'):
        try:
            return lib.fbits(int(tok[2:]) / 1000)
        except OverflowError:
            return 'ts-overflow'
    return lib.fbits(lib.unfbits(tok) / 1000)


def canon_model(reply):
    """the driver's `c03 parse` reply with every timestamp divided by 1000 -> same token string as canon_real"""
    t = reply.split(' ')
    if t[0] != 'ok':
        return reply
    try:
        out = ['ok', t[1]]
        i = 2
        for _ in range(int(t[1])):
            out += t[i:i + 4]
            m = int(t[i + 3])
            i += 4
            for _ in range(m):
                n = 2 + 2 * int(t[i + 1]) + 1
                out += t[i:i + n]
                i += n
                out.append(_div1000(t[i]))
                i += 1
        if i != len(t):
            return 'bad-reply ' + reply[:200]
        return ' '.join(out)
    except (ValueError, IndexError):
        return 'bad-reply ' + reply[:200]


def disagree(creal, reply):
    """None when the model's `c03 parse` reply matches the canonical real outcome, else a description; a model that ran
    out of fuel (`err Timeout`) never matches"""
    cm = canon_model(reply)
    if cm == 'err Timeout':
        return 'model ran out of fuel (err Timeout); real=%s' % creal[:200]
    if cm != creal:
        return 'real=%s model=%s' % (creal[:200], cm[:200])
    return None


def drv_run(ctx, reqs):
    """ctx.driver.run, patient while somebody else's `lake build` relinks the driver binary"""
    for _ in range(60):
        try:
            return ctx.driver.run(reqs)
        except OSError:
            time.sleep(2.0)
    raise lib.Infra('driver binary unavailable for two minutes')


def doc_key(doc):
    return hashlib.sha1(doc.encode('utf-8')).hexdigest()[:16]


# ------------------------------------------------------------------------------------------ generators
NBSP = '\xa0'
ODD_WS = ['\xa0', '\x1c', '\x1d', '\x1e', '\x1f', '\x85', ' ', '　', '\x0b', '\x0c']
SPECIAL = ['#', '{', '}', '"', '\\', ',', '=', ' ', '\t', '\n', '\r', '_', '+', '-', '.', 'e', 'E', 'i', 'n', 'f', 'a', '0', '1',
           '9'] + ODD_WS + ['٣', '１', 'é', '\U0001F600']
NAMES = ['a', 'b_total', 'x:y', '_z9', 'le', 'HELP', 'TYPE', 'a_sum', 'a_count', 'a_bucket', 'a_created', 'nan', 'inf']
QNAMES = ['"a b"', '"é"', '"a\\"b"', '"a\\\\"', '"\U0001F600{}"', '"a\\nb"', '""', '"#"', '"a,b=c"', '"__name__"', '" "',
          '"\xa0"']
TYPES = ['counter', 'gauge', 'summary', 'histogram', 'gaugehistogram', 'unknown', 'untyped', 'info', 'stateset']
BAD_TYPES = ['bogus', '', 'Counter', 'gauge x', '\xa0']
VALUES = ['1', '1.0', '-1', '+Inf', '-Inf', 'NaN', '1e3', '0x10', '1_0', '٣', '１', '1.5e-7', '9007199254740993',
          '-0.0', '1e400', 'inf', 'Infinity', 'nan', '.5', '5.', '0', '1e+06', '+1', '007', '', '-', '1 ', 'e', '1e', '--1']
TSS = ['1500', '-1500', '1.5', '0', '1e3', 'NaN', '٣', '1000.5', '-0', '+Inf', '1e400', '123456789012345678901234567890']
LVALS = ['v', '', 'a\\\\', '\\"', '\\n', 'a b', 'a,b', 'a}b', '{', 'é', '\U0001F600', '#', 'a=b', '\\\\\\"', 'n\\\\n', ' ',
         '\xa0', '\\', '\\x', 'a"b', '\r', '\t', '\\\\\\', '"']
LNAMES = ['l', 'le', 'quantile', 'a_1', '"a b"', '"é"', '"a\\"b"', '"l"', '__name__', '__x', '"__name__"', '1a', '', 'a:b', 'a b',
          '"', '\xa0']
HELPS = ['help', 'h x', '', ' x', 'a\\\\b', 'a\\nb', 'q"q', '\\', '"', '"a b" c', 'é \U0001F600', '# HELP a b', 'x\xa0', '\\"']
SUFFIXES = {
    'counter': ['_total', '_created', ''],
    'gauge': [''],
    'summary': ['', '_count', '_sum', '_created'],
    'histogram': ['_bucket', '_count', '_sum', '_created'],
    'gaugehistogram': ['_bucket', '_gcount', '_gsum'],
    'unknown': [''],
    'untyped': [''],
    'info': ['_info'],
    'stateset': [''],
}
LONG_DIGITS = ['9' * 400, '1' + '0' * 400, '9' * 4300, '9' * 4301, '1' + '0' * 4299, '1' + '0' * 4300]
OVF = (2 ** 1024 - 2 ** 970) * 1000

CORPUS = [
    '# HELP \xa0 x\n',                      # F8: IndexError in _unquote_unescape
    '# TYPE \x1c counter\n',                # F8
    '# HELP \x1f\n',
    '# TYPE   gauge\n',
    '# \x85 \xa0\n',
    'a 1 1' + '0' * 400 + '\n',             # OverflowError in _parse_value_and_timestamp: int / 1000 too large for a float
    'a 1 ' + str(OVF) + '\n',               # smallest overflowing timestamp
    'a 1 ' + str(OVF - 1) + '\n',           # largest that divides
    'a 1 -' + str(OVF) + '\n',
    'a 1 -' + str(OVF - 1) + '\n',
    'a{l="v"} 1 ' + str(OVF) + '\n',
    '{"a b"} 1 ' + str(OVF + 12345) + '\n',
    'a 1 ' + str(OVF) + '.0\n',             # a float timestamp never overflows
    '',
    '\n',
    '#',
    '# ',
    '# HELP',
    '# TYPE',
    '# TYPE a',
    '# TYPE a bogus\n',
    '# HELP a\n# TYPE a counter\na 1\n',
    '# HELP a_total h\n# TYPE a_total counter\na_total 1 2\n',
    '{"a b",l="v"} 1\n',
    '{"a b"} 1 1500\n',
    '{} 1\n',
    '{l="v"} 1\n',
    '{__name__="a",l="v"} 1\n',
    'a{__name__="b"} 1\n',
    'a{l="v",l="w"} 1\n',
    'a{l="v"}\n',
    'a{l="v"\n',
    'a{l="v} 1\n',
    'a{l=v} 1\n',
    'a{,} 1\n',
    'a{,,} 1\n',
    'a{l="v",} 1\n',
    'a{} 1\n',
    'a{}} 1\n',
    'a{l="}"} 1\n',
    'a{l="\\"} 1\n',
    'a{l="\\\\"} 1\n',
    'a{l="\\\\\\"} 1\n',
    'a}{ 1\n',
    'a } 1\n',
    'a{l="v"}}{ 1\n',
    'a # {l="v"} 1\n',
    'a # 1\n',
    'a\t1\t2\n',
    'a \t 1\n',
    'a\n',
    'a \n',
    'a  \n',
    'a 1 2 3\n',
    'a 1_0\n',
    'a 1 1_0\n',
    'a ٣\n',
    'a 1 ٣\n',
    'a\xa01\n',
    'a 1\xa02\n',
    'a\x1c1\n',
    '\xa0\n',
    '\x1c\n',
    '\xa0a 1\n',
    '"a" 1\n',
    '"a b" 1\n',
    'a"b 1\n',
    'a{"b" 1\n',
    '# HELP "a\n',
    '# HELP "a b\n',
    '# HELP " x\n',
    '# TYPE "a" counter\n',
    '# TYPE "" counter\n',
    '# HELP "" x\n',
    '# HELP a x\n# HELP a y\na 1\n',
    '# TYPE a counter\n# TYPE a gauge\na 1\n',
    '# TYPE a histogram\na_bucket{le="1"} 1\na_count 1\na_sum 1\na_created 1\na 1\n',
    '# TYPE a summary\na{quantile="0.5"} 1\na_count 1\na_sum 1\n',
    '# TYPE é counter\n',
    '# TYPE "é" counter\n"é" 1\n',
    '# TYPE "é" counter\n{"é"} 1\n',
    'a 1\r\nb 2\r\n',
    'a 1\rb 2\n',
    'a 1 b 2\n',
    'a 0x10\n',
    'a 1e\n',
    'a ' + '9' * 4301 + '\n',
    'a 1 ' + '9' * 4301 + '\n',
    'a 1 ' + '9' * 4300 + '\n',
]


def pick(rng, xs, n_good, p=0.85):
    """the lists start with their well-formed members: mostly those, sometimes anything"""
    return rng.choice(xs[:n_good]) if rng.random() < p else rng.choice(xs)


def gen_labels(rng, tokens, extra=None):
    """append '{', name, '=', '"v"', … '}' tokens"""
    n = rng.choice([0, 1, 1, 2, 3])
    items = []
    used = set()
    for _ in range(n):
        ln = pick(rng, LNAMES, 6)
        if ln in used and rng.random() < 0.9:
            continue
        used.add(ln)
        items.append([ln, '=', '"' + pick(rng, LVALS, 17, 0.9) + '"'])
    if extra:
        items.insert(0, [extra])
    tokens.append('{')
    for j, it in enumerate(items):
        if j:
            tokens.append(',')
        tokens += it
    tokens.append('}')


def gen_sample_line(rng, name):
    toks = []
    quoted = name.startswith('"')
    if quoted:
        gen_labels(rng, toks, extra=name)
    else:
        toks.append(name)
        if rng.random() < 0.6:
            gen_labels(rng, toks)
    toks += [rng.choice([' ', ' ', ' ', '\t', '  ']), pick(rng, VALUES, 7, 0.9)]
    if rng.random() < 0.35:
        toks += [rng.choice([' ', ' ', '\t']), pick(rng, TSS, 5, 0.9)]
    return toks


def with_suffix(name, suf):
    if name.startswith('"'):
        return name[:-1] + suf + '"'
    return name + suf


def gen_family(rng):
    """a list of lines, each a list of tokens"""
    typ = rng.choice(TYPES)
    wtyp = typ if rng.random() < 0.93 else rng.choice(BAD_TYPES)
    name = pick(rng, QNAMES, 9) if rng.random() < 0.25 else rng.choice(NAMES)
    lines = []
    wire = name
    if rng.random() < 0.85:
        lines.append(['#', ' ', 'HELP', ' ', wire, ' ', rng.choice(HELPS)])
    if rng.random() < 0.85:
        lines.append(['#', ' ', 'TYPE', ' ', wire, ' ', wtyp])
    for _ in range(rng.choice([0, 1, 1, 2, 3])):
        suf = rng.choice(SUFFIXES[typ]) if rng.random() < 0.85 else rng.choice(['_x', '_total', '_created', '_sum'])
        lines.append(gen_sample_line(rng, with_suffix(name, suf)))
    if rng.random() < 0.15:
        lines.insert(rng.randrange(len(lines) + 1), rng.choice([['#', ' ', 'a comment'], [''], ['#'], ['   '], ['#', 'HELP']]))
    return lines


def gen_doc(rng, nfam=None):
    lines = []
    for _ in range(nfam or rng.choice([1, 1, 2, 3])):
        lines += gen_family(rng)
    return lines


def render(lines, eol='\n'):
    return ''.join(''.join(l) + eol for l in lines)


def token_pool():
    pool = set(NAMES + QNAMES + TYPES + BAD_TYPES + VALUES + TSS + LNAMES + ['"' + v + '"' for v in LVALS] + HELPS + SPECIAL)
    pool |= {'HELP', 'TYPE', '_total', '', '  ', '# HELP', '# TYPE', '{}', '""', '"', ' # ', '1' + '0' * 400, str(OVF)}
    return sorted(pool)


LINE_POOL = [['#', ' ', 'HELP', ' ', 'a', ' ', 'x'], ['#', ' ', 'TYPE', ' ', 'a', ' ', 'counter'], ['a', ' ', '1'], [''],
             ['#', ' ', 'TYPE', ' ', '\xa0', ' ', 'gauge'], ['a_total', '{', 'l', '=', '"v"', '}', ' ', '1', ' ', '2'],
             ['#', ' ', 'HELP', ' ', '"a b"'], ['{', '"a b"', '}', ' ', 'NaN'], ['#'], ['\x1c'], ['# TYPE'], ['# EOF']]


def single_mutations(rng, lines, pool, n_replace):
    """every single line-level and token-level mutation of the document (replacement tokens: n_replace random picks
    per position); yields (kind, text)"""
    L = len(lines)
    for i in range(L):
        yield 'line-delete', render(lines[:i] + lines[i + 1:])
        yield 'line-dup', render(lines[:i + 1] + lines[i:])
        if i + 1 < L:
            yield 'line-swap', render(lines[:i] + [lines[i + 1], lines[i]] + lines[i + 2:])
    for i in range(L + 1):
        yield 'line-insert', render(lines[:i] + [rng.choice(LINE_POOL)] + lines[i:])
    for i in range(L):
        toks = lines[i]
        for j in range(len(toks)):
            yield 'tok-delete', render(lines[:i] + [toks[:j] + toks[j + 1:]] + lines[i + 1:])
            yield 'tok-dup', render(lines[:i] + [toks[:j + 1] + toks[j:]] + lines[i + 1:])
            for _ in range(n_replace):
                yield 'tok-replace', render(lines[:i] + [toks[:j] + [rng.choice(pool)] + toks[j + 1:]] + lines[i + 1:])
    text = render(lines)
    yield 'no-final-newline', text[:-1]
    yield 'crlf', render(lines, '\r\n')
    if len(text) <= 120:
        for k in range(len(text)):
            yield 'truncate', text[:k]


def mutate_once(rng, lines, pool):
    lines = [list(l) for l in lines]
    k = rng.randrange(7)
    if not lines:
        return [rng.choice(LINE_POOL)]
    i = rng.randrange(len(lines))
    if k == 0:
        del lines[i]
    elif k == 1:
        lines.insert(i, list(lines[i]))
    elif k == 2 and i + 1 < len(lines):
        lines[i], lines[i + 1] = lines[i + 1], lines[i]
    elif k == 3:
        lines.insert(i, list(rng.choice(LINE_POOL)))
    elif lines[i]:
        j = rng.randrange(len(lines[i]))
        if k == 4:
            del lines[i][j]
        elif k == 5:
            lines[i].insert(j, lines[i][j])
        else:
            lines[i][j] = rng.choice(pool)
    return lines


def noise(rng):
    r = rng.random()
    if r < 0.5:
        n = rng.choice([1, 2, 3, 4, 5, 6, 8, 12, 20, 30])
        return ''.join(rng.choice(SPECIAL) for _ in range(n))
    pieces = SPECIAL + ['# HELP ', '# TYPE ', '_total', 'HELP', 'TYPE', ' counter', ' histogram', '{l="', '"}', '" ', ' 1', '\n',
                        '\n', 'a', 'a{', '="', '{"']
    n = rng.choice([2, 3, 4, 6, 8, 12])
    return ''.join(rng.choice(pieces) for _ in range(n))


def long_digit_docs():
    out = []
    for d in LONG_DIGITS + [str(OVF), str(OVF - 1), str(OVF + 1), str(OVF * 10)]:
        for sign in ('', '-', '+'):
            s = sign + d
            out += ['a %s\n' % s, 'a 1 %s\n' % s, 'a{l="v"} 1 %s\n' % s, 'a %s %s\n' % (s, s), 'a 1 %s.0\n' % s, 'a 1 %se0\n' % s,
                    'a\t1\t%s\n' % s, '{"a b"} 2 %s\n' % s, 'a 1 2 %s\n' % s, 'a 1 %s 2\n' % s,
                    '# TYPE a counter\na 1 %s\n' % s, 'a_total 1\nb 1 %s\nc 2\n' % s]
    return out


# ------------------------------------------------------------------------------------------ the run
def check_docs(ctx, items, state):
    """items: list of (kind, doc, legacy).  Real code twice + oracle, then one driver batch."""
    reqs, recs = [], []
    for kind, doc, legacy in items:
        key = (doc, legacy)
        if key in state['seen']:
            continue
        state['seen'].add(key)
        try:
            doc.encode('utf-8')
        except UnicodeEncodeError:
            continue
        o1 = real_parse(doc, legacy)
        o2 = real_parse(doc, legacy)
        c1, c2 = canon_real(o1), canon_real(o2)
        case = {'doc': doc.encode('utf-8').hex(), 'legacy': bool(legacy)}
        ctx.count('mut:' + kind)
        cls = 'ok' if o1[0] == 'ok' else ('Timeout' if o1[0] == 'timeout' else o1[1])
        ctx.count('outcome:' + cls)
        ctx.count('legacy:%d' % legacy)
        nontrivial = any(l.strip() and (not l.strip().startswith('#') or ' HELP' in l or ' TYPE' in l) for l in doc.split('\n'))
        ctx.case(doc_key(doc) + str(int(legacy)) if nontrivial else None,
                 {'doc': doc[:120], 'legacy': bool(legacy), 'outcome': c1[:120]})
        sig = None
        if c1 != c2:
            sig, what = 'C14:text:nondeterministic', 'two runs differ: %s / %s' % (c1[:150], c2[:150])
        elif o1[0] == 'timeout':
            sig, what = 'C14:text:Timeout', 'text parser did not finish within the watchdog on %r' % doc[:200]
        elif o1[0] == 'err' and o1[1] != 'ValueError':
            sig = 'C14:text:%s:%s' % (o1[1], o1[2])
            what = 'text parser raised %s in %s (expected families or ValueError) on %r' % (o1[1], o1[2], doc[:200])
        if sig:
            state['sigs'][sig] = state['sigs'].get(sig, 0) + 1
            w = state['witness'].get(sig)
            if w is None or len(doc) < len(bytes.fromhex(w['doc']).decode('utf-8')):
                state['witness'][sig] = case
            if state['sigs'][sig] <= 4:
                ctx.fail(sig, what, case)
        reqs.append('c03 parse %d %s' % (legacy, lib.hx(doc)))
        recs.append((doc, legacy, c1, case))
    replies = drv_run(ctx, reqs)
    if replies is None:
        return
    for (doc, legacy, c1, case), rep in zip(recs, replies):
        ctx.traces += 1
        why = disagree(c1, rep)
        if why:
            ctx.diverge('text parser: %s on %r (legacy=%s)' % (why, doc[:200], legacy), case)


def shrink_doc(doc, legacy, sig):
    """smallest document (lines, then characters) that still fails with the same signature"""
    def fails(d):
        o = real_parse(d, legacy)
        return o[0] == 'err' and 'C14:text:%s:%s' % (o[1], o[2]) == sig
    lines = doc.split('\n')
    if len(lines) > 1:
        lines = lib.shrink_list(lines, lambda c: fails('\n'.join(c)))
        doc = '\n'.join(lines)
    if len(doc) <= 200:
        chars = lib.shrink_list(list(doc), lambda c: fails(''.join(c)))
        doc = ''.join(chars)
    return doc


def run_text(ctx):
    rng = ctx.rng
    t0 = time.time()
    quick = ctx.tier == 'quick'
    n_base = 60 if quick else 500
    n_noise = 8000 if quick else 80000
    n_double = 6000 if quick else 80000
    n_replace = 1 if quick else 3
    budget = 28 if quick else 400
    if ctx.broken:
        n_base *= 3; n_noise *= 3; n_double *= 3; budget *= 2
    state = {'seen': set(), 'sigs': {}, 'witness': {}}
    pool = token_pool()
    items = []
    for d in CORPUS:
        items += [('corpus', d, False), ('corpus', d, True)]
    for d in long_digit_docs():
        items.append(('long-digits', d, rng.random() < 0.5))
    check_docs(ctx, items, state)
    # lines that end inside a quoted token, in every region of a sample line (shared generator, see omgen.quoted_region_lines):
    # the text parser scans quotes in the name / label block and splits the rest on white space, so every region is a distinct path
    import omgen
    items = []
    for _ in range((1 if quick else 12) * (3 if ctx.broken else 1)):
        for region, placement, kind, line in omgen.quoted_region_lines(rng):
            head = rng.choice(['', '', '# TYPE a counter\n', '# HELP a h\n# TYPE a histogram\n'])
            legacy = rng.random() < 0.3
            items.append(('quote-cut:' + kind, head + line, legacy))
            items.append(('quote-cut:' + kind, head + line + '\n', legacy))
            if rng.random() < 0.15:
                items.append(('quote-cut:' + kind, head + line.replace(' ', '\t') + '\nb 1\n', legacy))
    check_docs(ctx, items, state)
    items = []
    bases = [gen_doc(rng, nfam=1 if i % 2 == 0 else None) for i in range(n_base)]
    for b in bases:
        legacy = rng.random() < 0.5
        items.append(('base', render(b), legacy))
        items.append(('base', render(b), not legacy))
        for kind, text in single_mutations(rng, b, pool, n_replace):
            items.append((kind, text, legacy))
        if len(items) > 4000:
            check_docs(ctx, items, state)
            items = []
        if time.time() - t0 > budget * 0.6:
            ctx.count('budget-stop:single-mutations')
            break
    for _ in range(n_double):
        b = rng.choice(bases) if rng.random() < 0.5 else gen_doc(rng)
        m = mutate_once(rng, mutate_once(rng, b, pool), pool)
        if rng.random() < 0.3:
            m = mutate_once(rng, m, pool)
        items.append(('multi', render(m), rng.random() < 0.5))
    for _ in range(n_noise):
        items.append(('noise', noise(rng), rng.random() < 0.5))
    for _ in range(n_noise // 5):
        items.append(('grammar', render(gen_doc(rng)), rng.random() < 0.5))
    # chunks, so that the time budget is kept whatever the machine
    for i in range(0, len(items), 3000):
        check_docs(ctx, items[i:i + 3000], state)
        if time.time() - t0 > budget:
            ctx.count('budget-stop:random')
            break
    # minimal witnesses per signature
    wit = {}
    for sig, case in sorted(state['witness'].items()):
        doc = bytes.fromhex(case['doc']).decode('utf-8')
        if sig.count(':') >= 3 and not sig.endswith('Timeout'):
            doc = shrink_doc(doc, case['legacy'], sig)
        doc = doc.replace(str(OVF), '<(2**1024-2**970)*1000 = %s…, %d digits>' % (str(OVF)[:8], len(str(OVF))))
        wit[sig] = {'doc': doc if len(doc) < 120 else doc[:60] + '…(%d chars)' % len(doc), 'legacy': case['legacy'],
                    'count': state['sigs'][sig]}
    ctx.extra['c14text_signatures'] = wit
    print('C14Text signatures: %s' % {k: v['count'] for k, v in wit.items()})
    for sig, w in wit.items():
        print('  %s  minimal witness %r (legacy=%s)' % (sig, w['doc'], w['legacy']))
    if not ctx.rule or 'c14text' not in ctx.rule:
        ctx.rule = (ctx.rule + ' | ' if ctx.rule else '') + (
            'c14text: corpus of known witnesses; grammar documents of every family type; every single line/token mutation '
            '(insert, delete, duplicate, swap, replace) and every truncation of short documents; a quoted token placed in every region of a sample line, the line ending at every '
            'position inside it followed by 0..3 backslashes; double/triple mutations; '
            'strings over the special characters incl. non-ASCII white space and Unicode digits; 400/4300/4301-digit '
            'numbers in value and timestamp position; each input parsed twice under a 2 s watchdog; non-trivial = has a '
            'metadata or sample line; distinct by document hash and legacy flag')


def replay_text(ctx, case):
    c = case.get('case')
    if not c and case.get('divergences'):
        c = case['divergences'][0].get('case')
    if not c or 'doc' not in c:
        print('REPLAY: no text-parser case in the replay file')
        return 0
    doc = bytes.fromhex(c['doc']).decode('utf-8')
    legacy = bool(c.get('legacy'))
    state = {'seen': set(), 'sigs': {}, 'witness': {}}
    print('REPLAY input (legacy=%s): %r' % (legacy, doc[:300]))
    o = real_parse(doc, legacy)
    print('REPLAY real outcome: %s%s' % (canon_real(o)[:300], ' in %s' % o[2] if o[0] == 'err' else ''))
    check_docs(ctx, [('replay', doc, legacy)], state)
    for f in ctx.failures:
        print('REPLAY-FAIL', f['sig'], f['what'])
    for d in ctx.divergences:
        print('REPLAY-DIVERGE', d['what'])
    return 1 if ctx.failures or ctx.divergences else 0


if __name__ == '__main__':
    sys.path.insert(0, lib.REPO)
    os.environ.setdefault('PROMETHEUS_CLIENT_PYTHON_VERIF', '1')
    seed = int(sys.argv[1]) if len(sys.argv) > 1 else int(os.environ.get('VERIF_SEED', '0') or 0)
    tier = sys.argv[2] if len(sys.argv) > 2 else 'quick'
    ctx = lib.Ctx('C14Text', tier, seed)
    t = time.time()
    run_text(ctx)
    print('evaluations %d, nontrivial %d, traces %d, failures %d, divergences %d, %.1fs' % (
        ctx.evaluations, len(ctx.nontrivial), ctx.traces, len(ctx.failures), len(ctx.divergences), time.time() - t))
    print('distribution:', {k: v for k, v in sorted(ctx.dist.items())})
    seen = set()
    for f in ctx.failures:
        if f['sig'] not in seen:
            seen.add(f['sig'])
            print('FAIL', f['sig'], '|', f['what'][:200])
    seen = set()
    for d in ctx.divergences:
        k = d['what'][:60]
        if k not in seen:
            seen.add(k)
            print('DIVERGE', d['what'][:400])
