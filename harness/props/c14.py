"""C14 — both parsers are total.  Assembled from the text half (props/c14text.py) and the OpenMetrics half
(props/c14om.py); the function-level correspondence of the shared scanning core runs first."""
import corecheck
from props import c14om, c14text


def run(ctx):
    corecheck.run(ctx)
    c14text.run_text(ctx)
    c14om.run_om(ctx)
    if not ctx.rule:
        ctx.rule = 'see c14text.py / c14om.py'


def replay(ctx, case):
    c = case.get('case', {})
    if c.get('parser') == 'om' or str(case.get('sig', '')).startswith('C14:om'):
        return c14om.replay_om(ctx, case)
    return c14text.replay_text(ctx, case)
