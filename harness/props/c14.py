"""C14 — both parsers are total.  Assembled from the text half (props/c14text.py) and the OpenMetrics half
(props/c14om.py); the function-level correspondence of the shared scanning core runs first, and a stress stream of
extreme inputs (special number tokens in every value position, very long runs of every special character) runs last."""
import signal
import traceback

import corecheck
import lib
from props import c14om, c14text

SPECIAL_VALUES = ['+Inf', '-Inf', 'Inf', 'inf', 'NaN', 'nan', '1e400', '-1e400', '1e-400', '9' * 400, '-' + '9' * 400, '9' * 5000,
                  '0x10', '1_0', '1e5.5', '٣', '1\x1c', '', '1e', '.', '-', '+', '1.5e+308', '4.9e-324', '0.0', '-0.0']
RUN_CHARS = ['\\', '"', '{', '}', ',', ' ', '#', '=', '\t', 'a', '0', '\xa0', '\\"', '\\\\"']
RUN_LENGTHS = [1100, 3000]


class _Timeout(Exception):
    pass


def _alarm(signum, frame):
    raise _Timeout()


def probe(which, text, limit=10):
    """run one real parser; returns None (families or ValueError) or (class name, function at the raise site)"""
    from prometheus_client import parser as tp
    from prometheus_client.openmetrics import parser as op
    f = tp.text_string_to_metric_families if which == 'text' else op.text_string_to_metric_families
    old = signal.signal(signal.SIGALRM, _alarm)
    signal.alarm(limit)
    try:
        list(f(text))
        return None
    except ValueError:
        return None
    except _Timeout:
        return ('Timeout', 'watchdog')
    except BaseException as e:  # noqa: every other class is the observation
        tb = traceback.extract_tb(e.__traceback__)
        return (type(e).__name__, tb[-1].name if tb else '?')
    finally:
        signal.alarm(0)
        signal.signal(signal.SIGALRM, old)


def value_positions(line):
    """(start, end) of the value token of a sample line, or None"""
    if not line or line.startswith('#'):
        return None
    # after the label block (last unquoted-looking '}' followed by a space) or after the first space
    i = line.rfind('} ')
    start = i + 2 if i != -1 else (line.find(' ') + 1 if ' ' in line else None)
    if not start:
        return None
    end = line.find(' ', start)
    return (start, len(line) if end == -1 else end)


def stress(ctx):
    import omgen
    rng = ctx.rng
    docs = []
    ndocs = 12 if ctx.tier == 'quick' else 120
    for _ in range(ndocs):
        text, _desc = omgen.gen_document(rng)
        docs.append(('om', text))
        # the same document without '# EOF' is a plausible text-format document for the lax text parser
        docs.append(('text', text.replace('# EOF\n', '')))
    n = 0
    for which, text in docs:
        lines = text.split('\n')
        cands = [i for i, l in enumerate(lines) if value_positions(l)]
        # (1) special number tokens in every value position
        for i in cands:
            a, b = value_positions(lines[i])
            for tok in (SPECIAL_VALUES if ctx.tier != 'quick' else rng.sample(SPECIAL_VALUES, 6)):
                mutated = '\n'.join(lines[:i] + [lines[i][:a] + tok + lines[i][b:]] + lines[i + 1:])
                n += 1
                r = probe(which, mutated)
                ctx.case(nontrivial_key=('special', which, n))
                ctx.count('stress:special-value')
                if r:
                    ctx.fail('C14:%s:%s:%s' % (which, r[0], r[1]),
                             '%s parser raised %s in %s with value token %r on line %r' % (which, r[0], r[1], tok, lines[i][:80]),
                             {'parser': which, 'document': mutated, 'stress': True})
        # (2) very long runs of one character, inside a line at a random position
        for _ in range(3 if ctx.tier == 'quick' else 12):
            i = rng.randrange(len(lines))
            ch = rng.choice(RUN_CHARS)
            k = rng.choice(RUN_LENGTHS)
            pos = rng.randrange(len(lines[i]) + 1)
            mutated = '\n'.join(lines[:i] + [lines[i][:pos] + ch * k + lines[i][pos:]] + lines[i + 1:])
            n += 1
            r = probe(which, mutated)
            ctx.case(nontrivial_key=('run', which, n))
            ctx.count('stress:long-run')
            if r:
                ctx.fail('C14:%s:%s:%s' % (which, r[0], r[1]),
                         '%s parser raised %s in %s on a run of %d × %r inserted into line %r' % (which, r[0], r[1], k, ch, lines[i][:60]),
                         {'parser': which, 'document': mutated, 'stress': True})
    # (3) hand-made worst cases
    for which in ('text', 'om'):
        for k in RUN_LENGTHS:
            for doc in ['a{l="' + '\\' * k + '"} 1\n', 'a{l="x' + '\\' * k + '"y"} 1\n', '# HELP a ' + '\\' * k + '\n', 'a{' + 'l="v",' * k + '} 1\n',
                        'a ' + '1' * k + '\n', '{"' + '\\' * k + '"} 1\n', 'a 1 # {a="' + '\\' * k + '"} 1\n']:
                d = doc + ('# EOF\n' if which == 'om' else '')
                r = probe(which, d)
                ctx.case(nontrivial_key=('worst', which, k, doc[:12]))
                ctx.count('stress:worst-case')
                if r:
                    ctx.fail('C14:%s:%s:%s' % (which, r[0], r[1]), '%s parser raised %s in %s on %r…' % (which, r[0], r[1], d[:40]),
                             {'parser': which, 'document': d, 'stress': True})


FRESH_SCRIPT = r"""
import json, sys
sys.path.insert(0, sys.argv[1])
from prometheus_client import parser as tp
from prometheus_client.openmetrics import parser as op
docs = json.load(sys.stdin)
if len(sys.argv) > 2 and sys.argv[2] == 'legacy':
    from prometheus_client import validation
    validation.enable_legacy_validation()
out = []
for which, text in docs:
    f = tp.text_string_to_metric_families if which == 'text' else op.text_string_to_metric_families
    try:
        fams = list(f(text))
        out.append('ok:%d:%s' % (len(fams), ','.join('%s/%s/%d' % (m.name, m.type, len(m.samples)) for m in fams)[:300]))
    except ValueError:
        out.append('ValueError')
    except BaseException as e:
        out.append(type(e).__name__)
json.dump(out, sys.stdout)
"""


def outcome_here(which, text):
    from prometheus_client import parser as tp
    from prometheus_client.openmetrics import parser as op
    f = tp.text_string_to_metric_families if which == 'text' else op.text_string_to_metric_families
    try:
        fams = list(f(text))
        return 'ok:%d:%s' % (len(fams), ','.join('%s/%s/%d' % (m.name, m.type, len(m.samples)) for m in fams)[:300])
    except ValueError:
        return 'ValueError'
    except BaseException as e:  # noqa
        return type(e).__name__


def history_independence(ctx):
    """'the outcome is the same on every run': the outcome of parsing a document in THIS process — after tens of thousands of
    other documents went through the same module state — must equal its outcome in a fresh interpreter (documents sent in
    another order).  Catches state that leaks from one parse into the next (caches, tables mutated in place)."""
    import json
    import subprocess
    import sys
    import omgen
    rng = ctx.rng
    docs = []
    n = 60 if ctx.tier == 'quick' else 600
    for _ in range(n):
        text, _d = omgen.gen_document(rng)
        lines = text.split('\n')
        docs.append(('om', text))
        # variants that are usually REJECTED only because of per-family bookkeeping: a bare-name sample under a typed family,
        # a sample with a suffix of another type, a metadata line dropped
        i = rng.randrange(len(lines))
        docs.append(('om', '\n'.join(lines[:i] + lines[i + 1:])))
        for l in lines:
            if l.startswith('# TYPE '):
                nm = l.split(' ')[2]
                docs.append(('om', text.replace('# EOF', nm.strip('"') + ' 1\n# EOF') if '"' not in nm else text))
                docs.append(('om', '%s\n%s 1\n# EOF\n' % (l, nm.strip('"'))))
                break
        docs.append(('text', text.replace('# EOF\n', '')))
    here = [outcome_here(w, t) for w, t in docs]
    # shortest documents first in the fresh interpreter: the probes run before any complete family could leave state behind
    order = sorted(range(len(docs)), key=lambda i: len(docs[i][1]))
    try:
        p = subprocess.run([sys.executable, '-c', FRESH_SCRIPT, lib.REPO], input=json.dumps([docs[i] for i in order]).encode(),
                           stdout=subprocess.PIPE, stderr=subprocess.PIPE, timeout=300)
        fresh = json.loads(p.stdout.decode())
    except Exception as e:
        raise lib.Infra('fresh-interpreter run failed: %s' % e)
    for pos, i in enumerate(order):
        ctx.case(nontrivial_key=('fresh', i))
        ctx.count('history-independence')
        if fresh[pos] != here[i]:
            ctx.fail('C14:%s:outcome-depends-on-history' % docs[i][0],
                     '%s parser: outcome %r in this process (after many other documents) but %r in a fresh interpreter on %r'
                     % (docs[i][0], here[i][:80], fresh[pos][:80], docs[i][1][:120]),
                     {'parser': docs[i][0], 'document': docs[i][1], 'history': True})
    # the same under the legacy name-validation setting: every name of these documents has by now been through the validators
    # with the setting off; with it on, the outcome must be what a process that never had it off computes
    from prometheus_client import validation
    qdocs = [d for d in docs if '"' in d[1].split('\n', 1)[0] or '{"' in d[1]][:80]
    qdocs += [('om', '# TYPE "a.b" gauge\n{"a.b"} 1\n# EOF\n'), ('text', '# TYPE "a.b" gauge\n{"a.b"} 1\n'),
              ('om', '# TYPE "caf\u00e9" counter\n{"caf\u00e9_total",l="v"} 1\n# EOF\n'), ('text', '{"x-y","l.m"="v"} 1\n'),
              ('om', '# TYPE a gauge\na{"l.m"="v"} 1\n# EOF\n')]
    for w, t in qdocs:
        outcome_here(w, t)
    was = validation.get_legacy_validation()
    validation.enable_legacy_validation()
    try:
        here_l = [outcome_here(w, t) for w, t in qdocs]
    finally:
        (validation.enable_legacy_validation if was else validation.disable_legacy_validation)()
    try:
        p = subprocess.run([sys.executable, '-c', FRESH_SCRIPT, lib.REPO, 'legacy'], input=json.dumps(qdocs).encode(),
                           stdout=subprocess.PIPE, stderr=subprocess.PIPE, timeout=300)
        fresh_l = json.loads(p.stdout.decode())
    except Exception as e:
        raise lib.Infra('fresh-interpreter (legacy validation) run failed: %s' % e)
    for (w, t), a, b in zip(qdocs, here_l, fresh_l):
        ctx.case(nontrivial_key=('fresh-legacy', w, t[:60]))
        ctx.count('history-independence:legacy-validation')
        if a != b:
            ctx.fail('C14:%s:outcome-depends-on-history' % w,
                     '%s parser under legacy name validation: outcome %r in this process (where the same names were validated earlier with '
                     'the setting off) but %r in a fresh interpreter that had it on from the start, on %r' % (w, a[:80], b[:80], t[:120]),
                     {'parser': w, 'document': t, 'history': True})


# ------------------------------------------------------------------------------------------ termination oracle
# "parsing terminates": every parse of a document of the pathological-repetition class (omgen.patho_documents) must finish within
# a budget that is linear in the length of the document and far above what these parsers need (the slowest document of the class
# takes ~30 ms here; budget(doc) >= 4 s, i.e. > 100 x).  The documents are parsed in a helper interpreter; this process is the
# watchdog, so the verdict does not depend on the parser reaching a point where a signal handler could run.  False alarms on a
# loaded machine are excluded twice: the budget is counted in CPU seconds of the helper (a helper that is not being scheduled gets
# its deadline extended), and a document that ran out of budget is parsed again, alone, in a fresh interpreter with 1.5 x the
# budget — only if that runs out too it is reported, as C14:<parser>:does-not-terminate with the document as the failing input.
TERM_BASE_S = 4.0
TERM_PER_CHAR_S = 0.0005
TERM_MAX_FAILURES = 2          # per run: every further region of a non-terminating parser would cost two budgets again

TERM_CHILD = r"""
import json, sys, time, traceback
sys.path.insert(0, sys.argv[1])
from prometheus_client import parser as tp
from prometheus_client.openmetrics import parser as op
docs = json.load(sys.stdin)
sys.stdout.write('R %.6f\n' % time.process_time())
sys.stdout.flush()
for i, (which, text) in enumerate(docs):
    f = tp.text_string_to_metric_families if which == 'text' else op.text_string_to_metric_families
    t0 = time.perf_counter()
    try:
        list(f(text))
        r = 'ok'
    except ValueError:
        r = 'ValueError'
    except BaseException as e:
        tb = traceback.extract_tb(e.__traceback__)
        r = 'ESCAPE:%s:%s' % (type(e).__name__, tb[-1].name if tb else '?')
    sys.stdout.write('E %d %.6f %.6f %s\n' % (i, time.perf_counter() - t0, time.process_time(), r))
    sys.stdout.flush()
"""


def term_budget(text):
    return TERM_BASE_S + TERM_PER_CHAR_S * len(text)


def _cpu_of(pid):
    """CPU seconds (user + system) a process has used so far, or None where /proc is not available"""
    import os
    try:
        with open('/proc/%d/stat' % pid) as fh:
            fields = fh.read().rsplit(')', 1)[1].split()
        return (int(fields[11]) + int(fields[12])) / float(os.sysconf('SC_CLK_TCK'))
    except Exception:   # noqa
        return None


def run_watched(docs, scale=1.0):
    """parse docs = [(parser, text)] in ONE fresh helper interpreter, in order.  Returns (results, stalled): results[i] =
    (outcome, seconds) for every document the helper finished; stalled = index of the document that used up scale x its budget
    (the helper is killed, later documents are not run) or None."""
    import json
    import os
    import select
    import subprocess
    import sys
    import time
    p = subprocess.Popen([sys.executable, '-c', TERM_CHILD, lib.REPO], stdin=subprocess.PIPE, stdout=subprocess.PIPE, stderr=subprocess.PIPE)
    results = []
    stalled = None
    try:
        try:
            p.stdin.write(json.dumps(docs).encode())
            p.stdin.close()
        except BrokenPipeError:
            pass
        fd = p.stdout.fileno()
        buf = b''
        ready = False
        cpu_mark = 0.0                # the helper's CPU clock when it started the current document
        started = time.time()
        extensions = 0
        while len(results) < len(docs):
            cur = len(results)
            budget = (term_budget(docs[cur][1]) * scale) if ready else 60.0       # before 'R': interpreter start-up + imports
            left = started + budget * (1 + extensions) - time.time()
            if left > 0:
                rl, _, _ = select.select([fd], [], [], min(left, 1.0))
                if rl:
                    chunk = os.read(fd, 1 << 16)
                    if not chunk:
                        break
                    buf += chunk
                    while b'\n' in buf:
                        line, buf = buf.split(b'\n', 1)
                        parts = line.decode().split(' ', 4)
                        if parts[0] == 'R':
                            ready, cpu_mark = True, float(parts[1])
                        elif parts[0] == 'E':
                            results.append((parts[4], float(parts[2])))
                            cpu_mark = float(parts[3])
                        started, extensions = time.time(), 0
                continue
            # the wall-clock budget is used up: did the helper really compute all that time?
            cpu = _cpu_of(p.pid)
            if ready and cpu is not None and cpu - cpu_mark < 0.6 * budget and extensions < 8:
                extensions += 1
                continue
            if not ready:
                raise lib.Infra('termination helper did not start within 60 s')
            stalled = cur
            break
    finally:
        try:
            p.kill()
        except Exception:   # noqa
            pass
        err = p.stderr.read().decode('utf-8', 'replace') if p.stderr else ''
        p.stdout.close()
        p.stderr.close()
        p.wait()
    if stalled is None and len(results) < len(docs):
        raise lib.Infra('termination helper ended after %d of %d documents: %s' % (len(results), len(docs), err[-400:]))
    return results, stalled


def termination(ctx):
    import omgen
    quick = ctx.tier == 'quick'
    wide = bool(ctx.broken)
    docs = list(omgen.patho_documents(ctx.rng, full_lengths=(60,) if quick and not wide else (30, 60, 200),
                                      sample_per_item=(2 if quick and not wide else 10 if quick else None)))
    pending = list(range(len(docs)))
    failures = 0
    slowest = (0.0, 1.0)            # (seconds, budget) of the document that came closest to its budget
    skip = set()                    # (parser, region) already reported
    while pending:
        results, stalled = run_watched([(docs[i][0], docs[i][2]) for i in pending])
        for i, (outcome, secs) in zip(pending, results):
            which, desc, text = docs[i]
            ctx.case(nontrivial_key=('patho', i))
            ctx.count('termination:%s:run-%d' % (which, desc['run']))
            if secs / term_budget(text) > slowest[0] / slowest[1]:
                slowest = (secs, term_budget(text))
            if outcome.startswith('ESCAPE:'):
                _e, cls, site = outcome.split(':', 2)
                ctx.fail('C14:%s:%s:%s' % (which, cls, site),
                         '%s parser raised %s in %s on a run of %d x %s followed by %s (%s) in region %s: %r' % (
                             which, cls, site, desc['run'], desc['item'], desc['terminator'], desc['closing'], desc['region'], text[:200]),
                         {'parser': which, 'document': text, 'stress': True})
        if stalled is None:
            break
        i = pending[stalled]
        which, desc, text = docs[i]
        budget = term_budget(text)
        _r, again = run_watched([(which, text)], scale=1.5)
        if again is None:
            ctx.count('termination:slow-once-but-finished-when-repeated')
        else:
            failures += 1
            skip.add((which, desc['region']))
            ctx.fail('C14:%s:does-not-terminate' % which,
                     '%s parser does not terminate: no result after %.1f s of CPU time, and again none after %.1f s alone in a fresh '
                     'interpreter (the slowest document of this class needs ~0.03 s, the budget is 4 s + 0.5 ms per character), on a '
                     'document of %d characters with a run of %d x %s followed by %s (%s) in region %s: %r' % (
                         which, budget, 1.5 * budget, len(text), desc['run'], desc['item'], desc['terminator'], desc['closing'],
                         desc['region'], text if len(text) <= 400 else text[:400] + '...'),
                     {'parser': which, 'document': text, 'termination': True, 'describe': desc})
        pending = [j for j in pending[stalled + 1:] if (docs[j][0], docs[j][1]['region']) not in skip]
        if failures >= TERM_MAX_FAILURES:
            ctx.count('termination:not-run-after-%d-failures' % failures, len(pending))
            break
    ctx.extra['termination'] = {'documents': len(docs), 'closest_to_budget': {'seconds': round(slowest[0], 4), 'budget': round(slowest[1], 2)}}


def run(ctx):
    corecheck.run(ctx)
    c14text.run_text(ctx)
    c14om.run_om(ctx)
    stress(ctx)
    termination(ctx)
    history_independence(ctx)
    if not ctx.rule:
        ctx.rule = 'see c14text.py / c14om.py'
    ctx.rule += ('; stress stream: special number tokens substituted at every value position of generated documents, runs of 1100/3000 '
                 'of each special character inserted at random positions, hand-made worst cases (oracle on the real parsers only)'
                 '; termination: every list- / sequence-like region (native-histogram delta / span lists and fields, label lists, label '
                 'values and names, numbers, HELP text, metadata, lines) x a run of 30 / 60 / 200 / 2000 of each repeated item x each wrong '
                 'terminator (nothing, decimal point, ";", letter, blank, comma, minus, quote, backslash) x own / enclosing closing token '
                 'present or lost, parsed in a helper interpreter under a CPU-time budget of 4 s + 0.5 ms per character (> 100 x the '
                 'slowest such document), a document over budget is repeated alone before it is reported')


def replay(ctx, case):
    c = case.get('case', {})
    if c.get('history'):
        print('REPLAY outcome in this (fresh) process:', outcome_here(c['parser'], c['document'])[:200], '- history dependence needs the full run')
        return 0
    if c.get('termination'):
        res, stalled = run_watched([(c['parser'], c['document'])], scale=1.5)
        if stalled is None:
            print('REPLAY', c['parser'], 'parser finished in %.3f s ->' % res[0][1], res[0][0])
            return 1 if res[0][0].startswith('ESCAPE') else 0
        print('REPLAY', c['parser'], 'parser: no result within %.1f s of CPU time on a document of %d characters (%s)' % (
            1.5 * term_budget(c['document']), len(c['document']), c.get('describe')))
        return 1
    if c.get('stress'):
        r = probe(c['parser'], c['document'])
        print('REPLAY', c['parser'], 'parser ->', r or 'families or ValueError')
        return 1 if r else 0
    if c.get('parser') == 'om' or str(case.get('sig', '')).startswith('C14:om'):
        return c14om.replay_om(ctx, case)
    return c14text.replay_text(ctx, case)
