"""C07 — collect is complete and exact; a restricted registry is a pure filter.

Registries are produced by C06 histories (so failed registrations, unregistrations and target-info changes are part of
how they came about) over collectors holding families of every type, with units, float / Timestamp timestamps and
exemplars.  For every registry a batch of name sets (sample names, family names, claimed-but-never-emitted names,
unknown names, target_info) is tried.

Oracle on the real code (independent of the Lean model):
  * after every call of the history, collect() == [target-info family if configured] + the families of the collectors
    registered so far, in registration order (reference list driven by the calls and whether they raised)
  * restricted_registry(names).collect() is, as a multiset, the filter of the full collection by sample name with
    family name, type, help and unit unchanged and empty families dropped.  This is checked for EVERY registry; when a
    registered collector emits a sample under a name it does not claim (no describe() with auto_describe off, or an
    under-reporting describe()) the registry cannot find it and the statement as written fails: that class — and only
    it — is reported as C07:undescribed-collector-not-restrictable (a known finding; the hypothesis ClaimsCover of
    restricted_is_filter excludes exactly it, theorem claims_cover_needed exhibits it)
  * collect() is invoked only on collectors claiming one of the names, at most once each
  * the API takes `Iterable[str]`: every name selection reaches the real restricted_registry() in a randomly drawn container
    kind (list, tuple, set, frozenset, dict keys view, generator, iter(list), map object, filter object, list with
    duplicates) — same expected result for all
  * time-varying collectors (oracle only): collectors whose described / collected families change between calls (a
    history op switches their phase); while registered a collector claims what it described AT REGISTRATION; once
    unregistered nothing of it may be yielded or called, through whatever name
  * re-entrancy (oracle only, single-threaded): a collector whose collect() registers / unregisters another collector,
    unregisters itself or sets target info while the registry is being collected: collect() must not raise and follows
    SNAPSHOT semantics — it yields the collectors registered at the moment it took its snapshot (what the model's
    `collect s` computes for that state); the side effect is an ordinary call of the history and shows in the next collect
  * restricted-registry OBJECTS are long-lived: objects are made at arbitrary points of the history, kept, and collected
    through after EVERY later call; each time the result must be the filter of the CURRENT full collection and the calls
    must go to CURRENT claimants only (an object resolves its names at collect() time, it holds no registry data)
T2: the same history + name sets go to the driver (module "c06"); restricted families, call sets and the spec filter are
compared.
"""
import itertools

import lib
from props import c06 as base

SIG_F5 = 'C07:restricted-drops-unit'
SIG_F19 = 'C07:restricted-target-info-skips-claimant'
SIG_UNDESCRIBED = 'C07:undescribed-collector-not-restrictable'
MAX_REPORTS_PER_SIG = 3
UNITS = ['', '', '', 'sec', 'bytes']


def fam_with_unit(cid_base, name, typ, unit, extra_sample=None, empty=False):
    full = name + ('_' + unit if unit else '')
    snames = [full + s for s in base.SUFFIXES[typ]] or [full]
    if typ == 'summary' or typ == 'stateset':
        snames = [full] + [s for s in snames if s != full]
    if typ in ('histogram', 'gaugehistogram'):
        snames = [full + '_bucket'] + snames          # two buckets: same sample name twice
    if empty:
        snames = []             # a family without samples (no children yet)
    if extra_sample:
        snames.append(extra_sample)
    return {'name': full, 'type': typ, 'help': 'help of ' + full, 'unit': unit,
            'samples': [[sn, cid_base + i] for i, sn in enumerate(snames)]}


def rich_collector(rng, cid):
    r = rng.random()
    if r < 0.2:
        cls, name = rng.choice(base.BUILTINS)
        c = {'id': cid, 'kind': 'builtin', 'cls': cls, 'name': name}
        if cls in ('Gauge', 'Summary', 'Histogram') and rng.random() < 0.5:
            c['unit'] = rng.choice(['sec', 'bytes'])
        if rng.random() < 0.35:
            c['labels'] = ['l']      # labelled parent without children: its family has no samples
        return c
    k = rng.choice([1, 1, 2, 2, 3])
    fams = []
    for j in range(k):
        extra = None
        if rng.random() < 0.04:
            extra = rng.choice(['weird', 'x', 'target_info'])      # a sample the collector does not claim
        fams.append(fam_with_unit(cid * 100 + j * 10, rng.choice(base.ALPHABET), rng.choice(base.TYPES),
                                  rng.choice(UNITS), extra, empty=rng.random() < 0.2))
    r = rng.random()
    if r < 0.78:
        d = [[f['name'], f['type']] for f in fams]
    elif r < 0.84:
        d = []          # describe() returns no family: claims nothing, so the restricted registry must NOT find it by name
    elif r < 0.94:
        d = None
    else:
        d = [[rng.choice(base.ALPHABET), rng.choice(base.TYPES)]]
    return {'id': cid, 'kind': 'custom', 'describe': d, 'families': fams}


def varying_collector(rng, cid):
    names = rng.sample(['dev_a', 'dev_b', 'dev_c'] + base.ALPHABET[:4], rng.choice([2, 3]))
    fams = [fam_with_unit(cid * 100 + j * 10, n, rng.choice(['gauge', 'counter', 'unknown']), '') for j, n in enumerate(names)]
    desc = rng.random() < 0.5
    phases = []
    for keep in (fams, [f for f in fams if rng.random() < 0.5] or fams[:1]):
        phases.append({'describe': [[f['name'], f['type']] for f in keep] if desc else None, 'families': keep})
    return {'id': cid, 'kind': 'varying', 'phases': phases}


def random_registry_case(rng):
    k = rng.randrange(2, 8)
    cs = []
    for i in range(k):
        cs.append(varying_collector(rng, i + 1) if rng.random() < 0.12 else rich_collector(rng, i + 1))
    var = [c for c in cs if c['kind'] == 'varying']
    ops = []
    for _ in range(rng.randrange(2, 16)):
        r = rng.random()
        if var and rng.random() < 0.15:
            c = rng.choice(var)
            ops.append(['m', c['id'], rng.randrange(len(c['phases']))])
        elif r < 0.6:
            ops.append(['r', rng.choice(cs)['id']])
        elif r < 0.8:
            ops.append(['u', rng.choice(cs)['id']])
        else:
            ops.append(['t', base.random_labels(rng)])
    return {'ad': rng.random() < 0.6, 'ti': base.random_labels(rng), 'collectors': cs, 'ops': ops}


def name_universe(prep, regs):
    u = ['nope', 'x', 'target', 'target_info', 'x_total']
    for cid in regs:
        for e in prep.enc_fams[cid]:
            f = e.split(':')
            u.append(bytes.fromhex(f[0]).decode())
            if f[4] != '_':
                u += [bytes.fromhex(s.split('/')[0]).decode() for s in f[4].split('+')]
        u += prep.claims(cid)
    out = []
    for n in u:
        if n not in out:
            out.append(n)
    return out


def random_namesets(rng, universe, n):
    sets = [[], ['target_info']]
    for _ in range(n):
        k = rng.choice([1, 1, 2, 2, 3, 4, 6])
        sets.append(sorted(set(rng.choice(universe) for _ in range(k))))
    return sets


FIXED = [
    # every subset of 8 names: family names, sample names, a claimed-but-not-emitted name, unknown, target_info
    ({'ad': False, 'ti': {'a': 'b'}, 'collectors': [
        {'id': 1, 'kind': 'custom', 'describe': [['x', 'counter'], ['g_sec', 'gauge']],
         'families': [fam_with_unit(100, 'x', 'counter', ''), fam_with_unit(110, 'g', 'gauge', 'sec')]},
        {'id': 2, 'kind': 'custom', 'describe': [['h_bytes', 'histogram']], 'families': [fam_with_unit(200, 'h', 'histogram', 'bytes')]},
        {'id': 3, 'kind': 'builtin', 'cls': 'Summary', 'name': 's'},
        {'id': 4, 'kind': 'custom', 'describe': [['x_total', 'gauge']], 'families': [fam_with_unit(400, 'x_total', 'gauge', '')]}],
      'ops': [['r', 1], ['r', 4], ['r', 2], ['r', 3]]},
     ['x', 'x_total', 'x_created', 'g_sec', 'h_bytes_bucket', 'h_bytes', 'target_info', 'nope']),
    ({'ad': True, 'ti': None, 'collectors': [
        {'id': 1, 'kind': 'builtin', 'cls': 'Info', 'name': 'target'},
        {'id': 2, 'kind': 'custom', 'describe': None,
         'families': [fam_with_unit(200, 'e', 'stateset', ''), fam_with_unit(210, 'gh', 'gaugehistogram', 'sec'),
                      fam_with_unit(220, 'u', 'unknown', 'bytes')]},
        {'id': 3, 'kind': 'builtin', 'cls': 'Gauge', 'name': 'g', 'unit': 'sec'}],
      'ops': [['r', 1], ['r', 2], ['t', {'a': 'b'}], ['r', 3], ['u', 3], ['r', 3]]},
     ['target_info', 'target', 'e', 'gh_sec_bucket', 'gh_sec_gsum', 'u_bytes', 'g_sec', 'gh_sec']),
]


KEPT_CORPUS = [
    # describe() -> []: claims nothing (auto_describe on or off), so a restricted registry never selects it — the class of the
    # known finding C07:undescribed-collector-not-restrictable — and it never blocks the collector that does claim x
    {'ad': True, 'ti': None, 'collectors': [
        {'id': 1, 'kind': 'custom', 'describe': [], 'families': [fam_with_unit(100, 'x', 'counter', '')]},
        {'id': 2, 'kind': 'custom', 'describe': [['x', 'counter']], 'families': [fam_with_unit(200, 'x', 'counter', '')]}],
     'ops': [['r', 1], ['r', 2], ['u', 2], ['r', 2]], 'watch': [[1, ['x_total']]], 'namesets': [['x_total'], ['x']]},
    # a collector whose families change while it is registered (a family per attached device); once unregistered NOTHING of
    # it may be served or called, not even through a name only its registration-time description had
    {'ad': True, 'ti': None, 'collectors': [
        {'id': 1, 'kind': 'varying', 'phases': [
            {'describe': None, 'families': [fam_with_unit(100, 'dev_a', 'gauge', ''), fam_with_unit(110, 'dev_b', 'gauge', '')]},
            {'describe': None, 'families': [fam_with_unit(100, 'dev_a', 'gauge', '')]}]},
        {'id': 2, 'kind': 'custom', 'describe': [['g', 'gauge']], 'families': [fam_with_unit(200, 'g', 'gauge', '')]}],
     'ops': [['r', 1], ['r', 2], ['m', 1, 1], ['u', 1], ['r', 2]],
     'watch': [[1, ['dev_b']], [1, ['dev_a', 'dev_b', 'g']]], 'namesets': [['dev_b'], ['dev_a'], ['dev_a', 'dev_b']]},
    # families that have no samples to begin with must be omitted like any family left empty: a labelled Counter and a
    # labelled Histogram without children, a custom collector with an empty family next to a non-empty one
    {'ad': False, 'ti': None, 'collectors': [
        {'id': 1, 'kind': 'builtin', 'cls': 'Counter', 'name': 'c', 'labels': ['l']},
        {'id': 2, 'kind': 'builtin', 'cls': 'Histogram', 'name': 'h', 'labels': ['l'], 'unit': 'sec'},
        {'id': 3, 'kind': 'custom', 'describe': [['e', 'gauge'], ['g', 'gauge']],
         'families': [fam_with_unit(300, 'e', 'gauge', '', empty=True), fam_with_unit(310, 'g', 'gauge', '')]}],
     'ops': [['r', 1], ['r', 2], ['r', 3]], 'watch': [[1, ['c_total', 'g']]],
     'namesets': [['c_total'], ['c'], ['h_sec_bucket', 'h_sec'], ['g'], ['e'], ['e', 'g', 'c_created']]},
    # the known finding: no describe(), auto_describe off -> claims nothing -> restricted_registry(['x']) cannot find it
    {'ad': False, 'ti': None, 'collectors': [
        {'id': 1, 'kind': 'custom', 'describe': None, 'families': [fam_with_unit(100, 'x', 'gauge', '')]}],
     'ops': [['r', 1]], 'watch': [], 'namesets': [['x']]},
    # one long-lived restricted registry, collected, then a collector it matched is unregistered, collected again
    {'ad': False, 'ti': None, 'collectors': [
        {'id': 1, 'kind': 'custom', 'describe': [['x', 'counter']], 'families': [fam_with_unit(100, 'x', 'counter', '')]},
        {'id': 2, 'kind': 'custom', 'describe': [['y_sec', 'gauge']], 'families': [fam_with_unit(200, 'y', 'gauge', 'sec')]}],
     'ops': [['r', 1], ['r', 2], ['u', 1], ['u', 2], ['r', 1], ['t', {'a': 'b'}], ['t', None]],
     'watch': [[0, ['x_total']], [1, ['x_total', 'y_sec']], [2, ['y_sec', 'target_info']], [3, ['x_total', 'x_created']]]},
]


CONTAINERS = ['list', 'tuple', 'set', 'frozenset', 'dict-keys', 'generator', 'iter(list)', 'map(str, list)',
              'list-with-duplicates', 'filter-object']


def make_container(kind, names):
    """the name selection as the API may receive it (`Iterable[str]`), incl. one-shot iterables"""
    names = list(names)
    if kind == 'list':
        return list(names)
    if kind == 'tuple':
        return tuple(names)
    if kind == 'set':
        return set(names)
    if kind == 'frozenset':
        return frozenset(names)
    if kind == 'dict-keys':
        return dict.fromkeys(names).keys()
    if kind == 'generator':
        return (n for n in names)
    if kind == 'iter(list)':
        return iter(names)
    if kind == 'map(str, list)':
        return map(str, names)
    if kind == 'list-with-duplicates':
        return names + names[::-1]
    if kind == 'filter-object':
        return filter(None, names + [''])
    raise ValueError(kind)


def parse_fam(e):
    f = e.split(':')
    return f[:4], ([] if f[4] == '_' else f[4].split('+'))


def filt(enc_fams, names):
    """the filter of the statement on encoded families"""
    out = []
    for e in enc_fams:
        head, ss = parse_fam(e)
        kept = [s for s in ss if bytes.fromhex(s.split('/')[0]).decode() in names]
        if kept:
            out.append(':'.join(head + ['+'.join(kept)]))
    return out


def show(e):
    """readable form of an encoded family: (name, type, help, unit, sample names)"""
    if isinstance(e, list):
        return [show(x) for x in e]
    head, ss = parse_fam(e)
    return (bytes.fromhex(head[0]).decode(), base.TYPES[int(head[1])], bytes.fromhex(head[2]).decode(),
            bytes.fromhex(head[3]).decode(), [bytes.fromhex(x.split('/')[0]).decode() for x in ss])


def strip_unit(e):
    f = e.split(':')
    f[3] = ''
    return ':'.join(f)


def ti_family_ok(e, ti):
    head, ss = parse_fam(e)
    return (head[0] == base.hexs('target') and head[1] == str(base.TYPES.index('info')) and head[3] == ''
            and ss == ['%s/t%s' % (base.hexs('target_info'), base.enc_labels(ti))])


class Runner:
    def __init__(self, ctx):
        self.ctx = ctx
        self.pending = []
        self.reported = {}

    def fail(self, sig, what, case):
        n = self.reported.get(sig, 0)
        self.reported[sig] = n + 1
        self.ctx.count('oracle-' + sig)
        if n < MAX_REPORTS_PER_SIG:
            self.ctx.fail(sig, what, case)

    def query(self, prep, case, rr, names, regs, ti, full, covers, exact_ok, kept=None, container='list'):
        """collect through the restricted-registry object `rr` NOW and evaluate the oracle against the CURRENT full
        collection `full` / CURRENT registered collectors `regs`.  `kept` = (made after k calls, queried after j calls)
        for a long-lived object, None for one made for this query.  Returns (families, calls, expected filter) or None."""
        ctx = self.ctx
        ns = set(names)
        if kept is None:
            rcase = dict(case, namesets=[sorted(ns)], watch=[], container=container)
            where = 'names %r passed as %s' % (sorted(ns), container)
        else:
            rcase = dict(case, ops=case['ops'][:kept[1]], namesets=[], watch=[[kept[0], sorted(ns)]], container=container)
            where = ('names %r passed as %s, restricted registry made after %d call(s) and collected again after %d call(s) [%s]'
                     % (sorted(ns), container, kept[0], kept[1], ' '.join(map(base.enc_op, rcase['ops']))))
        del prep.log[:]
        try:
            res = [prep.enc_family(m) for m in rr.collect()]
        except Exception as e:  # noqa
            self.fail('C07:restricted-raises', '%s: collect() raised %s' % (where, type(e).__name__), rcase)
            return None
        calls = list(prep.log)
        full_ti = full[:1] if ti else []
        expected = filt(full, ns)
        proper = bool(res) and len(expected) < len(full)
        ctx.case(nontrivial_key=hash((tuple(full), tuple(sorted(ns)), kept is not None)) if proper else None,
                 sample={'registered': regs, 'target_info': ti, 'names': sorted(ns), 'kept_object': kept,
                         'full': [bytes.fromhex(e.split(':')[0]).decode() for e in full],
                         'restricted': [bytes.fromhex(e.split(':')[0]).decode() for e in res], 'calls': calls})
        ctx.count('nameset-size-%d' % min(len(ns), 8) if kept is None else 'kept-object-queries')
        ctx.count('names-passed-as-' + container)
        # calls only on (current) claimants
        claimants = [cid for cid in regs if set(prep.claims(cid)) & ns]
        extra = [c for c in calls if c not in claimants]
        if extra or len(set(calls)) != len(calls):
            self.fail('C07:restricted-calls-non-claimant', '%s: collect() invoked on %r, claimants are %r'
                      % (where, calls, claimants), rcase)
        if not exact_ok:
            return res, calls, expected
        A, E = sorted(res), sorted(expected)
        if A == E:
            return res, calls, expected
        if not covers:
            # Some registered collector emits a sample under a name it does not claim (no describe() with auto_describe off,
            # or a describe() that under-reports).  The registry cannot find it through that name: known finding.  The
            # signature is used ONLY when that explains the whole difference: the result must be the filter over the
            # collectors that claim a listed name, and every sample missing from it must bear a name its collector does
            # not claim.
            E3 = list(filt(full_ti, ns))
            hidden = []
            for cid in regs:
                mine = set(prep.claims(cid))
                if mine & ns:
                    E3 += filt(prep.enc_fams[cid], ns)
                else:
                    lost = [s.name for m in prep.fams[cid] for s in m.samples if s.name in ns]
                    if lost:
                        if all(n not in mine for n in lost):
                            hidden.append((cid, sorted(set(lost))))
                        else:
                            hidden = None
                            break
            if hidden and A == sorted(E3):
                self.fail(SIG_UNDESCRIBED, '%s: collector(s) %r emit samples under names they do not claim (no describe() with '
                          'auto_describe off, or describe() under-reports), so the registry cannot select them: restricted '
                          'collect yields %r, the filter of the full collection is %r'
                          % (where, hidden, show(A), show(E)), rcase)
                return res, calls, expected
        if sorted(map(strip_unit, A)) == sorted(map(strip_unit, E)):
            lost = [e for e in E if e not in A]
            self.fail(SIG_F5, '%s: restricted family differs from the full collection only in its unit: expected %r, got %r'
                      % (where, show(lost[:2]), show([a for a in A if a not in E][:2])), rcase)
            return res, calls, expected
        explained = False
        if 'target_info' in ns:
            E2 = list(filt(full_ti, ns))
            skipped = []
            for cid in regs:
                emits = any(s.name == 'target_info' for m in prep.fams[cid] for s in m.samples)
                if emits and not ((set(prep.claims(cid)) & ns) - {'target_info'}):
                    skipped.append(cid)
                    continue
                E2 += filt(prep.enc_fams[cid], ns)
            if skipped and sorted(map(strip_unit, A)) == sorted(map(strip_unit, E2)):
                explained = True
                self.fail(SIG_F19, '%s: collector(s) %r claim target_info and emit a sample of that name, the full '
                          'collection has it, the restricted registry yields %r' % (where, skipped, show(A)), rcase)
                if sorted(A) != sorted(E2):
                    self.fail(SIG_F5, '%s: (besides the target_info case) unit lost' % where, rcase)
        if not explained:
            self.fail('C07:restricted-not-filter', '%s: restricted collect yields %r, the filter of the current full collection is %r'
                      % (where, show(A), show(E)), rcase)
        return res, calls, expected

    def pick_container(self, case):
        """how the name selection is handed to restricted_registry(): fixed by a replayed case, else drawn per query"""
        return case.get('container') or self.ctx.rng.choice(CONTAINERS)

    def one(self, case, namesets=None, n_random_sets=8, watch=None, n_random_watch=3):
        ctx = self.ctx
        prep = base.Prepared(case)
        all_ids = [c['id'] for c in case['collectors']]
        # ---- every built-in metric object covers its claims (theorem builtin_claims_cover, checked on the real classes)
        for c in case['collectors']:
            if c['kind'] == 'builtin':
                emitted = set(s.name for m in prep.fams[c['id']] for s in m.samples)
                if not emitted <= set(prep.claims(c['id'])):
                    self.fail('C07:builtin-claims-do-not-cover', '%s(%r) emits %s, claims %s' % (
                        c['cls'], c['name'], sorted(emitted), sorted(set(prep.claims(c['id'])))), dict(case, namesets=[]))
                ctx.count('builtin-cover-checked-' + c['cls'])
        # ---- kept restricted-registry objects: made after k calls, collected after every later call
        if watch is None:
            watch = case.get('watch')
        if watch is None:
            uni = name_universe(prep, all_ids)
            watch = []
            for _ in range(n_random_watch):
                k = ctx.rng.randrange(0, len(case['ops']) + 1)
                kk = ctx.rng.choice([1, 1, 2, 3, 5])
                watch.append([k, sorted(set(ctx.rng.choice(uni) for _ in range(kk)))])
        watch = sorted(([k, list(ns)] for k, ns in watch), key=lambda w: w[0])
        st = {'regs': [], 'ti': case['ti'], 'exact_ok': True, 'covers': True, 'full': []}
        kept = []          # [k, names, object, results per state]

        def after_step(j, op, err, reg, snap):
            # -- the reference registration list, driven by the calls and whether they raised
            if op is not None and err == 'ok':
                if op[0] == 'r' and op[1] not in st['regs']:
                    st['regs'] = st['regs'] + [op[1]]
                elif op[0] == 'u':
                    st['regs'] = [c for c in st['regs'] if c != op[1]]
                elif op[0] == 't':
                    st['ti'] = op[1]
            regs, ti = st['regs'], st['ti']
            # -- collect is complete and exact, after every call
            want = [e for cid in regs for e in prep.enc_fams[cid]]
            got = snap[0]
            bad = None
            if ti:
                if not got or not ti_family_ok(got[0], ti):
                    bad = 'target info %r is configured but collect() does not start with its family: %r' % (ti, got[:1])
                got = got[1:]
            if bad is None and got != want:
                bad = 'collect() yields %r, registered collectors %r yield %r' % (show(got), regs, show(want))
            if bad is None and snap[1] != regs:
                bad = 'collect() invoked collectors %r, registered in order %r' % (snap[1], regs)
            if bad and st['exact_ok']:
                st['exact_ok'] = False
                c = dict(case, ops=case['ops'][:j], namesets=[], watch=[])
                self.fail('C07:collect-not-exact', 'after %s: %s' % (' '.join(map(base.enc_op, c['ops'])), bad), c)
            st['full'] = snap[0]
            st['covers'] = all(set(s.name for m in prep.fams[cid] for s in m.samples) <= set(prep.claims(cid)) for cid in regs)
            # -- objects made now
            for k, ns in watch:
                if k == j:
                    kind = self.pick_container(case)
                    kept.append([k, ns, reg.restricted_registry(make_container(kind, ns)), [], kind])
            # -- every kept object must reflect the registry as it is NOW
            for w in kept:
                w[3].append(self.query(prep, case, w[2], w[1], regs, ti, st['full'], st['covers'], st['exact_ok'],
                                       kept=(w[0], j), container=w[4]))

        c06_fails = []
        obs, reg = base.run_history(prep, case['ops'], lambda sig, what, step: c06_fails.append(sig), after_step=after_step)
        for s in c06_fails:
            ctx.count('c06-oracle-' + s)
        regs, ti = st['regs'], st['ti']
        # ---- restricted registries made for the query, on the final registry
        if namesets is None:
            namesets = random_namesets(ctx.rng, name_universe(prep, regs), n_random_sets)
        ctx.count('registry-claims-cover' if st['covers'] else 'registry-claims-do-not-cover')
        results = []
        for names in namesets:
            kind = self.pick_container(case)
            results.append(self.query(prep, case, reg.restricted_registry(make_container(kind, names)), names, regs, ti,
                                      st['full'], st['covers'], st['exact_ok'], container=kind))
        if any(o[0] == 'm' for o in case['ops']):
            # the model treats a collector as a value; histories that mutate a collector are checked by the oracle only
            ctx.count('oracle-only-histories-with-mutating-collector')
            return
        wreq = [(w[0], w[1]) for w in kept]
        self.pending.append((dict(case, namesets=[sorted(set(n)) for n in namesets], watch=[[k, ns] for k, ns in wreq]),
                             prep.request(namesets=namesets, watch=wreq), obs, results, [w[3] for w in kept]))
        if len(self.pending) >= 500:
            self.flush()

    def flush(self):
        ctx = self.ctx
        if not self.pending:
            return
        replies = ctx.driver.run([p[1] for p in self.pending])
        if replies is not None:
            for (case, _, obs, results, wres), rep in zip(self.pending, replies):
                ctx.traces += 1
                why = base.compare_steps(rep, obs) or compare_restricted(rep, results) or compare_kept(rep, wres)
                if why:
                    ctx.diverge(why, case)
        self.pending = []


# ------------------------------------------------------------------------------------------------ re-entrant collectors
def reentrant_case(rng):
    """a registry of plain gauge collectors c0..ck plus one collector R whose collect() — when armed — registers or
    unregisters another collector, unregisters itself, or sets target info (single-threaded, deterministic)"""
    k = rng.randrange(2, 6)
    names = ['c%d' % i for i in range(k)]
    registered = [n for n in names if rng.random() < 0.7]
    pos = rng.randrange(0, len(registered) + 1)
    order = registered[:pos] + ['R'] + registered[pos:]
    unregistered = [n for n in names if n not in registered]
    acts = [['unregister', 'R'], ['target_info', {'a': 'b'}]]
    acts += [['unregister', n] for n in registered]
    acts += [['register', n] for n in unregistered]
    return {'kind': 'reentrant', 'names': names, 'order': order, 'action': rng.choice(acts),
            'restricted': rng.random() < 0.4, 'ti': rng.choice([None, {'z': '1'}])}


def run_reentrant(runner, case):
    from prometheus_client.registry import CollectorRegistry
    from prometheus_client.metrics_core import GaugeMetricFamily
    ctx = runner.ctx
    log = []

    class Plain:
        def __init__(self, name):
            self.name = name

        def describe(self):
            return [GaugeMetricFamily(self.name, 'h')]

        def collect(self):
            log.append(self.name)
            return [GaugeMetricFamily(self.name, 'h', value=1)]

    class Reentrant(Plain):
        armed = False

        def collect(self):
            out = Plain.collect(self)
            if self.armed:
                self.armed = False
                kind, arg = case['action']
                if kind == 'register':
                    reg.register(objs[arg])
                elif kind == 'unregister':
                    reg.unregister(objs[arg])
                else:
                    reg.set_target_info(arg)
            return out

    reg = CollectorRegistry(auto_describe=False, target_info=case['ti'])
    objs = {n: Plain(n) for n in case['names']}
    objs['R'] = Reentrant('R')
    for n in case['order']:
        reg.register(objs[n])
    before = list(case['order'])
    ti_before = case['ti']
    kind, arg = case['action']
    after = list(before)
    ti_after = ti_before
    if kind == 'register':
        after.append(arg)
    elif kind == 'unregister':
        after.remove(arg)
    else:
        ti_after = arg
    sel = None
    if case['restricted']:
        sel = sorted(set(['R'] + ([arg] if kind != 'target_info' else []) + case['names'][:1]))
    objs['R'].armed = True
    del log[:]
    what = 'collectors registered in order %r, collect() of R does %s(%r)%s' % (
        before, kind, arg, '' if sel is None else ', through restricted_registry(%r)' % sel)
    ctx.case(nontrivial_key=hash(('reentrant', tuple(before), kind, str(arg), case['restricted'])),
             sample={'reentrant': what})
    ctx.count('reentrant-%s%s' % (kind, '-restricted' if sel else ''))
    try:
        got = [m.name for m in (reg.restricted_registry(sel) if sel else reg).collect()]
    except Exception as e:  # noqa
        runner.fail('C07:collect-reentrant-raises', '%s: collect() raised %s: %s' % (what, type(e).__name__, e), case)
        return
    # snapshot semantics: the collectors registered (and target info configured) when collect() took its snapshot
    if sel is None:
        want = (['target'] if ti_before else []) + before
        ok = got == want and log == before
    else:
        want = [n for n in before if n in sel]
        ok = sorted(got) == sorted(want) and sorted(log) == sorted(want)
    if not ok:
        runner.fail('C07:collect-reentrant-not-snapshot', '%s: yielded %r (called %r), the collectors registered at the snapshot '
                    'are %r' % (what, got, log, want), case)
        return
    # and the next full collection follows the registry as the re-entrant call left it
    del log[:]
    got2 = [m.name for m in reg.collect()]
    want2 = (['target'] if ti_after else []) + after
    if got2 != want2 or log != after:
        runner.fail('C07:collect-not-exact', '%s; the NEXT collect() yields %r (called %r), registered now: %r'
                    % (what, got2, log, want2), case)


def compare_section(sec, r):
    res, calls, expected = r
    m_f, m_c, m_s = sec.split('!')
    mf = [] if m_f == '.' else m_f.split(',')
    mc = [] if m_c == '.' else [c for c in m_c.split(',') if c != 'E']     # E = the _EmptyCollector of target info
    ms = [] if m_s == '.' else m_s.split(',')
    if sorted(mf) != sorted(res):
        return 'restricted families model %r, implementation %r' % (sorted(mf), sorted(res))
    if sorted(mc) != sorted(str(c) for c in calls):
        return 'restricted collect() calls model %r, implementation %r' % (sorted(mc), sorted(calls))
    if ms != expected:
        return 'spec filter (driver) %r, harness filter of the real full collection %r' % (ms, expected)
    return None


def compare_kept(reply, wres):
    parts = reply.split(' ')
    if len(parts) != 4:
        return 'driver reply has no kept-object part: %r' % reply[:120]
    ws = [] if parts[3] == '.' else parts[3].split(';')
    if len(ws) != len(wres):
        return 'driver returned %d kept objects for %d' % (len(ws), len(wres))
    for i, (w, rs) in enumerate(zip(ws, wres)):
        secs = [] if w == '.' else w.split('|')
        if len(secs) != len(rs):
            return 'kept object %d: driver has %d states, harness %d' % (i, len(secs), len(rs))
        for j, (sec, r) in enumerate(zip(secs, rs)):
            if r is None:
                continue
            why = compare_section(sec, r)
            if why:
                return 'kept object %d, %d-th collection through it: %s' % (i, j, why)
    return None


def compare_restricted(reply, results):
    parts = reply.split(' ')
    secs = [] if parts[2] == '.' else parts[2].split(';')
    if len(secs) != len(results):
        return 'driver returned %d restricted sections for %d name sets' % (len(secs), len(results))
    for i, (sec, r) in enumerate(zip(secs, results)):
        if r is None:
            continue
        why = compare_section(sec, r)
        if why:
            return 'name set %d: %s' % (i, why)
    return None


def run(ctx):
    ctx.rule = ('registries reached by C06 histories (2-15 calls incl. rejected registrations, unregistrations, target info '
                'None/{}/labels, auto_describe on/off) over custom collectors with 1-3 families of all 8 types, units, float/'
                'Timestamp timestamps, exemplars, repeated sample names (buckets), describe present/absent/disagreeing, '
                'samples outside the claims, and built-in Counter/Gauge/Summary/Histogram/Info/Enum; name sets: two fixed '
                'registries x all 256 subsets of 8 names (family names, sample names, claimed-but-not-emitted, unknown, '
                'target_info), plus random subsets of sample names + family names + claimed names + unknown names; besides the '
                'objects made per query on the final registry, 3 restricted-registry objects per history are made after a '
                'random number of calls, kept, and collected through after every later call. An '
                'evaluation is one (registry, name set); non-trivial when the restricted result is non-empty and a proper '
                'part of the full collection; distinct by (full collection, name set)')
    rn = Runner(ctx)
    for case in KEPT_CORPUS:
        rn.one(case, namesets=case.get('namesets'), n_random_sets=2)
    for case, names in FIXED:
        subsets = [list(s) for k in range(len(names) + 1) for s in itertools.combinations(names, k)]
        rn.one(case, namesets=subsets)
    ctx.extra['exhaustive_block'] = {'registries': len(FIXED), 'names': 8, 'subsets_each': 256}
    for _ in range(300 if ctx.tier == 'quick' else 3000):
        run_reentrant(rn, reentrant_case(ctx.rng))
    n = 500 if ctx.tier == 'quick' else 8000
    if ctx.broken:
        n *= 3
    for _ in range(n):
        rn.one(random_registry_case(ctx.rng))
    rn.flush()
    from props import c07fam; c07fam.run(ctx)
    from props import c07builtin; c07builtin.run(ctx)


def replay(ctx, case):
    c = case.get('case', case)
    if c.get('fam'):
        from props import c07fam; return c07fam.replay(ctx, case)
    if c.get('builtin'):
        from props import c07builtin; return c07builtin.replay(ctx, case)
    rn = Runner(ctx)
    if c.get('kind') == 'reentrant':
        run_reentrant(rn, c)
        print('re-entrant case:', c)
        for f in ctx.failures:
            print('REPLAY-FAIL', f['sig'], f['what'])
        return 1 if ctx.failures else 0
    rn.one(c, namesets=c.get('namesets') or [], watch=c.get('watch') or [])
    rn.flush()
    print('history:', ' '.join(map(base.enc_op, c['ops'])), '| name sets:', c.get('namesets'), '| kept objects (made after k calls, names):', c.get('watch'), '| names passed as:', c.get('container'))
    for f in ctx.failures:
        print('REPLAY-FAIL', f['sig'], f['what'])
    for d in ctx.divergences:
        print('REPLAY-DIVERGE', d['what'])
    return 1 if ctx.failures or ctx.divergences else 0
