"""C07 — collect is complete and exact; a restricted registry is a pure filter.

Registries are produced by C06 histories (so failed registrations, unregistrations and target-info changes are part of
how they came about) over collectors holding families of every type, with units, float / Timestamp timestamps and
exemplars.  For every registry a batch of name sets (sample names, family names, claimed-but-never-emitted names,
unknown names, target_info) is tried.

Oracle on the real code (independent of the Lean model):
  * after every call of the history, collect() == [target-info family if configured] + the families of the collectors
    registered so far, in registration order (reference list driven by the calls and whether they raised)
  * restricted_registry(names).collect() is, as a multiset, the filter of the full collection by sample name with
    family name, type, help and unit unchanged and empty families dropped  (when every registered collector's sample
    names are among the names it claims — otherwise the registry cannot know the collector, and only T2 applies)
  * collect() is invoked only on collectors claiming one of the names, at most once each
T2: the same history + name sets go to the driver (module "c06"); restricted families, call sets and the spec filter are
compared.
"""
import itertools

import lib
from props import c06 as base

SIG_F5 = 'C07:restricted-drops-unit'
SIG_F19 = 'C07:restricted-target-info-skips-claimant'
MAX_REPORTS_PER_SIG = 3
UNITS = ['', '', '', 'sec', 'bytes']


def fam_with_unit(cid_base, name, typ, unit, extra_sample=None):
    full = name + ('_' + unit if unit else '')
    snames = [full + s for s in base.SUFFIXES[typ]] or [full]
    if typ == 'summary' or typ == 'stateset':
        snames = [full] + [s for s in snames if s != full]
    if typ in ('histogram', 'gaugehistogram'):
        snames = [full + '_bucket'] + snames          # two buckets: same sample name twice
    if extra_sample:
        snames.append(extra_sample)
    return {'name': full, 'type': typ, 'help': 'help of ' + full, 'unit': unit,
            'samples': [[sn, cid_base + i] for i, sn in enumerate(snames)]}


def rich_collector(rng, cid):
    r = rng.random()
    if r < 0.2:
        cls, name = rng.choice(base.BUILTINS)
        c = {'id': cid, 'kind': 'builtin', 'cls': cls, 'name': name}
        if cls in ('Gauge', 'Summary', 'Histogram') and rng.random() < 0.5:
            c['unit'] = rng.choice(['sec', 'bytes'])
        return c
    k = rng.choice([1, 1, 2, 2, 3])
    fams = []
    for j in range(k):
        extra = None
        if rng.random() < 0.04:
            extra = rng.choice(['weird', 'x', 'target_info'])      # a sample the collector does not claim
        fams.append(fam_with_unit(cid * 100 + j * 10, rng.choice(base.ALPHABET), rng.choice(base.TYPES),
                                  rng.choice(UNITS), extra))
    r = rng.random()
    if r < 0.82:
        d = [[f['name'], f['type']] for f in fams]
    elif r < 0.94:
        d = None
    else:
        d = [[rng.choice(base.ALPHABET), rng.choice(base.TYPES)]]
    return {'id': cid, 'kind': 'custom', 'describe': d, 'families': fams}


def random_registry_case(rng):
    k = rng.randrange(2, 8)
    cs = []
    for i in range(k):
        cs.append(rich_collector(rng, i + 1))
    ops = []
    for _ in range(rng.randrange(2, 16)):
        r = rng.random()
        if r < 0.6:
            ops.append(['r', rng.choice(cs)['id']])
        elif r < 0.8:
            ops.append(['u', rng.choice(cs)['id']])
        else:
            ops.append(['t', base.random_labels(rng)])
    return {'ad': rng.random() < 0.6, 'ti': base.random_labels(rng), 'collectors': cs, 'ops': ops}


def name_universe(prep, regs):
    u = ['nope', 'x', 'target', 'target_info', 'x_total']
    for cid in regs:
        for e in prep.enc_fams[cid]:
            f = e.split(':')
            u.append(bytes.fromhex(f[0]).decode())
            if f[4] != '_':
                u += [bytes.fromhex(s.split('/')[0]).decode() for s in f[4].split('+')]
        u += prep.claims(cid)
    out = []
    for n in u:
        if n not in out:
            out.append(n)
    return out


def random_namesets(rng, universe, n):
    sets = [[], ['target_info']]
    for _ in range(n):
        k = rng.choice([1, 1, 2, 2, 3, 4, 6])
        sets.append(sorted(set(rng.choice(universe) for _ in range(k))))
    return sets


FIXED = [
    # every subset of 8 names: family names, sample names, a claimed-but-not-emitted name, unknown, target_info
    ({'ad': False, 'ti': {'a': 'b'}, 'collectors': [
        {'id': 1, 'kind': 'custom', 'describe': [['x', 'counter'], ['g_sec', 'gauge']],
         'families': [fam_with_unit(100, 'x', 'counter', ''), fam_with_unit(110, 'g', 'gauge', 'sec')]},
        {'id': 2, 'kind': 'custom', 'describe': [['h_bytes', 'histogram']], 'families': [fam_with_unit(200, 'h', 'histogram', 'bytes')]},
        {'id': 3, 'kind': 'builtin', 'cls': 'Summary', 'name': 's'},
        {'id': 4, 'kind': 'custom', 'describe': [['x_total', 'gauge']], 'families': [fam_with_unit(400, 'x_total', 'gauge', '')]}],
      'ops': [['r', 1], ['r', 4], ['r', 2], ['r', 3]]},
     ['x', 'x_total', 'x_created', 'g_sec', 'h_bytes_bucket', 'h_bytes', 'target_info', 'nope']),
    ({'ad': True, 'ti': None, 'collectors': [
        {'id': 1, 'kind': 'builtin', 'cls': 'Info', 'name': 'target'},
        {'id': 2, 'kind': 'custom', 'describe': None,
         'families': [fam_with_unit(200, 'e', 'stateset', ''), fam_with_unit(210, 'gh', 'gaugehistogram', 'sec'),
                      fam_with_unit(220, 'u', 'unknown', 'bytes')]},
        {'id': 3, 'kind': 'builtin', 'cls': 'Gauge', 'name': 'g', 'unit': 'sec'}],
      'ops': [['r', 1], ['r', 2], ['t', {'a': 'b'}], ['r', 3], ['u', 3], ['r', 3]]},
     ['target_info', 'target', 'e', 'gh_sec_bucket', 'gh_sec_gsum', 'u_bytes', 'g_sec', 'gh_sec']),
]


def parse_fam(e):
    f = e.split(':')
    return f[:4], ([] if f[4] == '_' else f[4].split('+'))


def filt(enc_fams, names):
    """the filter of the statement on encoded families"""
    out = []
    for e in enc_fams:
        head, ss = parse_fam(e)
        kept = [s for s in ss if bytes.fromhex(s.split('/')[0]).decode() in names]
        if kept:
            out.append(':'.join(head + ['+'.join(kept)]))
    return out


def show(e):
    """readable form of an encoded family: (name, type, help, unit, sample names)"""
    if isinstance(e, list):
        return [show(x) for x in e]
    head, ss = parse_fam(e)
    return (bytes.fromhex(head[0]).decode(), base.TYPES[int(head[1])], bytes.fromhex(head[2]).decode(),
            bytes.fromhex(head[3]).decode(), [bytes.fromhex(x.split('/')[0]).decode() for x in ss])


def strip_unit(e):
    f = e.split(':')
    f[3] = ''
    return ':'.join(f)


def ti_family_ok(e, ti):
    head, ss = parse_fam(e)
    return (head[0] == base.hexs('target') and head[1] == str(base.TYPES.index('info')) and head[3] == ''
            and ss == ['%s/t%s' % (base.hexs('target_info'), base.enc_labels(ti))])


class Runner:
    def __init__(self, ctx):
        self.ctx = ctx
        self.pending = []
        self.reported = {}

    def fail(self, sig, what, case):
        n = self.reported.get(sig, 0)
        self.reported[sig] = n + 1
        self.ctx.count('oracle-' + sig)
        if n < MAX_REPORTS_PER_SIG:
            self.ctx.fail(sig, what, case)

    def one(self, case, namesets=None, n_random_sets=8):
        ctx = self.ctx
        prep = base.Prepared(case)
        c06_fails = []
        obs, reg = base.run_history(prep, case['ops'], lambda sig, what, step: c06_fails.append(sig))
        for s in c06_fails:
            ctx.count('c06-oracle-' + s)
        # ---- every built-in metric object covers its claims (theorem builtin_claims_cover, checked on the real classes)
        for c in case['collectors']:
            if c['kind'] == 'builtin':
                emitted = set(s.name for m in prep.fams[c['id']] for s in m.samples)
                if not emitted <= set(prep.claims(c['id'])):
                    self.fail('C07:builtin-claims-do-not-cover', '%s(%r) emits %s, claims %s' % (
                        c['cls'], c['name'], sorted(emitted), sorted(set(prep.claims(c['id'])))), dict(case, namesets=[]))
                ctx.count('builtin-cover-checked-' + c['cls'])
        # ---- collect is complete and exact, after every call
        regs, ti = [], case['ti']
        exact_ok = True
        for i, (op, o) in enumerate(zip(case['ops'], obs)):
            if o.err == 'ok':
                if op[0] == 'r' and op[1] not in regs:
                    regs.append(op[1])
                elif op[0] == 'u':
                    regs = [c for c in regs if c != op[1]]
                elif op[0] == 't':
                    ti = op[1]
            want = [e for cid in regs for e in prep.enc_fams[cid]]
            got = o.fams
            bad = None
            if ti:
                if not got or not ti_family_ok(got[0], ti):
                    bad = 'target info %r is configured but collect() does not start with its family: %r' % (ti, got[:1])
                got = got[1:]
            if bad is None and got != want:
                bad = 'collect() yields %r, registered collectors %r yield %r' % (show(got), regs, show(want))
            if bad is None and o.calls != regs:
                bad = 'collect() invoked collectors %r, registered in order %r' % (o.calls, regs)
            if bad and exact_ok:
                exact_ok = False
                c = dict(case, ops=case['ops'][:i + 1], namesets=[])
                self.fail('C07:collect-not-exact', 'after %s: %s' % (' '.join(map(base.enc_op, c['ops'])), bad), c)
        # ---- restricted registry
        universe = name_universe(prep, regs)
        if namesets is None:
            namesets = random_namesets(ctx.rng, universe, n_random_sets)
        full = obs[-1].fams if obs else [prep.enc_family(m) for m in reg.collect()]
        full_ti = full[:1] if ti else []
        covers = all(set(s.name for m in prep.fams[cid] for s in m.samples) <= set(prep.claims(cid)) for cid in regs)
        ctx.count('registry-claims-cover' if covers else 'registry-claims-do-not-cover')
        results = []
        for names in namesets:
            ns = set(names)
            del prep.log[:]
            try:
                res = [prep.enc_family(m) for m in reg.restricted_registry(list(names)).collect()]
            except Exception as e:  # noqa
                self.fail('C07:restricted-raises', 'restricted_registry(%r).collect() raised %s' % (names, type(e).__name__),
                          dict(case, namesets=[names]))
                results.append(None)
                continue
            calls = list(prep.log)
            expected = filt(full, ns)
            results.append((res, calls, expected))
            proper = bool(res) and len(expected) < len(full)
            ctx.case(nontrivial_key=hash((tuple(full), tuple(sorted(ns)))) if proper else None,
                     sample={'registered': regs, 'target_info': ti, 'names': sorted(ns),
                             'full': [bytes.fromhex(e.split(':')[0]).decode() for e in full],
                             'restricted': [bytes.fromhex(e.split(':')[0]).decode() for e in res], 'calls': calls})
            ctx.count('nameset-size-%d' % min(len(ns), 8))
            rcase = dict(case, namesets=[sorted(ns)])
            # calls only on claimants
            claimants = [cid for cid in regs if set(prep.claims(cid)) & ns]
            extra = [c for c in calls if c not in claimants]
            if extra or len(set(calls)) != len(calls):
                self.fail('C07:restricted-calls-non-claimant', 'names %r: collect() invoked on %r, claimants are %r'
                          % (sorted(ns), calls, claimants), rcase)
            if not covers or not exact_ok:
                continue
            A, E = sorted(res), sorted(expected)
            if A == E:
                continue
            if sorted(map(strip_unit, A)) == sorted(map(strip_unit, E)):
                lost = [e for e in E if e not in A]
                self.fail(SIG_F5, 'names %r: restricted family differs from the full collection only in its unit: expected %r, got %r'
                          % (sorted(ns), show(lost[:2]), show([a for a in A if a not in E][:2])), rcase)
                continue
            explained = False
            if 'target_info' in ns:
                E2 = list(filt(full_ti, ns))
                skipped = []
                for cid in regs:
                    emits = any(s.name == 'target_info' for m in prep.fams[cid] for s in m.samples)
                    if emits and not ((set(prep.claims(cid)) & ns) - {'target_info'}):
                        skipped.append(cid)
                        continue
                    E2 += filt(prep.enc_fams[cid], ns)
                if skipped and sorted(map(strip_unit, A)) == sorted(map(strip_unit, E2)):
                    explained = True
                    self.fail(SIG_F19, 'names %r: collector(s) %r claim target_info and emit a sample of that name, the full '
                              'collection has it, the restricted registry yields %r' % (sorted(ns), skipped, show(A)), rcase)
                    if sorted(A) != sorted(E2):
                        self.fail(SIG_F5, 'names %r: (besides the target_info case) unit lost' % sorted(ns), rcase)
            if not explained:
                self.fail('C07:restricted-not-filter', 'names %r: restricted collect yields %r, the filter of the full collection is %r'
                          % (sorted(ns), show(A), show(E)), rcase)
        self.pending.append((dict(case, namesets=[sorted(set(n)) for n in namesets]), prep.request(namesets=namesets), obs, results))
        if len(self.pending) >= 500:
            self.flush()

    def flush(self):
        ctx = self.ctx
        if not self.pending:
            return
        replies = ctx.driver.run([p[1] for p in self.pending])
        if replies is not None:
            for (case, _, obs, results), rep in zip(self.pending, replies):
                ctx.traces += 1
                why = base.compare_steps(rep, obs) or compare_restricted(rep, results)
                if why:
                    ctx.diverge(why, case)
        self.pending = []


def compare_restricted(reply, results):
    parts = reply.split(' ')
    secs = [] if parts[2] == '.' else parts[2].split(';')
    if len(secs) != len(results):
        return 'driver returned %d restricted sections for %d name sets' % (len(secs), len(results))
    for i, (sec, r) in enumerate(zip(secs, results)):
        if r is None:
            continue
        res, calls, expected = r
        m_f, m_c, m_s = sec.split('!')
        mf = [] if m_f == '.' else m_f.split(',')
        mc = [] if m_c == '.' else [c for c in m_c.split(',') if c != 'E']     # E = the _EmptyCollector of target info
        ms = [] if m_s == '.' else m_s.split(',')
        if sorted(mf) != sorted(res):
            return 'name set %d: restricted families model %r, implementation %r' % (i, sorted(mf), sorted(res))
        if sorted(mc) != sorted(str(c) for c in calls):
            return 'name set %d: restricted collect() calls model %r, implementation %r' % (i, sorted(mc), sorted(calls))
        if ms != expected:
            return 'name set %d: spec filter (driver) %r, harness filter of the real full collection %r' % (i, ms, expected)
    return None


def run(ctx):
    ctx.rule = ('registries reached by C06 histories (2-15 calls incl. rejected registrations, unregistrations, target info '
                'None/{}/labels, auto_describe on/off) over custom collectors with 1-3 families of all 8 types, units, float/'
                'Timestamp timestamps, exemplars, repeated sample names (buckets), describe present/absent/disagreeing, '
                'samples outside the claims, and built-in Counter/Gauge/Summary/Histogram/Info/Enum; name sets: two fixed '
                'registries x all 256 subsets of 8 names (family names, sample names, claimed-but-not-emitted, unknown, '
                'target_info), plus random subsets of sample names + family names + claimed names + unknown names. An '
                'evaluation is one (registry, name set); non-trivial when the restricted result is non-empty and a proper '
                'part of the full collection; distinct by (full collection, name set)')
    rn = Runner(ctx)
    for case, names in FIXED:
        subsets = [list(s) for k in range(len(names) + 1) for s in itertools.combinations(names, k)]
        rn.one(case, namesets=subsets)
    ctx.extra['exhaustive_block'] = {'registries': len(FIXED), 'names': 8, 'subsets_each': 256}
    n = 500 if ctx.tier == 'quick' else 8000
    if ctx.broken:
        n *= 3
    for _ in range(n):
        rn.one(random_registry_case(ctx.rng))
    rn.flush()


def replay(ctx, case):
    c = case.get('case', case)
    rn = Runner(ctx)
    rn.one(c, namesets=c.get('namesets') or [])
    rn.flush()
    print('history:', ' '.join(map(base.enc_op, c['ops'])), '| name sets:', c.get('namesets'))
    for f in ctx.failures:
        print('REPLAY-FAIL', f['sig'], f['what'])
    for d in ctx.divergences:
        print('REPLAY-DIVERGE', d['what'])
    return 1 if ctx.failures or ctx.divergences else 0
