"""C11 — every intermediate on-disk state of the store is readable and a prefix state.

A history (same notation as C10: ['w', key, vbits, tbits] | ['r', key] | ['o']) of a fresh writer is run on the REAL
MmapedDict while its file effects are recorded: `open(…, 'a+b')` of an absent file ('C'), `f.truncate(n)` ('T', n) and every
slice assignment into the mapping ('S', pos, bytes) — through a recording subclass of mmap.mmap and a file-object proxy that
are patched into prometheus_client.mmap_dict for the duration of the history only.  The recording is checked to be complete
(replaying the effects gives the file the real run left behind) and is compared with the model's trace (`c10 cuts`).

For every cut k (the first k effects, k = 1..n) the file is materialised as gauge_all_777.db in a scratch multiprocess
directory next to a healthy counter_888.db, and the real code is run on it:
  (1) list(MmapedDict.read_all_values_from_file(path))
  (2) MultiProcessCollector(CollectorRegistry(), dir).collect()
  (3) MmapedDict(copy of the file): read_all_values(), write_value of a fresh key, read_all_values() again, close()
Oracle (independent of the model): none of them raises; what (1) and (3) read is the reference state after some prefix of the
operations completed at the cut, or — strictly inside an operation that creates a key — that state plus the new key at bit
pattern (0, 0); no unwritten key, no (value, ts) pair that was not written for its key; (2) contains the healthy file's sample.
Each cut is also compared with the model's columns (file, reader, reopen summary, classification).

Continuation: at every cut a NEW writer also opens a copy of the file and carries on with 1-3 operations over keys shorter
than, as long as and longer than the history's longest key (read_value of a new key included, which must create it at zero);
after every operation both readers and read_value must equal the spec run of the continuation started from the prefix state
the new writer found — so no value appears that neither the dead writer nor the continuation wrote (a writer that leaves the
value slot of a new entry unwritten shows up here: the slot lands on the orphaned entry of the killed writer).  The same
continuation runs in the model (`c10 cont`).

Second generation: at a sample of the cuts the new writer's own file effects are recorded while it continues (keys the
collector can parse) and every cut of THAT writer is materialised, read, collected and reopened again (crash, reopen,
continue, crash again); the oracle is the prefix-state oracle started from what the new writer found (`c10 gen2` in the model).

Vanishing files: a worker file is removed between the collector's glob and its read (prometheus_client.multiprocess.glob is
shimmed): a live-gauge file must be skipped (C11:vanished-live-gauge-fails-scrape otherwise); for other names the observed
FileNotFoundError is compared with the model's listing loop (`c10 listed`).

Two read() calls: the file reader's first read() sees the file at cut k1, its second at a later cut k2 (entries beyond one
page): no exception, exactly the keys published at k1, every value/timestamp held at k1 or k2 (C11:two-reads-*; `c10 read2`).

Collector output: at every cut the samples `collect()` exposes for the metrics of the worker file are compared with the
entries PUBLISHED in the cut file: no series that no published entry gives (histogram: `_bucket{le=b}` only for published
bounds, `_sum` only if published, `_count` derived from published buckets only), the values the published entries give,
and every published entry exposed (C11:collector-exposes-unwritten-series / -unwritten-value / collector-drops-published-series).
A dedicated stream uses the exact store operations REAL Histogram children perform (logged from the real metrics code in
multiprocess mode: sum, one bucket per bound in order, +Inf last, then observations) in a file named histogram_<pid>.db.

Error returns: the fallible file calls of the writer (`f.truncate`, `mmap.mmap`) are made to fail with OSError — every single
one of every history, consecutive ones, random sets; the caller catches the exception and the SAME writer object carries on
with the remaining operations.  After every operation the live file is read, collected and reopened: nothing raises, and what
is read is the reference state of the operations so far where each failed operation completed, left no trace, or left its new
key at zero (kind 'fault'; the ordinary signatures apply).

All keys of the histories are built with mmap_dict.mmap_key so that the collector can parse them (continuation keys are plain).

Thorough tier: forked writers run a long seeded history and are SIGKILLed at random instants; the same three observations and
the prefix-state oracle are applied to what they left behind.

Signatures: C11:zero-length-file (F11, repaired in /repo — an ordinary failure class now: the file exists but has length 0 and the
readers raise struct.error), C11:cut-unreadable,
C11:collect-raises, C11:healthy-sample-missing, C11:reopen-raises, C11:reopen-not-a-prefix-state, C11:reopen-write-lost,
C11:not-a-prefix-state, C11:unwritten-key, C11:unwritten-value, C11:continuation-raises, C11:continuation-unwritten-value, C11:continuation-unwritten-key, C11:continuation-mismatch,
C11:all-zero-file (the sized but still all-zero file must read as
empty and reopen with used = 8), C11:writer-raises (a plain history raised while being recorded).
"""
import builtins
import errno
import hashlib
import itertools
import mmap
import os
import random
import shutil
import signal
import struct
import tempfile
import time

import lib
from props import c10 as base

PAGE = mmap.PAGESIZE
SMALL = base.SMALL
fb, bf, kstr, triples_str, errname = base.fb, base.bf, base.kstr, base.triples_str, base.errname
short_ops, short_triples, short_op = base.short_ops, base.short_triples, base.short_op

F11_SIG = 'C11:zero-length-file'
F11_WHAT = ('a zero-length *.db file (writer stopped between creating the file and sizing it) makes '
            'MmapedDict.read_all_values_from_file and MultiProcessCollector.collect() raise struct.error: '
            'one dead worker fails the whole scrape')

HEALTHY_FILE = 'counter_888.db'
HEALTHY_VALUE = 7.0
FRESH_V, FRESH_T = 0x4045000000000000, 0x41d9be7a80000000      # 42.0, a unix time


# ------------------------------------------------------------------------------------------------- effect recording
class Recorder:
    """patches `mmap` and `open` as seen from prometheus_client.mmap_dict; self.effects is the ordered list of file effects"""

    def __init__(self, md):
        self.md = md
        self.effects = []

    def __enter__(self):
        rec = self.effects
        real_mod = mmap

        class RecMmap(mmap.mmap):
            def __setitem__(self, idx, val):
                mmap.mmap.__setitem__(self, idx, val)
                if isinstance(idx, slice):
                    start, _, step = idx.indices(len(self))
                    data = bytes(val)
                    if step != 1:
                        raise lib.Infra('C11 recorder: strided slice write into the mapping')
                    rec.append(('S', start, data))
                else:
                    rec.append(('S', idx if idx >= 0 else idx + len(self), bytes([val])))

        class ModProxy:
            mmap = RecMmap

            def __getattr__(self, name):
                return getattr(real_mod, name)

        class FileProxy:
            def __init__(self, f):
                self._pv_f = f

            def truncate(self, n=None):
                r = self._pv_f.truncate(n)
                rec.append(('T', int(r if n is None else n)))
                return r

            def write(self, *a):
                raise lib.Infra('C11 recorder: the store wrote through the file object, not modelled')

            def __getattr__(self, name):
                return getattr(self._pv_f, name)

            def __enter__(self):
                self._pv_f.__enter__()
                return self

            def __exit__(self, *a):
                return self._pv_f.__exit__(*a)

            def __bool__(self):
                return True

        def open_(file, mode='r', *a, **kw):
            if any(c in mode for c in 'aw+x'):
                existed = os.path.exists(file)
                f = builtins.open(file, mode, *a, **kw)
                if not existed:
                    rec.append(('C',))
                elif 'w' in mode:
                    rec.append(('T', 0))
                return FileProxy(f)
            return builtins.open(file, mode, *a, **kw)

        self.saved_mmap = self.md.mmap
        self.had_open = 'open' in self.md.__dict__
        self.saved_open = self.md.__dict__.get('open')
        self.md.mmap = ModProxy()
        self.md.open = open_
        return self

    def __exit__(self, *a):
        self.md.mmap = self.saved_mmap
        if self.had_open:
            self.md.open = self.saved_open
        else:
            try:
                del self.md.open
            except AttributeError:
                pass
        return False


def apply_effect(content, eff):
    """content: None (absent) or bytearray; returns the new content (a new object only for 'C')"""
    if eff[0] == 'C':
        return bytearray() if content is None else content
    if content is None:
        raise lib.Infra('C11: effect %r on an absent file' % (eff[:2],))
    if eff[0] == 'T':
        n = eff[1]
        if n < len(content):
            del content[n:]
        else:
            content.extend(b'\x00' * (n - len(content)))
        return content
    pos, data = eff[1], eff[2]
    if pos + len(data) > len(content):
        raise lib.Infra('C11: recorded slice write [%d:%d] beyond the file (%d)' % (pos, pos + len(data), len(content)))
    content[pos:pos + len(data)] = data
    return content


def eff_str(e):
    if e[0] == 'C':
        return 'C'
    if e[0] == 'T':
        return 'T%d' % e[1]
    return 'S%d:%s' % (e[1], e[2].hex())


class Recorded:
    __slots__ = ('effects', 'bounds', 'err', 'final')


def record_history(md, path, init, ops, start=None):
    """run the history on the real store, recording the effects; bounds[s] = number of effects after step s
    (step 0 = constructor, step i = operation i)"""
    saved = md._INITIAL_MMAP_SIZE
    md._INITIAL_MMAP_SIZE = init
    out = Recorded()
    out.bounds, out.err, out.final = [], None, None
    d = None
    if os.path.exists(path):
        os.unlink(path)
    if start is not None:            # a later generation: the writer finds this file
        with open(path, 'wb') as fp:
            fp.write(start)
    rec = Recorder(md)
    try:
        with rec:
            try:
                d = md.MmapedDict(path)
                out.bounds.append(len(rec.effects))
                for op in ops:
                    if op[0] == 'w':
                        d.write_value(kstr(op[1]), bf(op[2]), bf(op[3]))
                    elif op[0] == 'r':
                        d.read_value(kstr(op[1]))
                    else:
                        d.close()
                        d = None
                        d = md.MmapedDict(path)
                    out.bounds.append(len(rec.effects))
            except lib.Infra:
                raise
            except Exception as e:  # noqa
                out.err = (len(out.bounds), errname(e), ('%s: %s' % (type(e).__name__, e))[:200])
            finally:
                if d is not None:
                    try:
                        d.close()
                    except Exception:  # noqa
                        pass
    finally:
        md._INITIAL_MMAP_SIZE = saved
    out.effects = list(rec.effects)
    if os.path.exists(path):
        with open(path, 'rb') as fp:
            out.final = fp.read()
    return out


# ------------------------------------------------------------------------------------------------- the three observations
def make_healthy(md, d):
    p = os.path.join(d, HEALTHY_FILE)
    s = md.MmapedDict(p)
    s.write_value(md.mmap_key('pv_healthy', 'pv_healthy_total', ['w'], ['ok'], 'healthy worker'), HEALTHY_VALUE, 0.0)
    s.write_value(md.mmap_key('pv_healthy2', 'pv_healthy2_total', [], [], ''), 3.0, 0.0)
    s.close()


def observe_collect(d):
    """'ok' | 'missing' | '!Class'"""
    from prometheus_client import CollectorRegistry
    from prometheus_client.multiprocess import MultiProcessCollector
    try:
        metrics = list(MultiProcessCollector(CollectorRegistry(), d).collect())
    except Exception as e:  # noqa
        return '!' + errname(e)
    for m in metrics:
        if m.name == 'pv_healthy':
            for s in m.samples:
                if s.name == 'pv_healthy_total' and dict(s.labels) == {'w': 'ok'} and s.value == HEALTHY_VALUE:
                    return 'ok'
    return 'missing'


def observe_collect_full(d):
    """('ok' | 'missing' | '!Class', [(metric name, metric type, sample name, labels dict, value)])"""
    from prometheus_client import CollectorRegistry
    from prometheus_client.multiprocess import MultiProcessCollector
    try:
        metrics = list(MultiProcessCollector(CollectorRegistry(), d).collect())
    except Exception as e:  # noqa
        return '!' + errname(e), []
    st, out = 'missing', []
    for m in metrics:
        for s in m.samples:
            out.append((m.name, m.type, s.name, dict(s.labels), s.value))
            if m.name == 'pv_healthy' and s.name == 'pv_healthy_total' and dict(s.labels) == {'w': 'ok'} and s.value == HEALTHY_VALUE:
                st = 'ok'
    return st, out


def go_le(x):
    from prometheus_client.utils import floatToGoString
    return floatToGoString(float(x))


def judge_exposed(judge, head, case, fname, reader, samples):
    """the COLLECTOR's output, too, shows nothing that is not published in the cut file: every exposed series of a metric
    of this worker file corresponds to an entry present in the file (histogram: a `_bucket{le=b}` series only for a
    published bound, `_sum` only if its entry is published, `_count` only derived from published buckets), with the
    value the published entries give; and every published entry is exposed"""
    import json as _json
    if reader.startswith('!'):
        return
    parts = fname.split('_')
    typ = parts[0]
    pid = parts[2][:-3] if typ == 'gauge' else None
    entries = []
    for k, v, t in parse_triples(reader):
        try:
            mname, name, labels, _help = _json.loads(k)
        except Exception:  # noqa: not an mmap_key (not produced by this harness for collected files)
            return
        entries.append((mname, name, dict(labels), bf(v)))
    mine = {e[0] for e in entries}
    allk = {_json.loads(kstr(o[1]))[0] for o in case.get('ops', []) if o[0] != 'o'} if case.get('ops') else set()
    exposed = {}
    for mname, mtype, sname, labels, value in samples:
        if mname in mine or mname in allk:
            exposed[(sname, tuple(sorted(labels.items())))] = value
    expected = {}
    if typ == 'histogram':
        buckets = {}
        for mname, name, labels, v in entries:
            if 'le' in labels:
                wl = tuple(sorted((a, b) for a, b in labels.items() if a != 'le'))
                buckets.setdefault((mname, wl), {})
                b = float(labels['le'])
                buckets[(mname, wl)][b] = buckets[(mname, wl)].get(b, 0.0) + v
            else:
                key = (name, tuple(sorted(labels.items())))
                expected[key] = expected.get(key, 0.0) + v
        for (mname, wl), vals in buckets.items():
            acc = 0.0
            for b in sorted(vals):
                acc += vals[b]
                expected[(mname + '_bucket', tuple(sorted(wl + (('le', go_le(b)),))))] = acc
            expected[(mname + '_count', wl)] = acc
    elif typ == 'gauge' and parts[1] in ('all', 'liveall'):
        for mname, name, labels, v in entries:
            expected[(name, tuple(sorted(list(labels.items()) + [('pid', pid)])))] = v
    else:
        for mname, name, labels, v in entries:
            key = (name, tuple(sorted(labels.items())))
            expected[key] = expected.get(key, 0.0) + v
    for key in exposed:
        if key not in expected:
            judge.fail('C11:collector-exposes-unwritten-series',
                       head + 'collect() exposes %s%s = %r, but no entry published in the file at this cut gives that series '
                       '(published: %s)' % (key[0], dict(key[1]), exposed[key], short_triples(reader, 200)), case)
            return
    for key, v in expected.items():
        if key not in exposed:
            judge.fail('C11:collector-drops-published-series', head + 'the published entry behind %s%s is not exposed by collect()' % (
                key[0], dict(key[1])), case)
            return
        ev = exposed[key]
        if not (ev == v or (ev != ev and v != v)):
            judge.fail('C11:collector-exposes-unwritten-value', head + 'collect() exposes %s%s = %r, the published entries give %r' % (
                key[0], dict(key[1]), ev, v), case)
            return


def observe_reopen(md, src, copy, init, fresh_key):
    """(summary as the model prints it | '!Class', read_all_values before, after the fresh write | None)"""
    shutil.copyfile(src, copy)
    saved = md._INITIAL_MMAP_SIZE
    md._INITIAL_MMAP_SIZE = init
    d = None
    try:
        d = md.MmapedDict(copy)
        r1 = base.read_with(d.read_all_values)
        pos = getattr(d, '_positions', None)     # private attributes: compared with the model when present, never required
        summ = 'ok:%s:%s:%s:%s' % (getattr(d, '_used', '?'), getattr(d, '_capacity', '?'), '?' if pos is None else len(pos), r1)
        d.write_value(fresh_key, bf(FRESH_V), bf(FRESH_T))
        r2 = base.read_with(d.read_all_values)
        d.close()
        d = None
        return summ, r1, r2
    except Exception as e:  # noqa
        return '!' + errname(e), None, None
    finally:
        md._INITIAL_MMAP_SIZE = saved
        if d is not None:
            try:
                d.close()
            except Exception:  # noqa
                pass


def same_summary(model, real):
    """reopen summaries agree; a '?' (private attribute not present in this implementation) matches anything"""
    if model == real:
        return True
    a, b = model.split(':', 4), real.split(':', 4)
    return len(a) == 5 and len(b) == 5 and all(x == y or y == '?' for x, y in zip(a, b))


# ------------------------------------------------------------------------------------------------- continuation after a cut
CONT_BITS = ((0x3ff8000000000000, 0x41d9be7a80000001), (0xfff8dead0000beef, 0x0000000000000001),
             (0x4008000000000000, 0x7ff4000000c0ffee))


def continuation_for(ops, k):
    """1-3 operations a new writer performs after taking the file over at cut k.  Keys: new and shorter than / as long as /
    longer than the longest key of the history (the in-flight key is one of the history's keys), and that key itself."""
    hkeys = [kstr(o[1]) for o in ops if o[0] != 'o']
    longest = max(hkeys, key=lambda x: len(x.encode('utf-8'))) if hkeys else 'k'
    n = max(len(longest.encode('utf-8')), 1)
    short, short2, equal, longer = 's', 'sh', '=' * n, 'L' * (n + 24)
    (v1, t1), (v2, t2), (v3, t3) = CONT_BITS
    patterns = (
        [['r', short]],
        [['w', equal, v1, t1], ['r', short]],
        [['r', short], ['w', longer, v2, t2], ['r', short2]],
        [['w', longest, v3, t3], ['r', short], ['o']],
        [['o'], ['r', short], ['w', short, v1, t1]],
        [['r', longer], ['r', '']],
    )
    return [list(o) for o in patterns[(k + len(ops)) % len(patterns)]]


def observe_continuation(md, src, copy, init, cont):
    """a new writer opens a copy of the cut file and runs `cont`.  Returns ([(read_all_values, file reader, read_value
    pair | None)] after the constructor and after every completed operation, '!Class' of the raising step | None)"""
    shutil.copyfile(src, copy)
    saved = md._INITIAL_MMAP_SIZE
    md._INITIAL_MMAP_SIZE = init
    d, out = None, []
    try:
        d = md.MmapedDict(copy)
        out.append((base.read_with(d.read_all_values), base.file_reader(md, copy), None))
        for op in cont:
            rv = None
            if op[0] == 'w':
                d.write_value(kstr(op[1]), bf(op[2]), bf(op[3]))
            elif op[0] == 'r':
                v, t = d.read_value(kstr(op[1]))
                rv = (fb(v), fb(t))
            else:
                d.close()
                d = None
                d = md.MmapedDict(copy)
            out.append((base.read_with(d.read_all_values), base.file_reader(md, copy), rv))
        return out, None
    except Exception as e:  # noqa
        return out, '!' + errname(e)
    finally:
        md._INITIAL_MMAP_SIZE = saved
        if d is not None:
            try:
                d.close()
            except Exception:  # noqa
                pass


def cont_expected(start, cont):
    """spec run of the continuation from the state the new writer found: [(state string, read_value pair | None)]"""
    st = list(start)
    idx = {k: i for i, (k, _, _) in enumerate(st)}
    out = []
    for op in cont:
        rv = None
        if op[0] != 'o':
            k = kstr(op[1])
            if op[0] == 'w':
                if k in idx:
                    st[idx[k]] = (k, op[2], op[3])
                else:
                    idx[k] = len(st)
                    st.append((k, op[2], op[3]))
            else:
                if k not in idx:
                    idx[k] = len(st)
                    st.append((k, 0, 0))
                rv = (st[idx[k]][1], st[idx[k]][2])
        out.append((triples_str(st), rv))
    return out


def judge_continuation(judge, ops, head, case, cont, obs, err, start_ok):
    """oracle for the continuation; `start_ok`: the state the new writer found was admissible (else already reported)"""
    case = dict(case, cont=cont)
    chead = head + 'a new writer reopens and continues with [%s]: ' % short_ops(cont)
    if not obs:
        return          # the constructor raised: reported as reopen-raises
    if not start_ok or obs[0][0].startswith('!'):
        return
    exp = cont_expected(parse_triples(obs[0][0]), cont)
    written = {(kstr(o[1]), o[2], o[3]) for o in list(ops) + list(cont) if o[0] == 'w'}
    keys = {kstr(o[1]) for o in list(ops) + list(cont) if o[0] != 'o'}
    for i, (want, want_rv) in enumerate(exp):
        if i + 1 >= len(obs):
            judge.fail('C11:continuation-raises', chead + 'operation #%d (%s) raised %s' % (i + 1, short_op(cont[i]), (err or '!?')[1:]), case)
            return
        h, f, rv = obs[i + 1]
        bad = None
        if h != want:
            bad = ('read_all_values()', h)
        elif f != want:
            bad = ('read_all_values_from_file()', f)
        elif want_rv is not None and rv != want_rv:
            judge.fail('C11:continuation-unwritten-value' if rv != (0, 0) else 'C11:continuation-mismatch',
                       chead + 'after operation #%d (%s) read_value returned (0x%016x, 0x%016x), expected (0x%016x, 0x%016x)' % (
                           (i + 1, short_op(cont[i])) + tuple(rv) + tuple(want_rv)), case)
            return
        if bad is not None:
            sig, detail = 'C11:continuation-mismatch', ''
            for k, v, t in parse_triples(bad[1]):
                if k not in keys:
                    sig, detail = 'C11:continuation-unwritten-key', ': key %s was never written' % base.short_key(k)
                    break
                if (v, t) != (0, 0) and (k, v, t) not in written:
                    sig, detail = ('C11:continuation-unwritten-value',
                                   ': the pair (0x%016x, 0x%016x) of key %s was written by nobody' % (v, t, base.short_key(k)))
                    break
            judge.fail(sig, chead + 'after operation #%d (%s) %s gives %s, expected %s%s' % (
                i + 1, short_op(cont[i]), bad[0], short_triples(bad[1]), short_triples(want), detail), case)
            return


def cont_line(init, ops, k, cont):
    return 'c10 cont %d %d %s %d %s' % (init, PAGE, base.enc_ops(ops), k, base.enc_ops(cont))


def compare_continuations(ctx, pending):
    """the same continuations in the model: read_all_values, file reader and read_value result after every step"""
    if not pending:
        return
    replies = base.drv(ctx, [cont_line(init, ops, k, cont) for (_, _, init, ops, k, cont, _, _) in pending])
    if replies is None:
        return
    for (head, case, init, ops, k, cont, obs, err), rep in zip(pending, replies):
        case = dict(case, cont=cont)
        chead = head + 'continuation [%s]: ' % short_ops(cont)
        if not rep.startswith('ok '):
            ctx.diverge(chead + 'driver: %s' % rep[:200], case)
            continue
        steps = rep[3:].split(';')
        if steps[0].startswith('!'):
            if steps[0] != '!Timeout' and obs:
                ctx.diverge(chead + 'model constructor raises %s, implementation opens the file' % steps[0][1:], case)
            continue
        for i, st in enumerate(steps):
            if st.startswith('!'):
                if st != '!Timeout' and i < len(obs):
                    ctx.diverge(chead + 'model raises %s at step %d, implementation does not' % (st[1:], i), case)
                break
            if i >= len(obs):
                ctx.diverge(chead + 'implementation raised %s at step %d, model does not' % (err, i), case)
                break
            c = st.split(',')
            h, f, rv = obs[i]
            mine_rv = '-' if rv is None else '%d:%d' % rv
            if '!Timeout' in (c[0], c[1]):
                ctx.count('cut-leaves-the-model')
                break
            for name, a, b in (('read_all_values', c[0], h), ('file reader', c[1], f), ('read_value', c[7], mine_rv)):
                if a != b:
                    ctx.diverge(chead + 'step %d %s: model %s, implementation %s' % (i, name, short_triples(a, 200), short_triples(b, 200)), case)
                    break
            else:
                continue
            break
        ctx.count('continuations-compared-with-model')


def file_str(content):
    if content is None:
        return 'absent'
    return '%d:%s' % (len(content), bytes(content).rstrip(b'\x00').hex())


# ------------------------------------------------------------------------------------------------- the oracle
def ref_states_from(start, ops):
    """states[i] = tuple of (key, vbits, tbits) after the first i operations, from the state `start`"""
    st = list(start)
    idx = {k: i for i, (k, _, _) in enumerate(st)}
    states = [tuple(st)]
    for op in ops:
        if op[0] == 'w':
            k = kstr(op[1])
            if k in idx:
                st[idx[k]] = (k, op[2], op[3])
            else:
                idx[k] = len(st)
                st.append((k, op[2], op[3]))
        elif op[0] == 'r':
            k = kstr(op[1])
            if k not in idx:
                idx[k] = len(st)
                st.append((k, 0, 0))
        states.append(tuple(st))
    return states


class Ref:
    """reference states of a history, rendered in the readers' notation"""

    def __init__(self, ops, start=(), before=()):
        """`start`: the state the writer found; `before`: operations of earlier generations (their keys and values may
        legitimately be in the file)"""
        self.ops = ops
        self.states = ref_states_from(start, ops)
        self.strs = [triples_str(s) for s in self.states]
        self.inflight = []          # per j: the state j plus op j's new key at (0,0), or None
        for j, op in enumerate(ops):
            s = None
            if op[0] != 'o':
                k = kstr(op[1])
                if all(e[0] != k for e in self.states[j]):
                    s = triples_str(self.states[j] + ((k, 0, 0),))
            self.inflight.append(s)
        self.inflight.append(None)
        self.keys = {kstr(o[1]) for o in list(ops) + list(before) if o[0] != 'o'} | {k for k, _, _ in start}
        self.written = {(kstr(o[1]), o[2], o[3]) for o in list(ops) + list(before) if o[0] == 'w'} | set(start)

    def classify(self, r):
        """the model's notation: first p<j>, else first i<j>, else none"""
        if r.startswith('!'):
            return '-'
        for j, s in enumerate(self.strs):
            if s == r:
                return 'p%d' % j
        for j, s in enumerate(self.inflight):
            if s is not None and s == r:
                return 'i%d' % j
        return 'none'

    def admissible(self, r, completed, inside):
        """r is the state after some prefix of the `completed` operations, or (strictly inside operation number
        `completed`) that state plus the in-flight new key at zero"""
        for j in range(min(completed, len(self.ops)) + 1):
            if self.strs[j] == r:
                return True
        if inside and completed < len(self.ops) and self.inflight[completed] is not None and self.inflight[completed] == r:
            return True
        return False

    def why_not(self, r):
        """signature suffix + detail for a reader result that is no admissible state"""
        items = parse_triples(r)
        for k, v, t in items:
            if k not in self.keys:
                return 'unwritten-key', 'key %s was never written' % base.short_key(k)
        for k, v, t in items:
            if (v, t) != (0, 0) and (k, v, t) not in self.written:
                return 'unwritten-value', 'the pair (0x%016x, 0x%016x) was never written for key %s' % (v, t, base.short_key(k))
        return 'not-a-prefix-state', 'it is not the state after any admissible prefix of the history'


def parse_triples(r):
    if r == '.' or r.startswith('!'):
        return []
    out = []
    for e in r.split('+'):
        k, v, t = e.split(':')
        out.append((bytes.fromhex(k).decode('utf-8', 'replace'), int(v), int(t)))
    return out


def position(bounds, k):
    """(completed operations, strictly inside an operation/the constructor?, step the last applied effect belongs to)"""
    step = 0
    while step < len(bounds) and bounds[step] < k:
        step += 1
    # effect k-1 belongs to `step`; the cut is at a boundary when bounds[step] == k
    at_boundary = step < len(bounds) and bounds[step] == k
    if at_boundary:
        completed = step
        while completed + 1 < len(bounds) and bounds[completed + 1] == k:
            completed += 1       # following operations without any file effect (reopen, read of a present key)
        return completed, False, step
    return max(step - 1, 0), True, step


def cut_kind(effects, bounds, k):
    completed, inside, step = position(bounds, k)
    e = effects[k - 1]
    if not inside:
        return 'op-boundary'
    if step == 0:
        return 'after-create' if e[0] == 'C' else 'after-truncate-initial' if e[0] == 'T' else 'in-constructor'
    if e[0] == 'T':
        return 'in-growth'
    if e[0] == 'S' and e[1] != 0:
        return 'entry-written-header-stale'
    if e[0] == 'S' and e[1] == 0:
        return 'header-published-value-pending'
    return 'inside-op'


class Judge:
    """collects the oracle verdicts; F11 instances are reported last so that any other failure comes first"""

    def __init__(self, ctx):
        self.ctx = ctx
        self.f11 = []
        self.n_f11 = 0
        self.last = None

    def fail(self, sig, what, case):
        if sig == F11_SIG:
            if case is self.last:
                return               # reader and collector fail at the same cut: one instance
            self.last = case
            self.n_f11 += 1
            if len(self.f11) < 2:
                self.f11.append((what, case))
        else:
            self.ctx.fail(sig, what, case)

    def flush(self):
        for what, case in self.f11:
            self.ctx.fail(F11_SIG, what, case)
        if self.n_f11:
            self.ctx.count('F11-zero-length-file-instances', self.n_f11)
        self.f11 = []


def judge_file(judge, ref, head, case, length, reader, completed, inside):
    """oracle for the file reader's result at one cut; True when the reader result is admissible"""
    if reader.startswith('!'):
        if length == 0 and reader == '!struct.error':
            judge.fail(F11_SIG, F11_WHAT, case)
        else:
            judge.fail('C11:cut-unreadable', head + 'read_all_values_from_file raises %s' % reader[1:], case)
        return False
    if not ref.admissible(reader, completed, inside):
        sfx, detail = ref.why_not(reader)
        judge.fail('C11:' + sfx, head + 'read_all_values_from_file gives %s: %s (completed operations: %d, state then %s)' % (
            short_triples(reader), detail, completed, short_triples(ref.strs[min(completed, len(ref.strs) - 1)])), case)
        return False
    return True


def judge_collect(judge, head, case, lengths, collect):
    if collect == 'ok':
        return
    if collect == '!struct.error' and any(n == 0 for n in lengths):
        judge.fail(F11_SIG, F11_WHAT, case)
    elif collect.startswith('!'):
        judge.fail('C11:collect-raises', head + 'MultiProcessCollector.collect() raises %s: one worker file fails the whole scrape' % collect[1:], case)
    else:
        judge.fail('C11:healthy-sample-missing', head + "collect() succeeded but the healthy worker's sample is not in the result", case)


def judge_reopen(judge, ref, head, case, reopen, completed, inside, fresh_key):
    summ, r1, r2 = reopen
    if summ.startswith('!') or r1 is None:
        judge.fail('C11:reopen-raises', head + 'a new writer opening the file raises %s' % summ[1:], case)
        return
    if r1.startswith('!') or not ref.admissible(r1, completed, inside):
        sfx, detail = ('raises', r1) if r1.startswith('!') else ref.why_not(r1)
        judge.fail('C11:reopen-not-a-prefix-state', head + 'after reopening, read_all_values gives %s: %s' % (short_triples(r1), detail), case)
        return
    want = triples_str(parse_triples(r1) + [(fresh_key, FRESH_V, FRESH_T)])
    if r2 != want:
        judge.fail('C11:reopen-write-lost', head + 'after reopening and writing a fresh key read_all_values gives %s, expected %s' % (
            short_triples(r2), short_triples(want)), case)


# ------------------------------------------------------------------------------------------------- one history, all cuts
def hist_key(init, ops):
    return base.case_key(init, ops)


class Scratch:
    def __init__(self, md, tmp, name):
        self.dir = os.path.join(tmp, name)
        self.copydir = os.path.join(tmp, name + '-reopen')
        os.makedirs(self.dir)
        os.makedirs(self.copydir)
        make_healthy(md, self.dir)

    def put(self, fname, content):
        p = os.path.join(self.dir, fname)
        if content is None:
            if os.path.exists(p):
                os.unlink(p)
        else:
            with open(p, 'wb') as fp:
                fp.write(content)
        return p

    def clear(self):
        for f in os.listdir(self.dir):
            if f != HEALTHY_FILE:
                os.unlink(os.path.join(self.dir, f))


def fresh_key_for(md, ops):
    return md.mmap_key('pv_fresh', 'pv_fresh', ['n'], [str(len(ops))], 'written after reopen')


def check_history(ctx, judge, md, scratch, init, ops, model_reply, label, only_cut=None, verbose=False, pending=None,
                  cont_override=None, pending2=None, cont2_override=None, gen2_every=5, fname='gauge_all_777.db'):
    """record, compare the trace with the model, then every cut.  Returns the Recorded object (or None)."""
    path = os.path.join(scratch.copydir, 'recording.db')
    rec = record_history(md, path, init, ops)
    case0 = {'kind': 'cut', 'init': init, 'ops': ops}
    head0 = 'initial size %d, history [%s]: ' % (init, short_ops(ops))
    if rec.err is not None:
        judge.fail('C11:writer-raises', head0 + 'operation #%d raised %s' % (rec.err[0], rec.err[2]), dict(case0, cut=len(rec.effects)))
    # the recording must explain the file that the real run left behind
    content = None
    for e in rec.effects:
        content = apply_effect(content, e)
    if (None if content is None else bytes(content)) != rec.final:
        ctx.diverge(head0 + 'the recorded file effects do not reproduce the file the store left behind '
                    '(the store changes the file by other means than open/truncate/slice assignment)', case0)
        return None
    mcuts = None
    if model_reply is not None:
        ctx.traces += 1
        if not model_reply.startswith('ok '):
            ctx.diverge(head0 + 'driver: %s' % model_reply[:200], case0)
        else:
            mcuts = [c.split(',') for c in model_reply[3:].split(';')]
            real_tr = [eff_str(e) for e in rec.effects]
            model_tr = [c[0] for c in mcuts[1:]]
            if real_tr != model_tr and rec.err is None:
                i = next((i for i, (a, b) in enumerate(zip(real_tr, model_tr)) if a != b), min(len(real_tr), len(model_tr)))
                ctx.diverge(head0 + 'file-effect traces differ at effect %d: implementation %s, model %s (lengths %d / %d)' % (
                    i + 1, short_triples(real_tr[i] if i < len(real_tr) else '(end)', 120),
                    short_triples(model_tr[i] if i < len(model_tr) else '(end)', 120), len(real_tr), len(model_tr)), case0)
                mcuts = None
    ref = Ref(ops)
    fresh = fresh_key_for(md, ops)
    hk = hist_key(init, ops)
    content = None
    for k in range(1, len(rec.effects) + 1):
        content = apply_effect(content, rec.effects[k - 1])
        if only_cut is not None and k != only_cut:
            continue
        completed, inside, step = position(rec.bounds, k) if rec.bounds else (0, True, 0)
        kind = cut_kind(rec.effects, rec.bounds, k) if rec.bounds else 'in-constructor'
        if kind == 'after-truncate-initial' and not any(content):
            kind = 'after-truncate-initial-all-zero'
        case = dict(case0, cut=k) if fname == 'gauge_all_777.db' else dict(case0, cut=k, fname=fname)
        head = head0 + 'cut after effect %d/%d (%s; %s): ' % (k, len(rec.effects), short_triples(eff_str(rec.effects[k - 1]), 60), kind)
        p = scratch.put(fname, content)
        reader = base.file_reader(md, p)
        collect, exposed = observe_collect_full(scratch.dir)
        reopen = observe_reopen(md, p, os.path.join(scratch.copydir, fname), init, fresh)
        if collect in ('ok', 'missing'):
            judge_exposed(judge, head, dict(case0, cut=k, fname=fname), fname, reader, exposed)
        ctx.case((hk, k) if inside else None,
                 {'init': init, 'history': short_ops(ops, 4), 'cut': k, 'kind': kind, 'file': short_triples(file_str(content), 100),
                  'reader': short_triples(reader, 100)})
        ctx.count('cut-' + kind)
        ctx.count('stream-' + label)
        if verbose:
            print('REPLAY  cut %d (%s): file %s reader=%s collect=%s reopen=%s' % (
                k, kind, short_triples(file_str(content), 100), short_triples(reader, 160), collect, short_triples(reopen[0], 160)))
        in_op = inside and step >= 1          # the in-flight key is admissible only strictly inside an operation
        judge_file(judge, ref, head, case, len(content), reader, completed, in_op)
        judge_collect(judge, head, case, [len(content)], collect)
        judge_reopen(judge, ref, head, case, reopen, completed, in_op, fresh)
        # a new writer takes the file over at this cut and carries on
        cont = cont_override if cont_override is not None else continuation_for(ops, k)
        cobs, cerr = observe_continuation(md, p, os.path.join(scratch.copydir, 'cont-' + fname), init, cont)
        start_ok = bool(cobs) and not cobs[0][0].startswith('!') and ref.admissible(cobs[0][0], completed, in_op)
        judge_continuation(judge, ops, head, case, cont, cobs, cerr, start_ok)
        ctx.count('continuation-ops=%d' % len(cont))
        if verbose:
            print('REPLAY  continuation [%s]: %s%s' % (short_ops(cont), ' | '.join(
                '%s rv=%s' % (short_triples(o[0], 120), o[2]) for o in cobs), '' if cerr is None else ' then ' + cerr))
        if pending is not None:
            pending.append((head, case, init, ops, k, cont, cobs, cerr))
        # second generation: the new writer crashes, too (a sample of the cuts; every cut when replaying)
        if (only_cut is not None or (7 * k + len(ops)) % gen2_every == 0) and not reader.startswith('!') \
                and ref.admissible(reader, completed, in_op):
            c2 = dict(case, cont2=cont2_override) if cont2_override else case
            check_second_generation(ctx, judge, md, scratch, init, ops, k, content, reader, head, c2, pending2, verbose, fname=fname)
            scratch.put(fname, content)
        if kind == 'after-truncate-initial-all-zero':
            # pinned explicitly: an all-zero file of full size reads as empty and reopens with used = 8
            if reader != '.' or collect != 'ok' or not same_summary('ok:8:%d:0:.' % len(content), reopen[0]):
                judge.fail('C11:all-zero-file', head + 'all-zero file: reader %s, collect %s, reopen %s' % (reader, collect, reopen[0]), case)
        if mcuts is not None and k < len(mcuts):
            m = mcuts[k]
            if len(m) != 5:
                ctx.diverge(head + 'malformed model cut %r' % ','.join(m)[:120], case)
                continue
            mine = [eff_str(rec.effects[k - 1]), file_str(content), reader, reopen[0], ref.classify(reader)]
            for name, a, b in zip(('effect', 'file', 'file reader', 'reopen', 'classification'), m, mine):
                if a == '!Timeout' or (name == 'classification' and m[2] == '!Timeout'):
                    ctx.count('cut-leaves-the-model')      # negative length field / header: not modelled
                elif a != b and not (name == 'reopen' and same_summary(a, b)):
                    ctx.diverge(head + '%s: model %s, implementation %s' % (name, short_triples(a, 200), short_triples(b, 200)), case)
    scratch.put(fname, None)
    return rec


# ------------------------------------------------------------------------------------------------- second generation
def continuation_json(md, ops, k):
    """a continuation whose keys the collector can parse (for the cuts of the SECOND generation)"""
    hkeys = [kstr(o[1]) for o in ops if o[0] != 'o']
    longest = max(hkeys, key=lambda x: len(x.encode('utf-8'))) if hkeys else md.mmap_key('k', 'k', [], [], '')
    n = len(longest.encode('utf-8'))
    short = md.mmap_key('g', 'g', [], [], '')
    equal = md.mmap_key('g', 'g', [], [], 'e' * max(n - 18, 1))
    longer = md.mmap_key('g2', 'g2_total', ['gen'], ['second'], 'x' * n)
    (v1, t1), (v2, t2), (v3, t3) = CONT_BITS
    patterns = (
        [['w', short, v1, t1], ['w', longer, v2, t2]],
        [['r', equal], ['w', longest, v3, t3]],
        [['w', longer, v2, t2], ['o'], ['r', short]],
        [['w', longest, v1, t2], ['w', equal, v3, t1]],
    )
    return [list(o) for o in patterns[(k + 2 * len(ops)) % len(patterns)]]


def check_second_generation(ctx, judge, md, scratch, init, ops, k, content, found, head, case, pending2, verbose=False,
                            fname='gauge_all_777.db'):
    """crash -> a new writer opens the file, continues, crashes again: every cut of THAT writer is materialised and read"""
    cont = case.get('cont2') or continuation_json(md, ops, k)
    case = dict(case, cont2=cont)
    path = os.path.join(scratch.copydir, 'recording2.db')
    rec2 = record_history(md, path, init, cont, start=bytes(content))
    h2 = head + 'second generation [%s]: ' % short_ops(cont)
    if rec2.err is not None:
        judge.fail('C11:continuation-raises', h2 + 'operation #%d raised %s' % (rec2.err[0], rec2.err[2]), case)
        return
    ref2 = Ref(cont, start=parse_triples(found), before=ops)
    fresh = fresh_key_for(md, list(ops) + list(cont))
    cur = bytearray(content)
    rows = []
    for j in range(1, len(rec2.effects) + 1):
        cur = apply_effect(cur, rec2.effects[j - 1])
        completed, inside, step = position(rec2.bounds, j)
        in_op = inside and step >= 1
        hj = h2 + 'cut after its effect %d/%d (%s): ' % (j, len(rec2.effects), short_triples(eff_str(rec2.effects[j - 1]), 60))
        cj = dict(case, cut2=j)
        p = scratch.put(fname, cur)
        reader = base.file_reader(md, p)
        collect = observe_collect(scratch.dir)
        reopen = observe_reopen(md, p, os.path.join(scratch.copydir, fname), init, fresh)
        ctx.case(None, None)
        ctx.count('second-generation-cuts')
        if verbose:
            print('REPLAY   gen2 cut %d: file %s reader=%s collect=%s reopen=%s' % (
                j, short_triples(file_str(cur), 100), short_triples(reader, 160), collect, short_triples(reopen[0], 120)))
        judge_file(judge, ref2, hj, cj, len(cur), reader, completed, in_op)
        judge_collect(judge, hj, cj, [len(cur)], collect)
        judge_reopen(judge, ref2, hj, cj, reopen, completed, in_op, fresh)
        rows.append((eff_str(rec2.effects[j - 1]), file_str(cur), reader, reopen[0], ref2.classify(reader)))
    if pending2 is not None:
        pending2.append((h2, case, init, ops, k, cont, rows))


def gen2_line(init, ops, k, cont):
    return 'c10 gen2 %d %d %s %d %s' % (init, PAGE, base.enc_ops(ops), k, base.enc_ops(cont))


def compare_second_generation(ctx, pending2):
    if not pending2:
        return
    replies = base.drv(ctx, [gen2_line(init, ops, k, cont) for (_, _, init, ops, k, cont, _) in pending2])
    if replies is None:
        return
    for (h2, case, init, ops, k, cont, rows), rep in zip(pending2, replies):
        if not rep.startswith('ok ') or rep.startswith('ok !'):
            if rep != 'ok !Timeout':
                ctx.diverge(h2 + 'driver: %s' % rep[:200], case)
            continue
        mcuts = [c.split(',') for c in rep[3:].split(';')][1:]
        if len(mcuts) != len(rows):
            ctx.diverge(h2 + 'the model performs %d file effects, the implementation %d' % (len(mcuts), len(rows)), case)
            continue
        for j, (m, mine) in enumerate(zip(mcuts, rows)):
            for name, a, b in zip(('effect', 'file', 'file reader', 'reopen', 'classification'), m, mine):
                if a == '!Timeout' or (name == 'classification' and m[2] == '!Timeout'):
                    ctx.count('cut-leaves-the-model')
                elif a != b and not (name == 'reopen' and same_summary(a, b)):
                    ctx.diverge(h2 + 'cut %d %s: model %s, implementation %s' % (j + 1, name, short_triples(a, 200), short_triples(b, 200)),
                                dict(case, cut2=j + 1))
                    break
        ctx.count('second-generations-compared-with-model')


# ------------------------------------------------------------------------------------------------- vanishing files
def run_vanish(ctx, judge, md, tmp):
    """a worker file disappears between the collector's directory listing and its read (mark_process_dead does that to
    live-gauge files): a live-gauge file must just be skipped; what happens for other names is compared with the model"""
    import prometheus_client.multiprocess as mp
    from prometheus_client import CollectorRegistry
    d = os.path.join(tmp, 'vanish')
    os.makedirs(d)
    make_healthy(md, d)
    real_glob = mp.glob
    names = ['gauge_liveall_777.db', 'gauge_livesum_777.db', 'gauge_livemax_777.db', 'gauge_livemin_777.db',
             'gauge_livemostrecent_777.db', 'gauge_all_777.db', 'gauge_sum_777.db', 'gauge_mostrecent_777.db',
             'counter_777.db', 'histogram_777.db', 'summary_777.db']
    key = md.mmap_key('pv_v', 'pv_v', ['a'], ['b'], 'vanishing')
    lines, obs = [], []
    try:
        for victim in names:
            for other in (None, 'gauge_liveall_778.db', 'counter_778.db'):
                for f in os.listdir(d):
                    if f != HEALTHY_FILE:
                        os.unlink(os.path.join(d, f))
                present = [victim] + ([other] if other else [])
                for f in present:
                    s = md.MmapedDict(os.path.join(d, f))
                    s.write_value(key, 1.5, 2.0)
                    s.close()
                listing = sorted(os.listdir(d))

                class Shim:
                    def __getattr__(self, n):
                        return getattr(real_glob, n)

                    def glob(self, pattern, *a, **kw):
                        r = real_glob.glob(pattern, *a, **kw)
                        vp = os.path.join(d, victim)
                        if os.path.exists(vp):
                            os.unlink(vp)          # removed after the listing, before the read
                        return r
                mp.glob = Shim()
                try:
                    try:
                        ms = list(mp.MultiProcessCollector(CollectorRegistry(), d).collect())
                        res = 'ok' if any(m.name == 'pv_healthy' for m in ms) else 'missing'
                    except Exception as e:  # noqa
                        res = '!' + errname(e)
                finally:
                    mp.glob = real_glob
                parts = victim.split('_')
                live = parts[0] == 'gauge' and parts[1].startswith('live')
                case = {'kind': 'vanish', 'victim': victim, 'other': other}
                ctx.case(('vanish', victim, other), {'vanished': victim, 'other files': [HEALTHY_FILE] + ([other] if other else []), 'collect': res})
                ctx.count('vanish-' + ('live-gauge' if live else 'other-file') + '-' + res.lstrip('!'))
                if live and res != 'ok':
                    judge.fail('C11:vanished-live-gauge-fails-scrape',
                               'the live-gauge file %s is removed (as mark_process_dead does) between the directory listing and the read: '
                               'collect() gives %s instead of skipping it' % (victim, res), case)
                ents = []
                for f in listing:
                    pr = f.split('_')
                    if f == victim:
                        body = 'v'
                    else:
                        with open(os.path.join(d, f), 'rb') as fp:
                            body = 'x:' + fp.read().rstrip(b'\x00').hex() + '00' * 16
                    ents.append('%s:%s:%s' % (pr[0].encode().hex(), pr[1].encode().hex(), body))
                lines.append('c10 listed %d %s' % (PAGE, ';'.join(ents)))
                obs.append((case, victim, res))
        replies = base.drv(ctx, lines)
        if replies is not None:
            for (case, victim, res), rep in zip(obs, replies):
                ctx.traces += 1
                m = 'ok' if rep.startswith('ok ') and not rep.startswith('ok !') else rep[3:]
                r = 'ok' if res in ('ok', 'missing') else res
                if m != r:
                    ctx.diverge('vanished file %s: model collector %s, implementation %s' % (victim, rep, res), case)
    finally:
        mp.glob = real_glob
        shutil.rmtree(d, ignore_errors=True)


# ------------------------------------------------------------------------------------------------- two read() calls, two moments
def trimmed(raw):
    """the file without its zero tail, but at least as long as its header says"""
    u = struct.unpack_from('<i', raw, 0)[0] if len(raw) >= 4 else 0
    n = max(len(raw.rstrip(b'\x00')), min(max(u, 8), len(raw)))
    return raw[:n]


def run_two_reads(ctx, judge, md, tmp, real_size):
    """the collector's reader does up to two read() calls; let the first see the file at cut k1 and the second at a later
    cut k2 (a history whose entries exceed one page).  Oracle: no exception, exactly the keys of an atomic read at k1, every
    value and every timestamp one that an atomic read at k1 or k2 returns for that key."""
    rng = ctx.rng
    keys = [md.mmap_key('pv_two_%d' % i, 'pv_two_%d_total' % i, ['pad'], ['p' * rng.randint(150, 260)], 'h') for i in range(24)]
    ops = []
    for i, k in enumerate(keys):
        ops.append(['w', k, 0x3ff0000000000000 + i, 0x41d9be7a80000000 + i])
        if i % 3 == 2:
            j = rng.randrange(i + 1)
            ops.append(['w', keys[j], 0x4000000000000000 + 16 * i, 0x41d9be7a90000000 + 16 * i])
    path = os.path.join(tmp, 'two-reads.db')
    rec = record_history(md, path, real_size, ops)
    if rec.err is not None:
        judge.fail('C11:writer-raises', 'two-read history raised %s' % rec.err[2], {'kind': 'two-reads'})
        return
    cuts, cur = [], None
    for e in rec.effects:
        cur = apply_effect(cur, e)
        cuts.append(bytes(cur))
    cand = [i for i, c in enumerate(cuts) if len(c) >= 8]
    pairs = []
    for _ in range(60 if ctx.tier == 'quick' else 600):
        a = rng.choice(cand)
        b = rng.choice([x for x in cand if x >= a])
        pairs.append((a, b))
    pairs += [(a, a + 1) for a in cand[-40:-1:3]] + [(cand[len(cand) // 2], cand[-1])]
    f1p, f2p = os.path.join(tmp, 'two-a.db'), os.path.join(tmp, 'two-b.db')

    class TwoFile:
        """first read() from file 1, later read()s from file 2 at the same offset"""

        def __init__(self):
            self.a, self.b, self.n = builtins.open(f1p, 'rb'), builtins.open(f2p, 'rb'), 0

        def read(self, size=-1):
            src = self.a if self.n == 0 else self.b
            src.seek(self.a.tell() if self.n == 0 else self.pos)
            data = src.read(size)
            self.pos = src.tell()
            self.n += 1
            return data

        def __enter__(self):
            return self

        def __exit__(self, *x):
            self.a.close()
            self.b.close()
            return False

    def open_(file, mode='r', *a, **kw):
        if file == 'TWO' and mode == 'rb':
            return TwoFile()
        return builtins.open(file, mode, *a, **kw)

    lines, got = [], []
    had = 'open' in md.__dict__
    saved = md.__dict__.get('open')
    md.open = open_
    try:
        for (a, b) in pairs:
            with open(f1p, 'wb') as fp:
                fp.write(cuts[a])
            with open(f2p, 'wb') as fp:
                fp.write(cuts[b])
            r = base.file_reader(md, 'TWO')
            r1, r2 = base.file_reader(md, f1p), base.file_reader(md, f2p)
            case = {'kind': 'two-reads', 'seed': ctx.seed, 'cut1': a + 1, 'cut2': b + 1}
            head = 'history of %d writes over %d long keys at size %d, first read() at cut %d, second at cut %d: ' % (len(ops), len(keys), real_size, a + 1, b + 1)
            ctx.case(('two-reads', a, b), {'cut1': a + 1, 'cut2': b + 1, 'result': short_triples(r, 80)})
            ctx.count('two-reads-' + ('same-cut' if a == b else 'header-covers-more-than-a-page' if struct.unpack_from('<i', cuts[a], 0)[0] > PAGE else 'one-page'))
            if r.startswith('!') or r1.startswith('!') or r2.startswith('!'):
                judge.fail('C11:two-reads-raise', head + 'reader gives %s (atomic reads: %s / %s)' % (r, short_triples(r1, 60), short_triples(r2, 60)), case)
            else:
                t, t1, t2 = parse_triples(r), parse_triples(r1), parse_triples(r2)
                if [x[0] for x in t] != [x[0] for x in t1]:
                    judge.fail('C11:two-reads-unpublished-entry', head + 'the keys returned are not those published at the first cut: %s vs %s' % (
                        short_triples(r, 120), short_triples(r1, 120)), case)
                else:
                    vals = {}
                    for k, v, tt in t1 + t2:
                        vals.setdefault(k, (set(), set()))
                        vals[k][0].add(v)
                        vals[k][1].add(tt)
                    for k, v, tt in t:
                        if v not in vals[k][0] or tt not in vals[k][1]:
                            judge.fail('C11:two-reads-unwritten-value', head + 'key %s is returned with (0x%016x, 0x%016x), which neither cut holds' % (
                                base.short_key(k), v, tt), case)
                            break
            lines.append('c10 read2 %d x:%s x:%s' % (PAGE, trimmed(cuts[a]).hex(), trimmed(cuts[b]).hex()))
            got.append((r, case, head))
    finally:
        if had:
            md.open = saved
        else:
            try:
                del md.open
            except AttributeError:
                pass
    replies = base.drv(ctx, lines)
    if replies is not None:
        for (r, case, head), rep in zip(got, replies):
            ctx.traces += 1
            if rep != 'ok ' + r:
                ctx.diverge(head + 'model two-snapshot reader %s, implementation %s' % (short_triples(rep, 160), short_triples(r, 160)), case)


# ------------------------------------------------------------------------------------------------- what a real Histogram writes
def histogram_history(md, tmp, labelnames, children, buckets, observations):
    """the store operations (in order) that real `Histogram(...)[.labels(...)]` children perform in multiprocess mode:
    sum first, then one bucket per bound in order, +Inf last, then the observations — logged from the real metrics code"""
    import prometheus_client.values as values
    from prometheus_client import CollectorRegistry, Histogram
    d = os.path.join(tmp, 'histrec')
    shutil.rmtree(d, ignore_errors=True)
    os.makedirs(d)
    log = []
    real_r, real_w = md.MmapedDict.read_value, md.MmapedDict.write_value

    def read_value(self, key):
        log.append(['r', key])
        return real_r(self, key)

    def write_value(self, key, value, timestamp):
        log.append(['w', key, fb(value), fb(timestamp)])
        return real_w(self, key, value, timestamp)

    saved_env = os.environ.get('PROMETHEUS_MULTIPROC_DIR')
    saved_vc = values.ValueClass
    os.environ['PROMETHEUS_MULTIPROC_DIR'] = d
    values.ValueClass = values.MultiProcessValue(process_identifier=lambda: 777)
    md.MmapedDict.read_value, md.MmapedDict.write_value = read_value, write_value
    try:
        kw = {} if buckets is None else {'buckets': buckets}
        h = Histogram('pv_h', 'a histogram', labelnames, registry=CollectorRegistry(), **kw)
        kids = [h.labels(*c) for c in children] if labelnames else [h]
        for i, x in observations:
            kids[i % len(kids)].observe(x)
    finally:
        md.MmapedDict.read_value, md.MmapedDict.write_value = real_r, real_w
        values.ValueClass = saved_vc
        if saved_env is None:
            os.environ.pop('PROMETHEUS_MULTIPROC_DIR', None)
        else:
            os.environ['PROMETHEUS_MULTIPROC_DIR'] = saved_env
    produced = os.listdir(d)
    if produced != ['histogram_777.db']:
        raise lib.Infra('C11: a real Histogram child wrote %s, expected histogram_777.db' % produced)
    shutil.rmtree(d, ignore_errors=True)
    return log


def histogram_cases(ctx, md, tmp, real_size):
    rng = ctx.rng
    specs = [
        ((), [()], (0.5, 2.5), [(0, 0.3), (0, 7.0)]),
        (('l',), [('a',)], (1.0,), [(0, 0.5)]),
        (('l',), [('a',), ('b',)], (0.1, 1.0, 10.0), [(0, 0.05), (1, 3.0), (0, 100.0)]),
        (('m', 'n'), [('x', 'y')], None, [(0, 0.2)]),                       # the 15 default buckets
        ((), [()], (-1.0, 0.0, 1e6, 1.5e10), [(0, -2.0), (0, 2e9)]),
        (('l',), [(''.join(rng.choice('abé\u4e2d') for _ in range(rng.randint(0, 9))),)], (0.25, 0.5, 0.75),
         [(0, rng.random()) for _ in range(3)]),
    ]
    out = []
    for labelnames, children, buckets, obs in specs:
        ops = histogram_history(md, tmp, labelnames, children, buckets, obs)
        out.append((SMALL, ops))
    out.append((real_size, out[2][1]))
    return out


def cuts_line(init, ops):
    return 'c10 cuts %d %d %s' % (init, PAGE, base.enc_ops(ops))


def run_histories(ctx, judge, md, scratch, cases, label, fname='gauge_all_777.db'):
    replies = base.drv(ctx, [cuts_line(init, ops) for init, ops in cases])
    recs = []
    pending, pending2 = [], []
    for i, (init, ops) in enumerate(cases):
        rec = check_history(ctx, judge, md, scratch, init, ops, None if replies is None else replies[i], label, pending=pending,
                            pending2=pending2, gen2_every=5 if init == SMALL else 11, fname=fname)
        if rec is not None and rec.err is None:
            recs.append((init, ops, rec))
        if len(pending) >= 1500:
            compare_continuations(ctx, pending)
            pending = []
        if len(pending2) >= 500:
            compare_second_generation(ctx, pending2)
            pending2 = []
    compare_continuations(ctx, pending)
    compare_second_generation(ctx, pending2)
    return recs


# ------------------------------------------------------------------------------------------------- error returns
class FaultInjector:
    """patches `mmap` and `open` as seen from prometheus_client.mmap_dict (like Recorder).  The file effects that can RETURN an
    error to the writer — `f.truncate(n)` ('T': ENOSPC / EFBIG / quota) and `mmap.mmap(...)` ('M': ENOMEM / ENODEV) — are
    counted while `active`; a call whose index is in `faults` raises OSError before it does anything.  (A slice assignment
    into the mapping cannot return an error: it succeeds or the process gets SIGBUS, which is the crash class of the cuts.)"""

    def __init__(self, md, faults):
        self.md, self.faults, self.n, self.log, self.active = md, set(faults), 0, [], False

    def tick(self, kind, detail):
        if not self.active:
            return
        i = self.n
        self.n += 1
        bad = i in self.faults
        self.log.append((i, kind, detail, bad))
        if bad:
            code = errno.ENOSPC if kind == 'T' else errno.ENOMEM
            raise OSError(code, os.strerror(code) + ' (injected)')

    def __enter__(self):
        inj, real_mod = self, mmap

        def mmap_(fileno, length, *a, **kw):
            inj.tick('M', length)
            return real_mod.mmap(fileno, length, *a, **kw)

        class ModProxy:
            mmap = staticmethod(mmap_)

            def __getattr__(self, name):
                return getattr(real_mod, name)

        class FileProxy:
            def __init__(self, f):
                self._pv_f = f

            def truncate(self, n=None):
                inj.tick('T', n)
                return self._pv_f.truncate(n)

            def __getattr__(self, name):
                return getattr(self._pv_f, name)

            def __enter__(self):
                self._pv_f.__enter__()
                return self

            def __exit__(self, *a):
                return self._pv_f.__exit__(*a)

            def __bool__(self):
                return True

        def open_(file, mode='r', *a, **kw):
            f = builtins.open(file, mode, *a, **kw)
            return FileProxy(f) if any(c in mode for c in 'aw+x') else f

        self.saved_mmap = self.md.mmap
        self.had_open = 'open' in self.md.__dict__
        self.saved_open = self.md.__dict__.get('open')
        self.md.mmap = ModProxy()
        self.md.open = open_
        return self

    def __exit__(self, *a):
        self.md.mmap = self.saved_mmap
        if self.had_open:
            self.md.open = self.saved_open
        else:
            try:
                del self.md.open
            except AttributeError:
                pass
        return False


class FaultRef:
    """admissible on-disk states of a history in which some operations FAILED (raised to the caller, who carried on): the
    reference run over the operations so far where a failed operation either completed, or left no trace, or — like an
    in-flight operation at a crash — left its new key at (0, 0).  Once a state has been observed it is the state."""

    def __init__(self, ops):
        self.states = {()}
        self.keys = {kstr(o[1]) for o in ops if o[0] != 'o'}
        self.written = {(kstr(o[1]), o[2], o[3]) for o in ops if o[0] == 'w'}

    @staticmethod
    def apply(s, op, full):
        if op[0] == 'o':
            return s
        k = kstr(op[1])
        idx = next((i for i, e in enumerate(s) if e[0] == k), None)
        if op[0] == 'w' and full:
            e = (k, op[2], op[3])
            return s + (e,) if idx is None else s[:idx] + (e,) + s[idx + 1:]
        return s + ((k, 0, 0),) if idx is None else s

    def step(self, op, completed):
        if completed:
            self.states = {self.apply(s, op, True) for s in self.states}
        else:
            self.states = {t for s in self.states for t in (s, self.apply(s, op, False), self.apply(s, op, True))}

    @property
    def strs(self):
        return sorted(triples_str(s) for s in self.states)

    def admissible(self, r, completed=None, inside=None):
        return any(triples_str(s) == r for s in self.states)

    def narrow(self, r):
        keep = {s for s in self.states if triples_str(s) == r}
        if keep:
            self.states = keep

    def classify(self, r):
        return '-'


FaultRef.why_not = Ref.why_not


def fault_head(init, ops, faults):
    return 'initial size %d, history [%s], the fallible file calls (truncate / mmap) number %s return OSError to the writer, which carries on: ' % (
        init, short_ops(ops), ','.join(str(f) for f in sorted(faults)))


def check_faults(ctx, judge, md, scratch, init, ops, faults, fname='gauge_all_777.db', verbose=False, cont_override=None):
    """ERROR RETURNS: the history is run on ONE writer object; the fallible file calls listed in `faults` fail with OSError, the
    caller catches the exception and goes on with the next operation (a failed constructor is retried by the next operation).
    From the first failure on, after every operation the live file is read, collected and reopened by a new writer: nothing
    raises and what is read is an admissible state (FaultRef).  Returns the number of fallible calls seen."""
    p = os.path.join(scratch.dir, fname)
    if os.path.exists(p):
        os.unlink(p)
    inj = FaultInjector(md, faults)
    ref = FaultRef(ops)
    fresh = fresh_key_for(md, ops)
    saved = md._INITIAL_MMAP_SIZE
    case = {'kind': 'fault', 'init': init, 'ops': ops, 'faults': sorted(faults)}
    if fname != 'gauge_all_777.db':
        case['fname'] = fname
    if cont_override:
        case['cont'] = cont_override
    head0 = fault_head(init, ops, faults)
    box = [None]

    def attempt(fn):
        md._INITIAL_MMAP_SIZE = init
        inj.active = True
        try:
            with inj:
                fn()
            return None
        except lib.Infra:
            raise
        except Exception as e:  # noqa: the caller catches whatever the store raises and carries on
            return e
        finally:
            inj.active = False
            md._INITIAL_MMAP_SIZE = saved

    def construct():
        box[0] = md.MmapedDict(p)

    def perform(op):
        def fn():
            if box[0] is None:
                construct()
            d = box[0]
            if op[0] == 'w':
                d.write_value(kstr(op[1]), bf(op[2]), bf(op[3]))
            elif op[0] == 'r':
                d.read_value(kstr(op[1]))
            else:
                box[0] = None
                d.close()
                construct()
        return fn

    hit = False
    try:
        for i in range(len(ops) + 1):
            before = inj.n
            e = attempt(construct if i == 0 else perform(ops[i - 1]))
            injected = any(l[3] for l in inj.log if l[0] >= before)
            if i > 0:
                ref.step(ops[i - 1], e is None)
            if e is not None:
                ctx.count('error-return-%s' % ('injected-%s' % inj.log[-1][1] if injected else 'later-op-raises-' + errname(e)))
                if not hit and not injected and not isinstance(e, OSError):
                    judge.fail('C11:writer-raises', head0 + '%s raised %s before any injected failure' % (
                        base.step_name(ops, i), ('%s: %s' % (type(e).__name__, e))[:200]), case)
                    return inj.n
            hit = hit or injected
            if not hit:
                continue
            where = 'after %s %s' % (base.step_name(ops, i), 'completed' if e is None else 'failed with %s' % errname(e))
            head = head0 + where + ': '
            reader = base.file_reader(md, p)
            collect = observe_collect(scratch.dir)
            reopen = observe_reopen(md, p, os.path.join(scratch.copydir, fname), init, fresh)
            ctx.case((hist_key(init, ops), 'faults', tuple(sorted(faults)), i),
                     {'init': init, 'history': short_ops(ops, 4), 'failing calls': sorted(faults), 'step': where, 'reader': short_triples(reader, 100)})
            ctx.count('stream-error-returns')
            if verbose:
                print('REPLAY  %s: fallible calls so far %s; file %d bytes, reader=%s collect=%s reopen=%s' % (
                    where, ' '.join('%s%s%s' % (l[1], l[2], '!' if l[3] else '') for l in inj.log), os.path.getsize(p),
                    short_triples(reader, 160), collect, short_triples(reopen[0], 160)))
            judge_file(judge, ref, head, case, os.path.getsize(p), reader, 0, False)
            judge_collect(judge, head, case, [os.path.getsize(p)], collect)
            judge_reopen(judge, ref, head, case, reopen, 0, False, fresh)
            if i == len(ops):
                cont = cont_override if cont_override is not None else continuation_for(ops, len(ops) + min(faults) if faults else 0)
                cobs, cerr = observe_continuation(md, p, os.path.join(scratch.copydir, 'cont-' + fname), init, cont)
                start_ok = bool(cobs) and not cobs[0][0].startswith('!') and ref.admissible(cobs[0][0])
                judge_continuation(judge, ops, head, case, cont, cobs, cerr, start_ok)
            ref.narrow(reader)
    finally:
        md._INITIAL_MMAP_SIZE = saved
        if box[0] is not None:
            try:
                box[0].close()
            except Exception:  # noqa
                pass
        scratch.put(fname, None)
    return inj.n


def run_faults(ctx, judge, md, scratch, real_size, depth):
    """every single fallible call of every history (fixed witnesses, the exhaustive alphabet, long label values at the real
    size, seeded random histories) fails once; consecutive failures (the disk stays full) and random sets of failures"""
    rng = ctx.rng
    quick = ctx.tier == 'quick'
    t_end = time.time() + ((8 if quick else 90) * (2 if ctx.broken else 1))

    def lk(n):
        return md.mmap_key('c', 'c_total', ['path'], ['x' * n], 'help')
    v1, t1, v2, t2 = W['pi'], W['unix-ts'], W['one'], W['neg']
    hs = [(SMALL, ops, 0) for ops in corpus(md) if ops]
    hs.append((real_size, [['w', lk(30000), v1, t1], ['w', lk(40000), v2, t2], ['w', lk(200000), v1, t2], ['w', lk(5), v2, t1],
                           ['w', lk(40000), v1, t1]], 0))
    hs.append((real_size, [['w', lk(5), v1, t1], ['r', lk(70000)], ['w', lk(6), v2, t2], ['o'], ['w', lk(140000), v2, t1]], 0))
    alpha = exhaustive_alphabet(md)
    hs += [(SMALL, list(h), 2) for h in itertools.product(alpha, repeat=depth)]     # the constructor's two calls: covered above
    for _ in range((60 if quick else 1500) * (3 if ctx.broken else 1)):
        hs.append((SMALL, gen_history(rng, md, 10), -1))
    runs = 0
    for init, ops, first in hs:
        if time.time() > t_end:
            ctx.count('error-return-histories-skipped-time')
            continue
        n = check_faults(ctx, judge, md, scratch, init, ops, set())       # fault-free: how many fallible calls there are
        if first < 0:
            sets = [set(rng.sample(range(n), min(n, rng.choice((1, 1, 2, 3))))) for _ in range(3)]
        else:
            sets = [{q} for q in range(first, n)]
            if first == 0:
                sets += [{q, q + 1} for q in range(n)] + [{q, q + 1, q + 2} for q in range(2, n, 2)]
        for fs in sets:
            check_faults(ctx, judge, md, scratch, init, ops, fs)
            runs += 1
    ctx.extra['error_return_runs'] = runs



# ------------------------------------------------------------------------------------------------- several worker files
SECOND_MODES = ('liveall', 'sum', 'max', 'min', 'mostrecent', 'all')


def run_pairs(ctx, judge, md, scratch, recs, n, only=None):
    """two worker files from two histories at independent cuts, plus the healthy one, in one directory"""
    rng = ctx.rng
    if not recs:
        return
    for _ in range(n):
        if only is None:
            (ia, oa, ra), (ib, ob, rb) = rng.choice(recs), rng.choice(recs)
            ka, kb = rng.randint(1, len(ra.effects)), rng.randint(1, len(rb.effects))
            if rng.random() < 0.15:
                ka = 1
            mode = rng.choice(SECOND_MODES)
        else:
            (ia, oa, ra, ka), (ib, ob, rb, kb), mode = only
        lengths, parts = [], []
        case = {'kind': 'pair', 'a': {'init': ia, 'ops': oa, 'cut': ka}, 'b': {'init': ib, 'ops': ob, 'cut': kb}, 'mode': mode}
        head = 'two worker files at independent cuts (%d of [%s] and %d of [%s]): ' % (ka, short_ops(oa, 4), kb, short_ops(ob, 4))
        inside_any = False
        for fname, (init, ops, rec, k) in (('gauge_all_777.db', (ia, oa, ra, ka)), ('gauge_%s_778.db' % mode, (ib, ob, rb, kb))):
            content = None
            for e in rec.effects[:k]:
                content = apply_effect(content, e)
            p = scratch.put(fname, content)
            completed, inside, step = position(rec.bounds, k)
            inside_any = inside_any or inside
            reader = base.file_reader(md, p)
            judge_file(judge, Ref(ops), head + '%s: ' % fname, case, len(content), reader, completed, inside and step >= 1)
            lengths.append(len(content))
            parts.append(reader)
        collect = observe_collect(scratch.dir)
        judge_collect(judge, head, case, lengths, collect)
        ctx.case((hist_key(ia, oa), ka, hist_key(ib, ob), kb) if inside_any else None, None)
        ctx.count('two-files')
        if only is not None:
            print('REPLAY  pair: readers %s ; collect %s' % (' | '.join(short_triples(x, 120) for x in parts), collect))
        scratch.clear()


# ------------------------------------------------------------------------------------------------- generators
W = dict(base.WITNESS_BITS)

METRICS = ['m', 'g', 'http_requests', 'métrique', 'température_c', '指标', 'in_progress', 'q' * 23, 'a_b_c_d']
LABELNAMES = ['l', 'le', 'path', 'méthode', 'код', 'status_code', 'x' * 9]
LABELVALUES = ['', 'v', '/api/v1/ü', '"quoted"', '200', 'a b', '€', 'back\\slash', '\U0001f600', 'line\nbreak']
HELPS = ['', 'h', 'help text', 'aide é€\U0001f600', 'Multiprocess metric']


def gen_mkey(rng, md):
    metric = rng.choice(METRICS)
    if rng.random() < 0.3:
        metric += '_' + ''.join(rng.choice('abcdefgh') for _ in range(rng.randrange(1, 9)))
    name = metric + rng.choice(('', '', '_total', '_sum', '_count'))
    n = rng.randrange(0, 4)
    names = rng.sample(LABELNAMES, n)
    values = [rng.choice(LABELVALUES) for _ in names]
    return md.mmap_key(metric, name, names, values, rng.choice(HELPS))


def gen_history(rng, md, maxlen):
    n = rng.randint(1, maxlen)
    pool = [gen_mkey(rng, md) for _ in range(rng.randint(1, 4))]
    ops = []
    for _ in range(n):
        r = rng.random()
        if r < 0.12:
            pool.append(gen_mkey(rng, md))
            ops.append(['w', pool[-1], base.gen_bits(rng), base.gen_bits(rng)])
        elif r < 0.65:
            ops.append(['w', rng.choice(pool), base.gen_bits(rng), base.gen_bits(rng)])
        elif r < 0.82:
            ops.append(['r', rng.choice(pool)])
        else:
            ops.append(['o'])
    return ops


def corpus(md):
    kA = md.mmap_key('m', 'm', [], [], '')                                        # 18 bytes
    kB = md.mmap_key('http_requests', 'http_requests_total', ['méthode', 'path'], ['GET', '/ü'], 'requests')
    kC = md.mmap_key('g', 'g', ['l'], ['v'], 'h')
    v1, t1, v2, t2 = W['pi'], W['unix-ts'], W['qnan-neg-payload'], W['snan-payload']
    return [
        [['w', kA, v1, t1]],
        [['w', kA, v1, t1], ['w', kA, v2, t2]],
        [['w', kA, v1, t1], ['w', kC, v2, t2]],
        [['w', kA, v1, t1], ['w', kB, v2, t2], ['w', kC, v1, t2]],                # growth at size 64 (several doublings)
        [['w', kB, v2, t2]],
        [['w', kA, v1, t1], ['o'], ['w', kC, v2, t2], ['o'], ['w', kA, v2, t1]],
        [['r', kA]],
        [['r', kC], ['w', kC, v1, t1], ['r', kB], ['o'], ['r', kC]],
        [['w', kA, 0, 0], ['w', kC, 0, 0]],                                      # written zero = the in-flight zero
        [['o'], ['w', kA, v1, t1]],
        [],
    ]


def exhaustive_alphabet(md):
    kA = md.mmap_key('m', 'm', [], [], '')
    kB = md.mmap_key('http_requests', 'http_requests_total', ['méthode', 'path'], ['GET', '/ü'], 'requests')
    kC = md.mmap_key('g', 'g', ['l'], ['v'], 'h')
    return [
        ['w', kA, W['pi'], W['unix-ts']],
        ['w', kA, W['qnan-neg-payload'], W['snan-payload']],
        ['w', kB, W['-0'], W['min-subnormal']],      # long key: one doubling of a fresh 64-byte file, two after kA
        ['r', kC],
        ['o'],
        ['w', kC, W['neg-max-normal'], W['+inf']],
    ]


# ------------------------------------------------------------------------------------------------- SIGKILL (thorough tier)
def kill_history(md, seed, nops):
    rng = random.Random(seed)
    pool = [gen_mkey(rng, md) for _ in range(rng.randint(2, 25))]
    ops = []
    for i in range(nops):
        r = rng.random()
        if r < 0.85:
            ops.append(['w', rng.choice(pool), i + 1, rng.getrandbits(64)])     # the value identifies the operation
        elif r < 0.95:
            ops.append(['r', rng.choice(pool)])
        else:
            ops.append(['o'])
    return ops


def admissible_any_prefix(ops, r):
    """kill trials: the number of completed operations is unknown — any prefix state, or any prefix plus the next
    operation's new key at zero"""
    items = parse_triples(r)
    st, idx = [], {}
    n = len(items)
    for j in range(len(ops) + 1):
        if len(st) == n and st == items:
            return j
        if j == len(ops):
            break
        op = ops[j]
        if op[0] == 'o':
            continue
        k = kstr(op[1])
        if k not in idx:
            if len(st) + 1 == n and items[-1] == (k, 0, 0) and st == items[:-1]:
                return j
            if len(st) >= n:
                return None          # states only grow in length
            idx[k] = len(st)
            st.append((k, op[2], op[3]) if op[0] == 'w' else (k, 0, 0))
        elif op[0] == 'w':
            st[idx[k]] = (k, op[2], op[3])
    return None


def judge_left_behind(ctx, judge, md, scratch, init, ops, case, head, fname, verbose=False):
    p = os.path.join(scratch.dir, fname)
    length = os.path.getsize(p)
    reader = base.file_reader(md, p)
    collect = observe_collect(scratch.dir)
    fresh = fresh_key_for(md, ops)
    reopen = observe_reopen(md, p, os.path.join(scratch.copydir, fname), init, fresh)
    if verbose:
        print('REPLAY  left behind: %d bytes, reader=%s collect=%s reopen=%s' % (length, short_triples(reader, 200), collect, short_triples(reopen[0], 200)))
    j = None
    if reader.startswith('!'):
        if length == 0 and reader == '!struct.error':
            judge.fail(F11_SIG, F11_WHAT, case)
        else:
            judge.fail('C11:cut-unreadable', head + 'read_all_values_from_file raises %s' % reader[1:], case)
    else:
        j = admissible_any_prefix(ops, reader)
        if j is None:
            sfx, detail = Ref(ops).why_not(reader)
            judge.fail('C11:' + sfx, head + 'read_all_values_from_file gives %s: %s' % (short_triples(reader), detail), case)
    judge_collect(judge, head, case, [length], collect)
    summ, r1, r2 = reopen
    if summ.startswith('!') or r1 is None:
        judge.fail('C11:reopen-raises', head + 'a new writer opening the file raises %s' % summ[1:], case)
    elif r1.startswith('!') or admissible_any_prefix(ops, r1) is None:
        judge.fail('C11:reopen-not-a-prefix-state', head + 'after reopening, read_all_values gives %s' % short_triples(r1), case)
    elif r2 != triples_str(parse_triples(r1) + [(fresh, FRESH_V, FRESH_T)]):
        judge.fail('C11:reopen-write-lost', head + 'after reopening and writing a fresh key read_all_values gives %s' % short_triples(r2), case)
    if length > 0:
        cont = case.get('cont') or continuation_for(ops[:50], length // 8)
        cobs, cerr = observe_continuation(md, p, os.path.join(scratch.copydir, 'cont-' + fname), init, cont)
        start_ok = bool(cobs) and not cobs[0][0].startswith('!') and admissible_any_prefix(ops, cobs[0][0]) is not None
        judge_continuation(judge, ops, head, case, cont, cobs, cerr, start_ok)
        if verbose:
            print('REPLAY  continuation [%s]: %s' % (short_ops(cont), ' | '.join(short_triples(o[0], 120) for o in cobs)))
    return length, reader, j


def run_kills(ctx, judge, md, tmp, n_kills, real_size):
    rng = ctx.rng
    scratch = Scratch(md, tmp, 'kill')
    fname = 'gauge_all_4242.db'
    delays = (0.0, 0.0, 0.0, 0.00002, 0.00005, 0.0001, 0.0002, 0.0005, 0.001, 0.002, 0.004)
    t_end = time.time() + 240
    for trial in range(n_kills):
        if time.time() > t_end:
            break
        init = rng.choice((SMALL, SMALL, real_size))
        seed = rng.getrandbits(32)
        nops = rng.choice((200, 2000, 20000))
        sleepy = rng.random() < 0.3
        delay = rng.choice(delays)
        ops = kill_history(md, seed, nops)
        path = os.path.join(scratch.dir, fname)
        if os.path.exists(path):
            os.unlink(path)
        rfd, wfd = os.pipe()
        pid = os.fork()
        if pid == 0:
            code = 0
            try:
                os.close(rfd)
                md._INITIAL_MMAP_SIZE = init
                os.write(wfd, b'x')
                d = md.MmapedDict(path)
                for i, op in enumerate(ops):
                    if op[0] == 'w':
                        d.write_value(op[1], bf(op[2]), bf(op[3]))
                    elif op[0] == 'r':
                        d.read_value(op[1])
                    else:
                        d.close()
                        d = md.MmapedDict(path)
                    if sleepy and i % 64 == 0:
                        time.sleep(0)
                d.close()
            except BaseException:  # noqa
                code = 3
            finally:
                os._exit(code)
        os.close(wfd)
        os.read(rfd, 1)
        os.close(rfd)
        if delay:
            time.sleep(delay)
        try:
            os.kill(pid, signal.SIGKILL)
        except ProcessLookupError:
            pass
        _, status = os.waitpid(pid, 0)
        if os.WIFEXITED(status):
            if os.WEXITSTATUS(status) == 3:
                ctx.count('kill-child-raised')
                judge.fail('C11:writer-raises', 'a plain history raised in the forked writer (seed %d, %d ops, initial size %d)' % (seed, nops, init),
                           {'kind': 'kill', 'init': init, 'seed': seed, 'nops': nops})
            ctx.count('kill-child-finished-first')
        else:
            ctx.count('kill-child-killed')
        if not os.path.exists(path):
            ctx.count('kill-file-absent')
            ctx.case(None, None)
            continue
        with open(path, 'rb') as fp:
            raw = fp.read()
        case = {'kind': 'kill', 'init': init, 'seed': seed, 'nops': nops, 'delay': delay, 'file_len': len(raw), 'file_hex': raw.rstrip(b'\x00').hex()}
        head = 'forked writer (seed %d, %d ops, initial size %d) SIGKILLed after %.0f us, file of %d bytes left behind: ' % (
            seed, nops, init, delay * 1e6, len(raw))
        length, reader, j = judge_left_behind(ctx, judge, md, scratch, init, ops, case, head, fname)
        ctx.case(('kill', seed, len(raw), hashlib.sha1(raw).hexdigest()[:12]) if os.WIFSIGNALED(status) else None, None)
        ctx.count('kill-left-' + ('zero-length' if length == 0 else 'all-zero' if not raw.strip(b'\x00') else
                                  'unreadable' if reader.startswith('!') else 'empty-store' if reader == '.' else
                                  'prefix-of-%s-ops' % ('<100' if (j or 0) < 100 else '<1000' if j < 1000 else '1000+')))
        scratch.clear()


# ------------------------------------------------------------------------------------------------- entry points
def run(ctx):
    import prometheus_client.mmap_dict as md
    base.sanity()
    real_size = md._INITIAL_MMAP_SIZE
    quick = ctx.tier == 'quick'
    depth = 3 if quick else 4
    widen = 3 if ctx.broken else 1
    n_small = (150 if quick else 1500) * widen
    n_real = (12 if quick else 60) * widen
    n_pairs = (400 if quick else 3000) * widen
    maxlen = 12 if quick else 25
    budget = 44 if quick else 420        # (the error-return stream takes up to 8 s of it)
    ctx.rule = ('histories of write_value / read_value / close+reopen over mmap_key-built keys on the real store with its file effects '
                '(create, truncate, slice writes) recorded; every prefix of the effect list is materialised as a worker file next to a healthy one '
                'and read by read_all_values_from_file, MultiProcessCollector.collect() and a reopening writer. Fixed witnesses, every history '
                'of length %d over a 6-operation alphabet at initial size %d, seeded random histories (≤ %d operations) at size %d and at the '
                'real size %d, pairs of files at independent cuts, error returns (each fallible truncate/mmap call fails with OSError, the same writer carries on)%s. A case is one (history, cut); non-trivial when the cut is strictly inside an '
                'operation or the constructor; distinct by (history, cut index)'
                % (depth, SMALL, maxlen, SMALL, real_size, '' if quick else ', forked writers killed with SIGKILL at random instants'))
    tmp = tempfile.mkdtemp(prefix='pv-c11-')
    judge = Judge(ctx)
    try:
        scratch = Scratch(md, tmp, 'mp')
        recs = []
        run_vanish(ctx, judge, md, tmp)
        saved_rng = ctx.rng
        ctx.rng = random.Random((ctx.seed * 1000003) ^ lib.hash_str('C11-two'))
        run_two_reads(ctx, judge, md, tmp, real_size)
        ctx.rng = saved_rng
        run_histories(ctx, judge, md, scratch, histogram_cases(ctx, md, tmp, real_size), 'real-histogram-children',
                      fname='histogram_777.db')
        cs = corpus(md)
        recs += run_histories(ctx, judge, md, scratch, [(init, ops) for ops in cs for init in (SMALL, real_size)], 'corpus')
        alpha = exhaustive_alphabet(md)
        recs += run_histories(ctx, judge, md, scratch, [(SMALL, list(h)) for h in itertools.product(alpha, repeat=depth)], 'exhaustive')
        ctx.exhaustive = True
        ctx.extra['exhaustive_space'] = 'every cut of all %d histories of length %d over 6 operations at initial size %d' % (6 ** depth, depth, SMALL)
        run_faults(ctx, judge, md, scratch, real_size, depth)
        done = 0
        while done < n_small and time.time() - ctx.t0 < budget:
            batch = [(SMALL, gen_history(ctx.rng, md, maxlen)) for _ in range(min(50, n_small - done))]
            recs += run_histories(ctx, judge, md, scratch, batch, 'random')
            done += len(batch)
        done_real = 0
        while done_real < n_real and time.time() - ctx.t0 < budget:
            batch = [(real_size, gen_history(ctx.rng, md, min(maxlen, 10))) for _ in range(min(6, n_real - done_real))]
            recs += run_histories(ctx, judge, md, scratch, batch, 'random-real-size')
            done_real += len(batch)
        small_recs = [r for r in recs if r[0] == SMALL and r[2].effects]
        run_pairs(ctx, judge, md, scratch, small_recs, n_pairs)
        ctx.extra['random_histories'] = done + done_real
        if not quick:
            run_kills(ctx, judge, md, tmp, 120 * widen, real_size)
    finally:
        md._INITIAL_MMAP_SIZE = real_size
        judge.flush()
        shutil.rmtree(tmp, ignore_errors=True)


def replay(ctx, case):
    import prometheus_client.mmap_dict as md
    c = case.get('case')
    if c is None and case.get('divergences'):
        c = case['divergences'][0].get('case')
    if c is None:
        print('REPLAY: no case in the file (kind=%s)' % case.get('kind'))
        return 0
    real_size = md._INITIAL_MMAP_SIZE
    tmp = tempfile.mkdtemp(prefix='pv-c11-')
    judge = Judge(ctx)
    try:
        scratch = Scratch(md, tmp, 'mp')
        kind = c.get('kind', 'cut')
        if kind == 'cut':
            init, ops = int(c['init']), c['ops']
            print('REPLAY initial size %d, history [%s], cut %s' % (init, short_ops(ops, 40), c.get('cut')))
            rep = base.drv(ctx, [cuts_line(init, ops)])
            pending, pending2 = [], []
            check_history(ctx, judge, md, scratch, init, ops, None if rep is None else rep[0], 'replay',
                          only_cut=int(c['cut']) if c.get('cut') is not None else None, verbose=True, pending=pending,
                          cont_override=c.get('cont'), pending2=pending2, cont2_override=c.get('cont2'),
                          fname=c.get('fname', 'gauge_all_777.db'))
            compare_continuations(ctx, pending)
            compare_second_generation(ctx, pending2)
        elif kind == 'fault':
            init, ops = int(c['init']), c['ops']
            print('REPLAY ' + fault_head(init, ops, c['faults']))
            check_faults(ctx, judge, md, scratch, init, ops, set(c['faults']), fname=c.get('fname', 'gauge_all_777.db'), verbose=True,
                         cont_override=c.get('cont'))
        elif kind == 'vanish':
            run_vanish(ctx, judge, md, tmp)
        elif kind == 'two-reads':
            ctx.rng = random.Random((int(c.get('seed', ctx.seed)) * 1000003) ^ lib.hash_str('C11-two'))
            run_two_reads(ctx, judge, md, tmp, real_size)
        elif kind == 'pair':
            sides = []
            for s in (c['a'], c['b']):
                rec = record_history(md, os.path.join(scratch.copydir, 'recording.db'), int(s['init']), s['ops'])
                sides.append((int(s['init']), s['ops'], rec, int(s['cut'])))
            run_pairs(ctx, judge, md, scratch, [(sides[0][0], sides[0][1], sides[0][2])], 1, only=(sides[0], sides[1], c.get('mode', 'liveall')))
        elif kind == 'kill':
            if 'file_hex' not in c:
                print('REPLAY: the forked writer itself raised; re-run its history through C10')
            else:
                init = int(c['init'])
                ops = kill_history(md, int(c['seed']), int(c['nops']))
                raw = bytes.fromhex(c['file_hex'])
                raw += b'\x00' * (int(c['file_len']) - len(raw))
                fname = 'gauge_all_4242.db'
                scratch.put(fname, raw)
                judge_left_behind(ctx, judge, md, scratch, init, ops, c, 'file left behind by a killed writer (%d bytes): ' % len(raw), fname, verbose=True)
    finally:
        md._INITIAL_MMAP_SIZE = real_size
        judge.flush()
        shutil.rmtree(tmp, ignore_errors=True)
    for f in ctx.failures:
        print('REPLAY-FAIL', f['sig'], f['what'])
    for f in ctx.divergences:
        print('REPLAY-DIVERGE', f['what'])
    return 1 if ctx.failures or ctx.divergences else 0
