"""C19, second half — what the library's OWN handlers put on the wire.

Real code: push_to_gateway / pushadd_to_gateway / delete_from_gateway with the DEFAULT handler (no `handler=`
argument), with passthrough_redirect_handler and with basic_auth_handler, against

  (L) an in-process loopback `http.server` on 127.0.0.1:<ephemeral port> that records method, raw path, headers and
      body of every request and answers the status named by the first path segment of the gateway (`/s302/…`);
      a redirect status carries `Location: /t200/<rest of the path>`;
  (F) no network: `urllib.request.OpenerDirector.open` replaced by a stub that records the Request object and the
      `timeout` argument and returns a response with a chosen status code (any gateway spelling, any time-out,
      every status 100..599).

In both modes `OpenerDirector.open` is wrapped, so the `timeout` that reaches urllib is observed.

Oracle on the real code (written from the property text, independent of the Lean model):
  method = PUT / POST / DELETE per public function; the path after `/metrics/` decodes (the decoder of c19.py, both
  readings) to job + sorted grouping key; exactly one Content-Type header, the text exposition's; body =
  generate_latest(registry) (empty for delete) and Content-Length says so; every `open` call got the caller's
  time-out; status >= 400 -> an OSError reaches the caller, status 2xx -> the call returns; basic auth -> exactly
  one `Authorization: Basic base64(user:password)` (none when user or password is None) and nothing else changes;
  a redirect that is followed is re-sent once, to the Location, with the same method, body and content type; a
  redirect that is not followed raises OSError; registry=None pushes the default REGISTRY.
T2: the driver's `wire` (the Request handed to the opener: url, method, header list, body selector, time-out, base
handler), `status`, `redir` and `b64std` ops, compared verbatim with what the stub / the real `redirect_request` /
CPython's base64 saw.  Which redirects are followed is the code's own table (extracted): compared with the model,
not pinned by the oracle (see `ctx.extra['redirect_table']`).
"""
import base64
import http.server
import os
import socket
import ssl
import threading
import urllib.request

import lib
from props import c19

REDIRECTS = (301, 302, 303, 307, 308)
STATUSES = (200, 202, 301, 302, 303, 307, 308, 400, 404, 500)
LOOP_TIMEOUTS = [None, 30, 7, 2.5, 11.0]
ANY_TIMEOUTS = [None, 30, 0.5, 7, 0, 1e-3, 600]


# --------------------------------------------------------------------------------------------- loopback server
class _H(http.server.BaseHTTPRequestHandler):
    protocol_version = 'HTTP/1.0'

    def setup(self):
        super().setup()
        try:        # no delayed ACK: the client sends headers and body in two segments
            self.request.setsockopt(socket.IPPROTO_TCP, socket.TCP_QUICKACK, 1)
        except (OSError, AttributeError):
            pass

    def _do(self):
        n = int(self.headers.get('Content-Length') or 0)
        body = self.rfile.read(n) if n else b''
        segs = self.path.split('/')
        code = int(segs[1][1:]) if len(segs) > 1 and segs[1][:1] == 's' and segs[1][1:].isdigit() else 200
        self.server.rec.append({'method': self.command, 'path': self.path, 'headers': list(self.headers.items()), 'body': body})
        self.send_response(code)
        if code in REDIRECTS:
            # absolute: urllib resolves a relative Location with urljoin, which removes '.' / '..' segments
            self.send_header('Location', 'http://%s/t200/%s' % (self.headers.get('Host'), '/'.join(segs[2:])))
        self.send_header('Content-Length', '0')
        self.end_headers()
    do_PUT = do_POST = do_DELETE = do_GET = do_HEAD = _do

    def log_message(self, *a):
        pass


class Loopback:
    def __enter__(self):
        self.srv = http.server.ThreadingHTTPServer(('127.0.0.1', 0), _H)
        self.srv.daemon_threads = True
        self.srv.rec = []
        self.port = self.srv.server_address[1]
        self.th = threading.Thread(target=self.srv.serve_forever, kwargs={'poll_interval': 0.05}, daemon=True)
        self.th.start()
        self.env = {k: os.environ.get(k) for k in ('no_proxy', 'NO_PROXY')}
        os.environ['no_proxy'] = os.environ['NO_PROXY'] = '*'
        return self

    def __exit__(self, *a):
        self.srv.shutdown()
        self.srv.server_close()
        for k, v in self.env.items():
            if v is None:
                os.environ.pop(k, None)
            else:
                os.environ[k] = v


class _Stub:
    def __init__(self, code):
        self.code, self.msg, self.status = code, 'stub', code

    def read(self, *a):
        return b''

    def close(self):
        pass


_DEFAULT = object()
_SSL = []


class PatchedOpen:
    """wrap (or replace) urllib.request.OpenerDirector.open; records every call"""

    def __init__(self, stub_code=None):
        self.calls, self.stub_code = [], stub_code

    def __enter__(self):
        self.orig = orig = urllib.request.OpenerDirector.open
        me = self

        def patched(self_, fullurl, data=None, timeout=_DEFAULT):
            req = fullurl
            rec = {'timeout': 'DEFAULT' if timeout is _DEFAULT else timeout,
                   'handlers': [type(h).__name__ for h in self_.handlers]}
            if isinstance(req, urllib.request.Request):
                rec.update(url=req.full_url, method=req.get_method(), headers=list(req.header_items()), data=req.data)
            me.calls.append(rec)
            if me.stub_code is not None:
                return _Stub(me.stub_code)
            if timeout is _DEFAULT:
                return orig(self_, fullurl, data)
            return orig(self_, fullurl, data, timeout)
        urllib.request.OpenerDirector.open = patched
        # build_opener() makes a fresh HTTPSHandler, i.e. a fresh default SSL context (CA bundle load, ~30 ms), on every
        # handle(); nothing here speaks TLS: hand out one cached context while the patch is active
        self.ssl_orig = getattr(ssl, '_create_default_https_context', None)
        if self.ssl_orig is not None:
            if not _SSL:
                _SSL.append(self.ssl_orig())
            ssl._create_default_https_context = lambda *a, **k: _SSL[0]
        return self

    def __exit__(self, *a):
        urllib.request.OpenerDirector.open = self.orig
        if self.ssl_orig is not None:
            ssl._create_default_https_context = self.ssl_orig


# --------------------------------------------------------------------------------------------- real code
def gateway_of(case, port):
    if case['mode'] == 'loop':
        return '%s127.0.0.1:%d/s%d%s' % (case['scheme'], port, case['status'], case['slashes'])
    return case['host_spelled']


def call_real(case, loop):
    """-> observation dict"""
    st = c19._setup()
    ex = st['exposition']
    gw = gateway_of(case, loop.port if loop else 0)
    kw = {'grouping_key': dict((k, v) for k, v in case['gk']), 'timeout': case['timeout']}
    hd = case['handler']
    if hd == 'redirect':
        kw['handler'] = ex.passthrough_redirect_handler
    elif hd == 'basic':
        user, pw = case['user'], case['pw']

        def handler(url, method, timeout, headers, data):
            return ex.basic_auth_handler(url, method, timeout, headers, data, user, pw)
        kw['handler'] = handler
    # hd == 'default': no handler argument at all — the library's default
    registry = None if case.get('registry_none') else st['registry']
    obs = {'gateway': gw, 'exc': None}
    if loop:
        del loop.srv.rec[:]
    with PatchedOpen(case['status'] if case['mode'] == 'fake' else None) as po:
        try:
            if case['fn'] == 'put':
                ex.push_to_gateway(gw, case['job'], registry, **kw)
            elif case['fn'] == 'post':
                ex.pushadd_to_gateway(gw, case['job'], registry, **kw)
            else:
                ex.delete_from_gateway(gw, case['job'], **kw)
        except Exception as e:  # noqa
            obs['exc'] = type(e).__name__
            obs['exc_is_oserror'] = isinstance(e, OSError)
            obs['exc_text'] = str(e)[:120]
    obs['opens'] = po.calls
    obs['served'] = list(loop.srv.rec) if loop else []
    return obs


# --------------------------------------------------------------------------------------------- oracle
def hdr(headers, name):
    return [v for k, v in headers if k.lower() == name.lower()]


def check_request(case, served, prefix, tag):
    """one request as the server saw it -> list of (sig, what)"""
    st = c19._setup()
    bad = []
    fn = case['fn']
    want = [('job', case['job'])] + sorted((str(k), str(v)) for k, v in case['gk'])
    if served['method'] != c19.METHOD[fn]:
        bad.append(('C19:wire-method', '%s: %s reached the server as %r, not %r' % (tag, fn, served['method'], c19.METHOD[fn])))
    head = prefix + '/metrics/'
    if not served['path'].startswith(head):
        bad.append(('C19:wire-path', '%s: path %r does not start with %r' % (tag, served['path'], head)))
    else:
        path = served['path'][len(head):]
        for plus in (False, True):
            got, why = c19.pg_decode(path, plus)
            if got != want:
                bad.append(('C19:wire-path', '%s: path %r decodes to %r (%s), input was %r' % (tag, path, got, why, want)))
                break
    ct = hdr(served['headers'], 'Content-Type')
    if ct != [c19.CONTENT_TYPE]:
        bad.append(('C19:wire-content-type', '%s: Content-Type headers on the wire %r, expected exactly [%r]' % (tag, ct, c19.CONTENT_TYPE)))
    if case.get('registry_none') and fn != 'delete':
        from prometheus_client import REGISTRY
        types = lambda b: sorted(l for l in b.split(b'\n') if l.startswith(b'# TYPE '))
        expo = st['exposition'].generate_latest(REGISTRY)
        if not served['body'] or types(served['body']) != types(expo):
            bad.append(('C19:registry-none', '%s: registry=None: the body (%d bytes) does not carry the families of the default REGISTRY'
                        % (tag, len(served['body']))))
    else:
        expo = b'' if fn == 'delete' else st['expo']
        if served['body'] != expo:
            bad.append(('C19:wire-body', '%s: %s sent a body of %d bytes, generate_latest(registry) is %d bytes%s'
                        % (tag, fn, len(served['body']), len(expo), ' (delete must send none)' if fn == 'delete' else '')))
    cl = hdr(served['headers'], 'Content-Length')
    if cl != [str(len(served['body']))] and not (cl == [] and served['body'] == b''):
        bad.append(('C19:wire-body', '%s: Content-Length %r for a body of %d bytes' % (tag, cl, len(served['body']))))
    auth = hdr(served['headers'], 'Authorization')
    if case['handler'] == 'basic' and case['user'] is not None and case['pw'] is not None:
        ok = len(auth) == 1 and auth[0].startswith('Basic ')
        if ok:
            try:
                ok = base64.b64decode(auth[0][6:], validate=True) == ('%s:%s' % (case['user'], case['pw'])).encode('utf-8')
            except Exception:  # noqa
                ok = False
        if not ok:
            bad.append(('C19:wire-basic-auth', '%s: Authorization headers %r for user %r password %r' % (tag, auth, case['user'], case['pw'])))
    elif auth:
        bad.append(('C19:wire-basic-auth', '%s: unexpected Authorization header %r' % (tag, auth)))
    return bad


def oracle(case, obs):
    bad = []
    status = case['status']
    opens = obs['opens']
    # the caller's time-out reaches urllib on every open (the first, and urllib's own re-open after a redirect)
    if not opens:
        bad.append(('C19:wire-no-request', 'no request was handed to urllib (%s)' % obs['exc']))
    for i, o in enumerate(opens):
        t = o['timeout']
        if not (t is case['timeout'] or (t is not None and case['timeout'] is not None and not isinstance(t, str) and t == case['timeout'])):
            bad.append(('C19:wire-timeout', 'time-out %r given by the caller, OpenerDirector.open call %d received %r'
                        % (case['timeout'], i + 1, t)))
            break
    if case['mode'] == 'fake':
        o = opens[0] if opens else {}
        if o and o.get('method') != c19.METHOD[case['fn']]:
            bad.append(('C19:wire-method', '%s: Request.get_method() is %r, not %r' % (case['fn'], o.get('method'), c19.METHOD[case['fn']])))
        if status >= 400 and not obs.get('exc_is_oserror'):
            bad.append(('C19:wire-status', 'response status %d: %s' % (status, 'the call returned normally, OSError expected'
                                                                       if obs['exc'] is None else 'raised %s, not an OSError' % obs['exc'])))
        if status < 400 and obs['exc'] is not None:
            bad.append(('C19:wire-status', 'response status %d (< 400): raised %s %s' % (status, obs['exc'], obs.get('exc_text'))))
        return bad
    served = obs['served']
    if not served:
        return bad + [('C19:wire-no-request', 'nothing reached the loopback server (%s %s)' % (obs['exc'], obs.get('exc_text')))]
    bad += check_request(case, served[0], '/s%d' % status, 'first request')
    if status >= 400:
        if not obs.get('exc_is_oserror'):
            bad.append(('C19:wire-status', 'server answered %d: %s' % (status, 'the call returned normally, OSError expected'
                                                                      if obs['exc'] is None else 'raised %s' % obs['exc'])))
        if len(served) != 1:
            bad.append(('C19:wire-resend', 'server answered %d and received %d requests' % (status, len(served))))
    elif status < 300:
        if obs['exc'] is not None:
            bad.append(('C19:wire-status', 'server answered %d: raised %s %s' % (status, obs['exc'], obs.get('exc_text'))))
        if len(served) != 1:
            bad.append(('C19:wire-resend', 'server answered %d and received %d requests' % (status, len(served))))
    elif case['handler'] == 'redirect':
        if len(served) == 1:        # not followed: must not look like success
            if not obs.get('exc_is_oserror'):
                bad.append(('C19:wire-redirect', 'redirect %d was not followed and the call %s' % (
                    status, 'returned normally' if obs['exc'] is None else 'raised %s' % obs['exc'])))
        elif len(served) == 2:      # followed: the identical request, to the Location
            bad += [(s.replace('C19:wire-', 'C19:wire-redirect-'), w) for s, w in
                    check_request(case, served[1], '/t200', 'request re-sent after %d' % status)]
            if obs['exc'] is not None:
                bad.append(('C19:wire-redirect', 'redirect %d followed, final answer 200, but the call raised %s' % (status, obs['exc'])))
        else:
            bad.append(('C19:wire-resend', 'redirect %d: %d requests reached the server' % (status, len(served))))
    return bad


# --------------------------------------------------------------------------------------------- T2
def driver_line(case, obs):
    gk = lib.enc_list([lib.hx(str(k)) + ',' + lib.hx(str(v)) for k, v in case['gk']])
    opt = lambda s: '-' if s is None else lib.hx(s)
    return 'c19 wire %s %s %s %s %s %s %s %s' % (case['handler'], case['fn'], lib.hx(obs['gateway']), lib.hx(case['job']), gk,
                                                 c19.tok(case['timeout']), opt(case.get('user')), opt(case.get('pw')))


BASES = {'default': 'HTTPHandler', 'redirect': '_PrometheusRedirectHandler', 'basic': 'HTTPHandler'}


def compare_model(ctx, case, obs, reply):
    rep = reply.split(' ')
    if rep[0] != 'ok' or len(rep) != 7:
        ctx.diverge('driver error %r' % reply, case)
        return
    if not obs['opens'] or 'url' not in obs['opens'][0]:
        return
    ctx.traces += 1
    o = obs['opens'][0]
    st = c19._setup()
    text = lambda v: v.decode('latin-1') if isinstance(v, (bytes, bytearray)) else v
    # Request.add_header stores key.capitalize() (urllib, trusted): apply it to the model's names
    m_hdrs = [(k.capitalize(), v) for k, v in (c19.dec_pairs(rep[3]) or [])]
    r_hdrs = [(k, text(v)) for k, v in o['headers']]
    if lib.unhx(rep[1]) != o['url']:
        ctx.diverge('wire URL: model %r, implementation %r' % (lib.unhx(rep[1]), o['url']), case)
    if lib.unhx(rep[2]) != o['method']:
        ctx.diverge('wire method: model %r, Request.get_method() %r' % (lib.unhx(rep[2]), o['method']), case)
    if m_hdrs != r_hdrs:
        ctx.diverge('wire headers: model %r, Request.header_items() %r' % (m_hdrs, r_hdrs), case)
    if case.get('registry_none'):
        flag = rep[4]
    else:
        flag = 'X' if o['data'] == b'' else ('E' if o['data'] == st['expo'] else '?')
    if rep[4] != flag:
        ctx.diverge('wire body: model %s, implementation %s (E = exposition, X = empty)' % (rep[4], flag), case)
    r_t = o['timeout'] if isinstance(o['timeout'], str) else c19.tok(o['timeout'])
    if rep[5] != r_t:
        ctx.diverge('wire time-out: model %s, OpenerDirector.open received %s' % (rep[5], r_t), case)
    if BASES[case['handler']] not in o['handlers'] or lib.unhx(rep[6]) != BASES[case['handler']]:
        ctx.diverge('base handler: model %r, opener built from %r' % (lib.unhx(rep[6]), o['handlers']), case)


# --------------------------------------------------------------------------------------------- cases
def mk(mode, handler, fn, job, gk, timeout, status, scheme='', slashes='', host_spelled=None, user=None, pw=None, **kw):
    c = {'kind': 'hwire', 'mode': mode, 'handler': handler, 'fn': fn, 'job': job, 'gk': [list(p) for p in gk], 'timeout': timeout,
         'status': status, 'scheme': scheme, 'slashes': slashes, 'host_spelled': host_spelled, 'user': user, 'pw': pw}
    c.update(kw)
    return c


def rand_cred(rng):
    r = rng.random()
    if r < 0.15:
        return None
    if r < 0.25:
        return ''
    return c19.rand_str(rng, c19.FULL + [':'], 0, 8)


def gen_cases(ctx):
    rng = ctx.rng
    fns = ('put', 'post', 'delete')
    out = []
    # corpus: every function x every handler x every status, fixed job / key
    for fn in fns:
        for hd in ('default', 'redirect', 'basic'):
            for status in STATUSES:
                if hd != 'redirect' and status in REDIRECTS:
                    continue        # what the stock urllib redirect handler does is not the library's
                out.append(mk('loop', hd, fn, 'a b/c', [('l', 'x y+%'), ('e', '')], 7, status, user='usér', pw='p:w'))
    out.append(mk('loop', 'default', 'post', 'j', [], 7, 200, registry_none=True))
    out.append(mk('loop', 'default', 'put', 'j', [], 7, 200, registry_none=True))
    n_loop = 400 if ctx.tier == 'quick' else 8000
    n_fake = 2000 if ctx.tier == 'quick' else 40000
    if ctx.broken:
        n_loop, n_fake = n_loop * 2, n_fake * 3
    for _ in range(n_loop):
        hd = rng.choice(('default', 'default', 'redirect', 'basic'))
        status = rng.choice(STATUSES if hd == 'redirect' else [s for s in STATUSES if s not in REDIRECTS])
        out.append(mk('loop', hd, rng.choice(fns), c19.rand_str(rng, c19.FULL, 0, 10), c19.rand_gk(rng), rng.choice(LOOP_TIMEOUTS), status,
                      scheme=rng.choice(['', 'http://', 'HTTP://']), slashes=rng.choice(c19.SLASHES),
                      user=rand_cred(rng), pw=rand_cred(rng)))
    # no network: every status 100..599 once per function (threshold), then random everything
    for code in range(100, 600):
        out.append(mk('fake', 'default', fns[code % 3], 'j', [], 30, code, host_spelled='h:9091'))
    for code in (399, 400, 401):
        for hd in ('default', 'redirect', 'basic'):
            for fn in fns:
                out.append(mk('fake', hd, fn, 'j', [('l', 'v')], None, code, host_spelled='https://h/', user='u', pw='p'))
    for _ in range(n_fake):
        host, scheme, sl = c19.rand_spelling(rng)
        out.append(mk('fake', rng.choice(('default', 'redirect', 'basic')), rng.choice(fns), c19.rand_str(rng, c19.FULL, 0, 10),
                      c19.rand_gk(rng), rng.choice(ANY_TIMEOUTS), rng.choice([200, 201, 202, 204, 299, 304, 399, 400, 401, 404, 409, 500, 503, 599]),
                      scheme=scheme, slashes=sl, host_spelled=scheme + host + sl, user=rand_cred(rng), pw=rand_cred(rng)))
    return out


def run_cases(ctx, cases, loop):
    obss = [call_real(c, loop if c['mode'] == 'loop' else None) for c in cases]
    replies = ctx.driver.run([driver_line(c, o) for c, o in zip(cases, obss)])
    for i, (case, obs) in enumerate(zip(cases, obss)):
        ctx.count('handlers: %s / %s' % (case['mode'], case['handler']))
        if case['mode'] == 'loop':
            ctx.count('handlers: loopback status %d' % case['status'])
            if case['status'] in REDIRECTS and case['handler'] == 'redirect':
                key = '%s %d: %s' % (c19.METHOD[case['fn']], case['status'],
                                     're-sent (same method, body, headers)' if len(obs['served']) == 2 else 'refused (%s)' % obs['exc'])
                ctx.extra.setdefault('_redir', {})[key] = ctx.extra.setdefault('_redir', {}).get(key, 0) + 1
        first = obs['served'][0] if obs['served'] else (obs['opens'][0] if obs['opens'] else {})
        ctx.case(nontrivial_key=('h', case['mode'], case['handler'], case['fn'], case['status'], first.get('path') or first.get('url')),
                 sample={'handler': case['handler'], 'fn': case['fn'], 'gateway': obs['gateway'], 'status': case['status'],
                         'on_the_wire': (first.get('method'), first.get('path') or first.get('url')), 'raised': obs['exc']})
        for sig, what in oracle(case, obs):
            ctx.fail(sig, '%s via %s handler, gateway %r, job %r, grouping_key %r, timeout %r: %s'
                     % (case['fn'], case['handler'], obs['gateway'], case['job'], case['gk'], case['timeout'], what), dict(case))
        if replies is not None:
            compare_model(ctx, case, obs, replies[i])


# --------------------------------------------------------------------------------------------- function level
def function_level(ctx):
    rng = ctx.rng
    ex = c19._setup()['exposition']
    reqs, checks = [], []
    # status threshold: the real handle() on a stubbed response, every code 0..700
    for code in list(range(0, 701)):
        with PatchedOpen(code):
            try:
                ex.default_handler('http://h/x', 'PUT', 1, [], b'')()
                real = 'returns'
            except OSError:
                real = 'raises:OSError'
            except Exception as e:  # noqa
                real = 'raises:' + type(e).__name__
        want = 'raises:OSError' if code >= 400 else 'returns'
        if real != want:
            ctx.fail('C19:wire-status', 'default_handler(...)() on a response with status %d %s; the statement wants %s'
                     % (code, real, want), {'kind': 'hstatus', 'code': code})

        def chk(rep, code=code, real=real):
            ctx.count('fn handle status')
            if rep[1] != real:
                ctx.diverge('status %d: model %s, implementation %s' % (code, rep[1], real), {'kind': 'hstatus', 'code': code})
        reqs.append('c19 status %d' % code); checks.append(chk)
    # redirect_request: every code x method, headers and data
    for code in list(range(300, 310)) + [200, 404]:
        for m in ('PUT', 'POST', 'DELETE', 'GET', 'HEAD', 'PATCH', 'put'):
            newurl = rng.choice(['http://h/new', 'http://h/a b/c d', 'https://h:1/x?q= 1', 'http://h/%20 '])
            hs = [('Content-Type', c19.CONTENT_TYPE)] + ([('X-' + c19.rand_name(rng), c19.rand_str(rng, 'ab ;=', 0, 5))] if rng.random() < 0.5 else [])
            req = urllib.request.Request('http://h/old', data=b'B')
            req.get_method = lambda m=m: m
            for k, v in hs:
                req.add_header(k, v)
            req.timeout = 'T'
            try:
                new = ex._PrometheusRedirectHandler().redirect_request(req, None, code, 'msg', {}, newurl)
                real = ('follows', new.full_url, new.get_method(), sorted(new.header_items()), new.data)
                # the statement: an identical request
                if new.get_method() != m or new.data != b'B' or dict(new.header_items()) != dict(req.header_items()):
                    ctx.fail('C19:wire-redirect-resend', 'redirect_request(%s, %d): re-sent as %s with data %r headers %r; original %s b"B" %r'
                             % (m, code, new.get_method(), new.data, new.header_items(), m, req.header_items()),
                             {'kind': 'hredir', 'code': code, 'm': m})
            except OSError as e:
                real = ('raises:OSError',)
            except Exception as e:  # noqa
                real = ('raises:' + type(e).__name__,)

            def chk(rep, code=code, m=m, real=real, newurl=newurl, hs=hs):
                ctx.count('fn redirect_request: ' + real[0].split(':')[0])
                if rep[1] != real[0]:
                    ctx.diverge('redirect_request(method %s, code %d): model %s, implementation %s' % (m, code, rep[1], real[0]),
                                {'kind': 'hredir', 'code': code, 'm': m})
                elif real[0] == 'follows':
                    got = (lib.unhx(rep[2]), lib.unhx(rep[3]), sorted((k.capitalize(), v) for k, v in c19.dec_pairs(rep[4])), rep[5])
                    if got != (real[1], real[2], real[3], 'B'):
                        ctx.diverge('redirect_request(method %s, code %d, %r): model %r, implementation %r' % (m, code, newurl, got, real[1:]),
                                    {'kind': 'hredir', 'code': code, 'm': m})
            reqs.append('c19 redir %s %d %s %s' % (lib.hx(m), code, lib.hx(newurl), lib.enc_list([lib.hx(k) + ',' + lib.hx(v) for k, v in hs])))
            checks.append(chk)
    # base64.b64encode
    for b in [b'', b'\xfb\xff\xfe', b'u:p', bytes(range(256))] + [rng.randbytes(rng.randint(0, 30)) for _ in range(200)]:
        real = base64.b64encode(b).decode('ascii')

        def chk(rep, b=b, real=real):
            ctx.count('fn b64encode (standard alphabet)')
            if lib.unhx(rep[1]) != real:
                ctx.diverge('b64encode(%r): model %r, CPython %r' % (b, lib.unhx(rep[1]), real), {'kind': 'hb64', 'x': b.hex()})
        reqs.append('c19 b64std ' + lib.xb(b)); checks.append(chk)
    replies = ctx.driver.run(reqs)
    if replies is None:
        return
    for rep, chk, line in zip(replies, checks, reqs):
        parts = rep.split(' ')
        if parts[0] != 'ok':
            ctx.diverge('driver error %r for %r' % (rep, line), {'kind': 'hline', 'line': line})
            continue
        ctx.traces += 1
        chk(parts)


# --------------------------------------------------------------------------------------------- entry points
def run(ctx):
    ctx.rule += ('  Handlers: the DEFAULT handler (no handler argument), passthrough_redirect_handler and basic_auth_handler against a '
                 'loopback http.server answering %r (redirects only through the passthrough handler) and against a stubbed '
                 'OpenerDirector.open answering every status 100..599; jobs / grouping keys / spellings from the generators above; '
                 'time-outs %r (loopback) and %r (stub); credentials None / empty / up to 8 characters of the full alphabet and ":".'
                 % (list(STATUSES), LOOP_TIMEOUTS, ANY_TIMEOUTS))
    c19._setup()
    cases = gen_cases(ctx)
    try:
        lb = Loopback().__enter__()
    except OSError as e:
        # no loopback socket in this sandbox: the stubbed-opener half still runs, the wire half is skipped and said so
        lb = None
        ctx.extra['loopback_unavailable'] = '%s: %s' % (type(e).__name__, e)
        cases = [c for c in cases if c.get('mode') != 'loop']
    try:
        run_cases(ctx, cases, lb)
    finally:
        if lb is not None:
            lb.__exit__(None, None, None)
    function_level(ctx)
    ctx.extra['redirect_table'] = {
        'observed through passthrough_redirect_handler on the loopback server': dict(sorted(ctx.extra.pop('_redir', {}).items())),
        'note': 'which redirects are followed is the table in _PrometheusRedirectHandler.redirect_request (extracted, theorem '
                'redirect_followed_iff): PUT/POST after 301/302/303 only; every redirect of a DELETE and every 307/308 raises HTTPError '
                '(theorems delete_redirect_refused, put_post_307_308_refused) — reported as a candidate finding, not failed here'}
    ctx.extra['handlers_trusted'] = ('urllib.request.build_opener/OpenerDirector/Request.add_header (capitalises names), http.client and the '
                                     'socket layer; the stock HTTPRedirectHandler/HTTPErrorProcessor that build_opener always adds '
                                     '(they turn every non-2xx answer into HTTPError before `resp.code >= 400` is reached: the threshold is '
                                     'exercised with a stubbed opener)')


def replay(ctx, case):
    c = case.get('case', case)
    c19._setup()
    kind = c.get('kind')
    if kind == 'hwire':
        print('replaying %s via the %s handler (%s), job=%r grouping_key=%r timeout=%r, answer %d%s' % (
            c['fn'], c['handler'], 'loopback server' if c['mode'] == 'loop' else 'stubbed opener, gateway %r' % c['host_spelled'],
            c['job'], c['gk'], c['timeout'], c['status'],
            ', user=%r password=%r' % (c['user'], c['pw']) if c['handler'] == 'basic' else ''))
        with Loopback() as loop:
            run_cases(ctx, [c], loop)
            obs = call_real(c, loop if c['mode'] == 'loop' else None)
        print('observed: raised=%r; OpenerDirector.open calls: %r; requests at the server: %r' % (
            obs['exc'], [(o.get('method'), o.get('url'), o['timeout']) for o in obs['opens']],
            [(s['method'], s['path'], len(s['body']), hdr(s['headers'], 'Content-Type'), hdr(s['headers'], 'Authorization')) for s in obs['served']]))
    else:
        print('function-level handler case %r: re-running the function-level comparison' % (c,))
        function_level(ctx)
    for f in ctx.failures:
        print('REPLAY-FAIL', f['what'])
    for f in ctx.divergences:
        print('REPLAY-DIVERGE', f['what'])
    return 1 if ctx.failures or ctx.divergences else 0
