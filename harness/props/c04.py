"""C04 — OpenMetrics exposition and parser are mutually inverse.

(a) forward.  Registries are built from declarative specs — the instrumentation classes (with units, `_created`,
    `inc(exemplar=…)` / `observe(exemplar=…)`), every *MetricFamily helper, raw `Metric.add_sample` through custom collectors
    (three timestamp forms, exemplars with any label names / values / timestamps) — over the adversarial alphabet of C03.
    Oracle on the REAL code, written from the property text and independent of the Lean model:
        parse(openmetrics.generate_latest(reg)) == collected families
    on name, type, unit, help and every sample's name, label dict, value (numerically, NaN = NaN), timestamp (by denoted value
    to the nanosecond) and exemplar (label dict, value, timestamp).  The domain is rule-clean content: `rule_breaks()` is a
    Python copy of the C15 rules (from the property text) plus the structural conditions of the format (sample names within
    the type's suffix set, finite timestamps and values); content breaking one of them is counted and skipped — the parser is
    obliged to reject it.  Content that breaks NO C15 rule but that the parser rejects for a rule of its own (PARSER_ONLY) is NOT
    skipped: it is a round-trip failure on expressible content and is reported as C04:parser-only-rule:<class>.
(b) converse.  Documents from `omgen.gen_document` and mutations of them that stay accepted (native-histogram samples
    skipped): parse → expose the parsed families → parse again gives the same families (values numerically, timestamps by
    denoted value).

Two further dimensions (shared with C03, see there): any application-supplied string of a spec may be `{'sub': kind, 's': data}`,
an instance of a `str` subclass whose `__str__`/`__format__`/`__repr__` differ from its character data (label values, `le`, Info
values, states, exemplar label values, help; label / metric names where the exposition quotes them) — the reference is the
character data of the collected string; and `spec['created']`, the created-series switch in effect at scrape time.

Every failure is minimised (families, samples, then every string replaced by a benign one / every optional part dropped while
the failure persists) and classified into exactly one signature:
    (repaired in /repo: bc8d08a, 7b52129, 64745db — ordinary failure classes now; reverting a fix brings them back)
    C04:exemplar-quote-in-label              F18: '"' in an exemplar label name/value, exposition line well-formed
    C04:negative-fractional-timestamp        F10: Timestamp(sec<0, nsec!=0) was written '-1.-500000000'
    C04:negative-subsecond-timestamp         F10b: a float timestamp in (-1, 0) lost its sign
    C04:exponent-float-timestamp-mantissa    F28: repr in exponent form with >= 9 mantissa digits read by the aaaa.bbbb branch
    (known findings)
    C04:negative-bound-count-without-sum     F17: in-process Histogram with a negative first bound
    C04:duplicate-mixed-timestamp-spelling   F29 (converse only): one series twice at one instant, once as aaaa.bbbb and once in float
                                             spelling — kept on the first parse (a Timestamp never equals a float), dropped on the second
    C04:stray-quoted-sample-name             F32 (converse only): `{"\\"a\\""} 1` without metadata — the family is named `a`, its sample `"a"`;
                                             re-exposed, the sample opens a second family `a` ("Clashing name").  Not in the corpus
                                             until the signature is listed: add the document '{"\\"a\\""} 1\\n# EOF\\n' to CORPUS_DOCS then
    C04:document-sample-dropped              document direction, FIRST parse: the parser kept fewer (or more) samples of a family than the
                                             document has distinct (series, instant) pairs — judged against the generator's own description
                                             of the document (omgen describe()) or the expectation stored with a corpus document
    C04:exemplar-rendering                   a '"' in an exemplar label and the exposition line is NOT what the format asks for
    C04:label-name-unvalidated:<source>      F20 class (C03): a label name the library itself rejects reached the exposition
    C04:parser-only-rule:<class>             content that breaks no C15 rule but that the library's own parser rejects (or changes):
                                             negative-gsum-nonnegative-buckets, sum-with-negative-buckets, sum-without-count,
                                             count-without-sum (F17's rule through a custom collector), le-not-canonical,
                                             group-resumed, duplicate-series-same-timestamp
    C04:<what differs>                       anything else (never expected)
T2: `expo om <families>` of the driver = the real bytes; `om parse` = the real parse (families or error class) on every
exposition and on every document of (b); corecheck.run(ctx).
"""
import math
import re
import time
from decimal import Decimal

import corecheck
import famcodec
import lib
import omgen
from props import c03
from props import c14om

BENIGN_UNITS = ['seconds', 'bytes', 'ratio', 'total_x']
OM_SUFFIXES = {          # from the format: sample-name suffixes per family type
    'counter': ['_total', '_created'],
    'summary': ['', '_count', '_sum', '_created'],
    'histogram': ['_count', '_sum', '_bucket', '_created'],
    'gaugehistogram': ['_gcount', '_gsum', '_bucket'],
    'info': ['_info'],
}
TYPES = ['counter', 'gauge', 'summary', 'histogram', 'gaugehistogram', 'unknown', 'info', 'stateset']
LEG_LABEL = re.compile(r'[a-zA-Z_][a-zA-Z0-9_]*')


# ------------------------------------------------------------------------------------------------- values
def num(v):
    return c03.num(v)


def tsval(t):
    return c03.tsval(t)


def same_value(a, b):
    try:
        fa, fb = float(a), float(b)
    except (TypeError, ValueError, OverflowError):
        return False
    return (fa != fa and fb != fb) or fa == fb


def ts_ns(ts):
    """the value a timestamp denotes, in nanoseconds (digits beyond the ninth dropped — what the wire format carries);
    ('float', repr) for what only a double can carry is folded into the same scale through its repr"""
    from prometheus_client.samples import Timestamp
    if ts is None:
        return None
    if isinstance(ts, Timestamp):
        return ts.sec * 10 ** 9 + ts.nsec
    if isinstance(ts, bool):
        return 'bool'
    if isinstance(ts, int):
        return ts * 10 ** 9
    f = float(ts)
    if f != f or f in (math.inf, -math.inf):
        return 'nonfinite'
    return int(Decimal(repr(f)).scaleb(9))        # int() truncates toward zero


# ------------------------------------------------------------------------------------------------- spec -> registry
def ex_of(e):
    from prometheus_client.samples import Exemplar
    if e is None:
        return None
    return Exemplar(dict((k, v) for k, v in e['labels']), num(e['value']), tsval(e.get('ts')))


def build_class(reg, f):
    import prometheus_client as pc
    cls = f['src'].split(':')[1]
    kw = {}
    if cls == 'Histogram' and f.get('buckets') is not None:
        kw['buckets'] = [num(b) for b in f['buckets']]
    if cls == 'Enum':
        kw['states'] = list(f.get('states') or [])
    if f.get('unit'):
        kw['unit'] = f['unit']
    m = getattr(pc, cls)(f['name'], f['help'], list(f['labelnames']), registry=reg, **kw)
    for ch in f['children']:
        c = m.labels(*ch['lv']) if f['labelnames'] else m
        for op in ch.get('ops', []):
            ex = None if op.get('ex') is None else dict((k, v) for k, v in op['ex'])
            if cls == 'Counter':
                c.inc(num(op['v']), exemplar=ex)
            elif cls == 'Gauge':
                c.set(num(op['v']))
            elif cls == 'Summary':
                c.observe(num(op['v']))
            elif cls == 'Histogram':
                c.observe(num(op['v']), exemplar=ex)
            elif cls == 'Info':
                c.info(dict((k, v) for k, v in op['info']))
            elif cls == 'Enum':
                c.state(op['state'])


def build_raw(f):
    from prometheus_client.metrics_core import Metric
    m = Metric(f['name'], f['help'], f['type'], f.get('unit', ''))
    for s in f['samples']:
        m.add_sample(s['name'], dict((k, v) for k, v in s['labels']), num(s['value']), tsval(s.get('ts')), ex_of(s.get('ex')))
    return m


def build(spec):
    from prometheus_client import CollectorRegistry
    reg = CollectorRegistry()
    for f in c03.realise(spec['families']):
        src = f['src']
        if src.startswith('class:'):
            build_class(reg, f)
        elif src.startswith('helper:'):
            reg.register(c03._Coll([c03.build_helper(f)]))
        else:
            reg.register(c03._Coll([build_raw(f)]))
    return reg


# ------------------------------------------------------------------------------------------------- the rules (C15, from the text)
def group_labels(m, s):
    d = dict(s.labels)
    if m.type == 'summary' and s.name == m.name:
        d.pop('quantile', None)
    elif m.type == 'stateset':
        d.pop(m.name, None)
    elif m.type in ('histogram', 'gaugehistogram') and s.name == m.name + '_bucket':
        d.pop('le', None)
    return tuple(sorted(d.items()))


def fnum(x):
    try:
        return float(x)
    except (TypeError, ValueError, OverflowError):
        return None


def rule_breaks(metrics):
    """names of the rules the collected content breaks (empty = rule-clean).  From the wording of C15 — a unit that does not
    suffix the name or sits on info/stateset; histogram groups without +Inf, bounds not strictly increasing, counts not
    cumulative or not integral, _count different from the +Inf bucket; NaN or negative counter-like samples; info values other
    than 1; stateset values outside {0,1} or without the state label; quantiles outside [0,1]; timestamps going backwards or
    present on only part of a group; exemplars on ineligible samples or over 128 characters; clashing families — and the
    structure of the format itself ('~' names): a sample name outside the type's suffix set starts another family, a group
    resumed after another one is rejected, a series repeated at one timestamp is dropped as a duplicate, a timestamp must be
    finite, `le`/`quantile` must be numbers (`+Inf` spelled canonically), a `_sum` next to negative bounds and a negative
    `_gsum` next to non-negative bounds are rejected.  Deliberately NOT here: `_count` without `_sum` (F17)."""
    out = []
    claimed = set()
    for m in metrics:
        sufs = OM_SUFFIXES.get(m.type, [''])
        names = {m.name + s for s in set(sufs + [''])}
        if names & claimed:
            out.append('clashing-families')
        claimed |= names
        if m.unit and not m.name.endswith('_' + m.unit):
            out.append('unit-not-suffix')
        if m.unit and m.type in ('info', 'stateset'):
            out.append('unit-on-info-stateset')
        allowed = {m.name + s for s in sufs}
        seen_groups, cur, cur_ts, first = [], None, None, True
        series_at = set()
        for s in m.samples:
            if s.name not in allowed:
                out.append('~irregular-sample-name')
                continue
            suf = s.name[len(m.name):]
            v = fnum(s.value)
            if v is None:
                out.append('~value-not-a-number')
                continue
            tn = ts_ns(s.timestamp)
            if tn in ('nonfinite', 'bool'):
                out.append('~timestamp-not-finite')
                continue
            if suf in ('_total', '_sum', '_count', '_bucket', '_gcount', '_gsum') and v != v:
                out.append('counter-like-nan')
            if suf in ('_total', '_sum', '_count', '_bucket', '_gcount') and v < 0:
                out.append('counter-like-negative')
            if suf in ('_bucket', '_count', '_gcount') and v == v and abs(v) != math.inf and v != int(v):
                out.append('count-not-integral')
            if suf in ('_bucket', '_count', '_gcount') and abs(v) == math.inf:
                out.append('count-not-integral')
            if m.type == 'info' and v != 1:
                out.append('info-not-one')
            if m.type == 'stateset':
                if v not in (0, 1):
                    out.append('stateset-value')
                if m.name not in s.labels:
                    out.append('stateset-no-label')
            if m.type == 'summary' and suf == '':
                q = fnum(s.labels.get('quantile'))
                if q is None or not (0 <= q <= 1):
                    out.append('quantile-out-of-range')
                if v < 0:
                    out.append('quantile-value-negative')
            if suf == '_bucket' and m.type in ('histogram', 'gaugehistogram'):
                b = fnum(s.labels.get('le'))
                if b is None or b != b:
                    out.append('bucket-bound-nan')
                elif b == math.inf and s.labels['le'] != '+Inf':
                    out.append('~le-not-canonical')
            if s.exemplar is not None:
                ok = (m.type in ('histogram', 'gaugehistogram') and s.name.endswith('_bucket')) or \
                     (m.type == 'counter' and s.name.endswith('_total'))
                if not ok:
                    out.append('exemplar-ineligible')
                if sum(len(k) + len(x) for k, x in s.exemplar.labels.items()) > 128:
                    out.append('exemplar-too-long')
                if fnum(s.exemplar.value) is None:
                    out.append('~value-not-a-number')
                if ts_ns(s.exemplar.timestamp) in ('nonfinite', 'bool'):
                    out.append('~timestamp-not-finite')
            g = () if m.type == 'info' else group_labels(m, s)
            sid = (s.name, tuple(sorted(s.labels.items())))
            if first or g != cur:
                if not first and g in seen_groups:
                    out.append('~group-resumed')
                series_at = set()
            else:
                if (tn is None) != (cur_ts is None):
                    out.append('timestamp-partial')
                elif tn is not None and cur_ts is not None and m.type != 'info':
                    # the parser orders a float against a Timestamp by float(): compare as it can
                    if tn < cur_ts:
                        out.append('timestamp-backwards')
                if tn == cur_ts and sid in series_at:
                    out.append('~duplicate-series-same-timestamp')
            series_at.add(sid)
            if g not in seen_groups:
                seen_groups.append(g)
            cur, cur_ts, first = g, tn, False
        if m.type in ('histogram', 'gaugehistogram'):
            out += hist_breaks(m)
    return out


def hist_breaks(m):
    out = []
    groups = []
    for s in m.samples:
        if s.name[len(m.name):] not in ('_bucket', '_count', '_sum', '_gcount', '_gsum', '_created'):
            continue
        key = (group_labels(m, s), ts_ns(s.timestamp))
        if not groups or groups[-1][0] != key:
            groups.append((key, []))
        groups[-1][1].append(s)
    for _, ss in groups:
        buckets = [(fnum(s.labels.get('le')), fnum(s.value)) for s in ss if s.name == m.name + '_bucket']
        if any(b is None or b != b or v is None for b, v in buckets):
            continue
        if [s for s in ss if s.name[len(m.name):] in ('_bucket', '_count', '_sum', '_gcount', '_gsum')] and \
                (not buckets or buckets[-1][0] != math.inf):
            out.append('hist-no-inf')
        for (b1, v1), (b2, v2) in zip(buckets, buckets[1:]):
            if b2 <= b1:
                out.append('hist-bounds-not-increasing')
            if v2 < v1:
                out.append('hist-counts-not-cumulative')
        counts = [fnum(s.value) for s in ss if s.name[len(m.name):] in ('_count', '_gcount')]
        if counts and buckets and counts[-1] != buckets[-1][1]:
            out.append('hist-count-ne-inf')
        has_sum = any(s.name == m.name + '_sum' for s in ss)
        gsums = [fnum(s.value) for s in ss if s.name == m.name + '_gsum']
        neg = any(b < 0 for b, _ in buckets)
        if (has_sum or gsums) and not counts:
            out.append('~sum-without-count')
        if counts and not (has_sum or gsums):
            out.append('~count-without-sum')
        if neg and has_sum:
            out.append('~sum-with-negative-buckets')
        if not neg and any(g is not None and g < 0 for g in gsums):
            out.append('~negative-gsum-nonnegative-buckets')
    return out


# ------------------------------------------------------------------------------------------------- the oracle
def cmp_exemplar(e, g):
    if e is None or g is None:
        return None if (e is None and g is None) else 'exemplar-presence'
    if dict(g.labels) != dict(e.labels):
        return 'exemplar-labels'
    if not same_value(g.value, e.value):
        return 'exemplar-value'
    if ts_ns(g.timestamp) != ts_ns(e.timestamp):
        return 'exemplar-timestamp'
    return None


def cmp_families(exp, got):
    """first difference between two family lists on the fields the property names -> (class, text) or None"""
    if len(exp) != len(got):
        return ('family-count', 'expected %d families %s, parsed %d %s' % (len(exp), [(m.name, m.type) for m in exp][:6], len(got),
                                                                          [(m.name, m.type) for m in got][:6]))
    for m, p in zip(exp, got):
        for field, a, b in (('name', m.name, p.name), ('type', m.type, p.type), ('unit', m.unit, p.unit),
                            ('help', m.documentation, p.documentation)):
            if a != b:
                return ('family-' + field, 'family %r: %s exposed %r, parsed %r' % (m.name, field, a, b))
        if len(m.samples) != len(p.samples):
            return ('sample-count', 'family %r: exposed %d samples %s, parsed %d %s' % (
                m.name, len(m.samples), [s.name for s in m.samples][:8], len(p.samples), [s.name for s in p.samples][:8]))
        for i, (e, g) in enumerate(zip(m.samples, p.samples)):
            what = 'family %r sample #%d: exposed %s, parsed %s' % (m.name, i, show(e), show(g))
            if g.name != e.name:
                return ('sample-name', what)
            if g.labels is None or dict(g.labels) != dict(e.labels):
                return ('sample-labels', what)
            if g.value is None or not same_value(g.value, e.value):
                return ('sample-value', what)
            if ts_ns(g.timestamp) != ts_ns(e.timestamp):
                return ('timestamp', what)
            c = cmp_exemplar(e.exemplar, g.exemplar)
            if c:
                return (c, what)
    return None


def show(s):
    return '%r %r %r ts=%r ex=%r' % (s.name, None if s.labels is None else dict(s.labels), s.value, s.timestamp, s.exemplar)


PARSE_MSG = ['']        # message of the last ValueError the real parser raised (used for classification only)


def real_parse_fams(text, legacy):
    from prometheus_client.openmetrics import parser as OP
    c14om.set_legacy(legacy)
    PARSE_MSG[0] = ''

    def go():
        try:
            return list(OP.text_string_to_metric_families(text))
        except ValueError as e:
            PARSE_MSG[0] = str(e.args[0]) if e.args else ''
            raise
    return c14om.guarded(go)


# content that breaks no C15 rule and is nevertheless rejected (or silently changed) by the library's own parser: rules the
# parser enforces beyond the wording of C15.  Not skipped: reported as C04:parser-only-rule:<class>.  Attribution is by the
# parser's own message (a failure with another cause is never filed here).
PARSER_ONLY = {
    'negative-gsum-nonnegative-buckets': 'Cannot have negative _gsum with non-negative buckets',
    'sum-with-negative-buckets': 'Cannot have _sum with negative buckets',
    'sum-without-count': 'count must be present if _',        # _count … if _sum / _gcount … if _gsum
    'count-without-sum': '_sum/_gsum must be present if _count is present',   # F17's rule, through a custom collector
    'le-not-canonical': 'Invalid le label',
    'group-resumed': 'Invalid metric grouping',
    'duplicate-series-same-timestamp': None,                  # no error: the repeated sample is dropped
}


def ref_escape(v):
    return v.replace('\\', '\\\\').replace('\n', '\\n').replace('"', '\\"')


def ref_exemplar_labels(labels):
    """the exemplar label block as the format asks for it (for classification only): names outside the legacy alphabet quoted,
    backslash, line feed and double quote escaped"""
    items = []
    for k, v in sorted(labels.items()):
        kk = k if (LEG_LABEL.fullmatch(k) and not k.startswith('__')) else '"%s"' % ref_escape(k)
        items.append('%s="%s"' % (kk, ref_escape(v)))
    return '{' + ','.join(items) + '}'


def plain_metrics(metrics):
    """the collected families with every application string (also those of exemplars) reduced to its character data — the
    reference of the round trip"""
    out = []
    for m in c03.plain_metrics(metrics):
        if any(s.exemplar is not None and any(type(v) is not str or type(k) is not str for k, v in s.exemplar.labels.items())
               for s in m.samples):
            import copy
            m2 = copy.copy(m)
            m2.samples = [s if s.exemplar is None else s._replace(exemplar=s.exemplar._replace(
                labels={c03.chardata(k): c03.chardata(v) for k, v in s.exemplar.labels.items()})) for s in m.samples]
            m = m2
        out.append(m)
    return out


def evaluate(spec):
    """build, collect, filter, expose, parse, judge.  Pure.  -> dict"""
    from prometheus_client.openmetrics import exposition as OE
    from prometheus_client import validation as V
    legacy = bool(spec['legacy'])
    c14om.set_legacy(legacy)
    sw = c03.created_switch(spec.get('created'))
    sw.__enter__()
    try:
        try:
            reg = build(spec)
        except (ValueError, TypeError, KeyError, IndexError, AttributeError, OverflowError) as e:
            return {'skip': 'build-' + type(e).__name__}
        metrics = plain_metrics(reg.collect())
        for m in metrics:
            for smp in m.samples:
                try:
                    V._validate_metric_name(smp.name)
                except ValueError:
                    return {'skip': 'sample-name-rejected-by-Metric'}
        breaks = rule_breaks(metrics)
        parser_only = [b[1:] for b in breaks if b[1:] in PARSER_ONLY]
        breaks = [b for b in breaks if b[1:] not in PARSER_ONLY]
        if breaks:
            return {'skip': 'rule:' + breaks[0], 'metrics': metrics, 'breaks': breaks}
        try:
            text = OE.generate_latest(reg).decode('utf-8')
        except Exception as e:  # noqa
            return {'metrics': metrics, 'text': None, 'outcome': None,
                    'fail': ('expose-raises-' + type(e).__name__, 'generate_latest raised %s: %s' % (type(e).__name__, str(e)[:200]))}
    finally:
        sw.__exit__()
        c14om.set_legacy(False)
    outcome = real_parse_fams(text, legacy)
    c14om.set_legacy(False)
    if outcome[0] == 'timeout':
        fail = ('parse-timeout', 'parsing the exposition did not finish')
    elif outcome[0] == 'err':
        fail = ('parse-raises-' + outcome[1], 'parsing the exposition raised %s in %s; expected the exposed families' % (outcome[1], outcome[2]))
    else:
        fail = cmp_families(metrics, outcome[1])
    return {'metrics': metrics, 'text': text, 'outcome': outcome, 'fail': fail, 'parser_only': parser_only, 'msg': PARSE_MSG[0],
            'failkey': None if fail is None else fail[0] + '|' + PARSE_MSG[0].split(':')[0][:60]}


# ------------------------------------------------------------------------------------------------- minimise + classify
def strings_of(spec):
    """paths of every string / optional part of a spec that minimisation may simplify"""
    paths = []
    for i, f in enumerate(spec['families']):
        if f['src'] == 'raw':
            for j, s in enumerate(f['samples']):
                for k in range(len(s['labels'])):
                    paths.append(('lv', i, j, k))
                if s.get('ts') is not None:
                    paths.append(('ts', i, j))
                if s.get('ex') is not None:
                    paths.append(('ex', i, j))
                    for k in range(len(s['ex']['labels'])):
                        paths.append(('exk', i, j, k))
                        paths.append(('exv', i, j, k))
                    if s['ex'].get('ts') is not None:
                        paths.append(('exts', i, j))
        elif f['src'].startswith('class:'):
            for j, ch in enumerate(f['children']):
                for k in range(len(ch['lv'])):
                    paths.append(('clv', i, j, k))
                for o, op in enumerate(ch.get('ops', [])):
                    if op.get('ex') is not None:
                        paths.append(('cex', i, j, o))
                        for k in range(len(op['ex'])):
                            paths.append(('cexk', i, j, o, k))
                            paths.append(('cexv', i, j, o, k))
        paths.append(('help', i))
    return paths


def simplify(spec, path):
    import copy
    sp = copy.deepcopy(spec)
    kind = path[0]
    f = sp['families'][path[1]]
    if kind == 'help':
        if f['help'] == 'h':
            return None
        f['help'] = 'h'
    elif kind == 'lv':
        lab = f['samples'][path[2]]['labels'][path[3]]
        if lab[1] == 'v':
            return None
        lab[1] = 'v'
    elif kind == 'ts':
        f['samples'][path[2]]['ts'] = None
    elif kind == 'ex':
        f['samples'][path[2]]['ex'] = None
    elif kind in ('exk', 'exv'):
        e = f['samples'][path[2]].get('ex')
        if e is None or path[3] >= len(e['labels']):
            return None
        lab = e['labels'][path[3]]
        new = ('k%d' % path[3]) if kind == 'exk' else 'v'
        idx = 0 if kind == 'exk' else 1
        if lab[idx] == new:
            return None
        lab[idx] = new
    elif kind == 'exts':
        e = f['samples'][path[2]].get('ex')
        if e is None:
            return None
        e['ts'] = None
    elif kind == 'clv':
        lv = f['children'][path[2]]['lv']
        if lv[path[3]] == 'v%d' % path[2]:
            return None
        lv[path[3]] = 'v%d' % path[2]
    elif kind == 'cex':
        f['children'][path[2]]['ops'][path[3]]['ex'] = None
    elif kind in ('cexk', 'cexv'):
        e = f['children'][path[2]]['ops'][path[3]].get('ex')
        if e is None or path[4] >= len(e):
            return None
        new = ('k%d' % path[4]) if kind == 'cexk' else 'v'
        idx = 0 if kind == 'cexk' else 1
        if e[path[4]][idx] == new:
            return None
        e[path[4]][idx] = new
    return sp


def minimise(spec, cls, budget_s=3.0):
    """smaller spec that still fails with the same failure class (and the same parser message, so that minimisation cannot drift
    from one cause to another)"""
    t0 = time.time()

    def fails(sp):
        if time.time() - t0 > budget_s:
            return False
        r = evaluate(sp)
        return r.get('failkey') == cls
    fams = list(spec['families'])
    if len(fams) > 1:
        for f in fams:
            if fails(dict(spec, families=[f])):
                fams = [f]
                break
        else:
            fams = lib.shrink_list(fams, lambda xs: fails(dict(spec, families=xs)))
    spec = dict(spec, families=fams)
    for key in ('samples', 'children'):
        for i, f in enumerate(spec['families']):
            if key in f and len(f[key]) > 1:
                def inner(xs, i=i, key=key):
                    g = dict(spec['families'][i])
                    g[key] = xs
                    return fails(dict(spec, families=spec['families'][:i] + [g] + spec['families'][i + 1:]))
                single = [x for x in f[key] if inner([x])]
                xs = [single[0]] if single else lib.shrink_list(f[key], inner)
                g = dict(f)
                g[key] = xs
                spec = dict(spec, families=spec['families'][:i] + [g] + spec['families'][i + 1:])
    changed = True
    while changed and time.time() - t0 < budget_s:
        changed = False
        for p in strings_of(spec):
            sp = simplify(spec, p)
            if sp is not None and fails(sp):
                spec = sp
                changed = True
                break
    return spec


def exposed_ts_kinds(metrics):
    """what is special about the timestamps of the collected samples and exemplars"""
    from prometheus_client.samples import Timestamp
    kinds = set()
    tss = []
    for m in metrics:
        for s in m.samples:
            tss.append(s.timestamp)
            if s.exemplar is not None:
                tss.append(s.exemplar.timestamp)
    for t in tss:
        if t is None or isinstance(t, bool):
            continue
        if isinstance(t, Timestamp):
            if t.sec < 0 and t.nsec != 0:
                kinds.add('neg-stamp')
        elif isinstance(t, float):
            r = repr(t)
            if 'e' in r:
                mant = r.split('e')[0]
                if '.' in mant and len(mant.split('.')[1]) >= 9:
                    kinds.add('exp-mantissa')
            elif -1 < t < 0:
                kinds.add('neg-subsecond')
    return kinds


def classify(spec, res):
    """exactly one signature for a (minimised) failing spec"""
    cls, what = res['fail']
    metrics = res.get('metrics') or []
    text = res.get('text') or ''
    legacy = bool(spec['legacy'])
    # F20 class: a label name the library's own rule rejects
    for f, m in zip(spec['families'], metrics) if len(spec['families']) == len(metrics) else []:
        for s in m.samples:
            for k in s.labels:
                if k.startswith('__') or (legacy and not LEG_LABEL.fullmatch(k)):
                    return 'C04:label-name-unvalidated:' + f['src']
    # F17: in-process Histogram with a negative first bound: `_count` without `_sum`
    if cls.startswith('parse-raises-ValueError'):
        for f, m in zip(spec['families'], metrics) if len(spec['families']) == len(metrics) else []:
            if f['src'] == 'class:Histogram' and m.type == 'histogram':
                names = {s.name for s in m.samples}
                les = [fnum(s.labels.get('le')) for s in m.samples if s.name == m.name + '_bucket']
                if m.name + '_count' in names and m.name + '_sum' not in names and any(b is not None and b < 0 for b in les):
                    return 'C04:negative-bound-count-without-sum'
    # rules the parser enforces beyond C15 (attributed by the parser's own message)
    po = res.get('parser_only') or []
    msg = res.get('msg') or ''
    if cls.startswith('parse-raises-ValueError'):
        for name in po:
            pat = PARSER_ONLY[name]
            if pat and pat in msg:
                return 'C04:parser-only-rule:' + name
    if cls == 'sample-count' and 'duplicate-series-same-timestamp' in po and not exposed_ts_kinds(metrics):
        return 'C04:parser-only-rule:duplicate-series-same-timestamp'
    # F18: a double quote in an exemplar label name or value, on a line the exposition rendered as the format asks
    quoted = [s for m in metrics for s in m.samples if s.exemplar is not None and
              any('"' in k or '"' in v for k, v in s.exemplar.labels.items())]
    if quoted:
        # (minimisation has already replaced every string that is not needed for the failure)
        if all(ref_exemplar_labels(s.exemplar.labels) in text for s in quoted):
            return 'C04:exemplar-quote-in-label'
        return 'C04:exemplar-rendering'
    kinds = exposed_ts_kinds(metrics)
    if 'neg-stamp' in kinds and cls.startswith('parse-raises-ValueError'):
        return 'C04:negative-fractional-timestamp'
    if 'neg-subsecond' in kinds and cls in ('timestamp', 'exemplar-timestamp', 'sample-count'):
        return 'C04:negative-subsecond-timestamp'
    if 'exp-mantissa' in kinds and cls in ('timestamp', 'exemplar-timestamp'):
        return 'C04:exponent-float-timestamp-mantissa'
    return 'C04:' + cls


# ------------------------------------------------------------------------------------------------- generators
def note_none(_):
    pass


CLEAN = [True]          # generator mode: avoid the input class of the known finding F17 (most cases)


def gen_ts_single(rng, note):
    """one timestamp for an exemplar"""
    form = rng.choice(['none', 'none', 'int', 'stamp', 'float', 'float-frac', 'float-exp', 'neg', 'now'])
    note('ex-ts:' + form)
    if form == 'none':
        return None
    if form == 'int':
        return {'i': rng.choice([0, 1, 1520879607, rng.randrange(0, 2 ** 40)])}
    if form == 'stamp':
        return {'s': [rng.randrange(0, 2 ** 33), rng.choice([0, 1, 500000, 999999999, rng.randrange(0, 10 ** 9)])]}
    if form == 'float':
        return {'f': lib.bits_of(rng.choice([0.0, 1.5, 17.25, 1520879607.5, 2.0 ** 40]))}
    if form == 'float-frac':
        return {'f': lib.bits_of(rng.choice([0.1, 1.123456789, 1e-9 + 1, 2.999999999, 1234.5678, 1700000000.1234567]))}
    if form == 'now':
        return {'f': lib.bits_of(1.7e9 + rng.random() * 1e8)}
    if form == 'float-exp':
        xs = [1e16, 1.5e16, 2e22, 1e-5, 1.5e-7, 1e300, 1.234567891e-05, 1.2345678912345678e+16]
        return {'f': lib.bits_of(rng.choice(xs))}
    xs = [{'i': -5}, {'f': lib.bits_of(-100.5)}, {'s': [-100, 0]}, {'f': lib.bits_of(-1.0)}, {'s': [-100, 5]}, {'f': lib.bits_of(-0.5)},
          {'f': lib.bits_of(-0.0005)}, {'f': lib.bits_of(-0.0)}, {'s': [-1, 999999999]}]
    return rng.choice(xs)


def gen_ex_labels(rng, legacy, allow_quote=None):
    if allow_quote is None:
        allow_quote = True
    n = rng.choice([0, 1, 1, 2, 3])
    names = c03.gen_labelnames(rng, legacy, n)
    out = []
    budget = 128
    for k in names:
        v = c03.gen_lvalue(rng)
        if rng.random() < 0.1:
            v = rng.choice(['é', '😀', 'x', '温']) * rng.choice([20, 60, 100, 127, 128])
        if not allow_quote:
            v = v.replace('"', "'")
            k = k.replace('"', "'")
        if len(k) + len(v) > budget:
            v = v[:max(0, budget - len(k))]
        if len(k) > budget:
            continue
        budget -= len(k) + len(v)
        out.append([k, v])
    return out


def gen_ex(rng, legacy, note):
    vc, v = c03.gen_value(rng)
    return {'labels': gen_ex_labels(rng, legacy), 'value': v, 'ts': gen_ts_single(rng, note)}


def fb(x):
    return {'b': lib.bits_of(x)}


def gen_class_family(rng, legacy, idx, note):
    cls = rng.choice(['Counter', 'Counter', 'Gauge', 'Summary', 'Histogram', 'Histogram', 'Info', 'Enum'])
    name = c03.gen_name(rng, legacy, idx)
    k = rng.choice([0, 0, 1, 1, 2])
    lnames = c03.gen_labelnames(rng, legacy, k, exclude=('le', 'quantile', name))
    f = {'src': 'class:' + cls, 'name': name, 'help': c03.gen_help(rng), 'labelnames': lnames, 'children': [], 'unit': ''}
    if cls in ('Counter', 'Gauge', 'Summary', 'Histogram') and rng.random() < 0.3:
        f['unit'] = rng.choice(BENIGN_UNITS)
    if cls == 'Histogram' and rng.random() < 0.6:
        bs = sorted(set(rng.choice([-1.0, 0.0, 0.5, 1.0, 2.5, 1e6, 1e21] if not CLEAN[0] else [0.0, 0.5, 1.0, 2.5, 1e6, 1e21])
                        for _ in range(3)))
        f['buckets'] = [fb(b) for b in bs]
    if cls == 'Enum':
        f['states'] = list(dict.fromkeys(c03.gen_lvalue(rng) for _ in range(rng.choice([1, 2, 3]))))
    nch = 1 if not lnames else rng.choice([0, 1, 1, 2, 3])
    seen = set()
    for _ in range(nch):
        lv = [c03.gen_lvalue(rng) for _ in lnames]
        if tuple(lv) in seen:
            continue
        seen.add(tuple(lv))
        ops = []
        for _ in range(rng.choice([0, 1, 1, 2, 3])):
            if cls in ('Counter', 'Summary', 'Histogram'):
                v = rng.choice([fb(0.0), fb(1.0), fb(2.5), {'i': 3}, fb(1e6), fb(0.1), fb(7.0)])
                if cls == 'Histogram' and rng.random() < 0.3:
                    v = fb(rng.choice([-0.5, -2.0, 0.0, 3.0]))
            else:
                vc, v = c03.gen_value(rng)
                note('value:' + vc)
            op = {'v': v}
            if cls in ('Counter', 'Histogram') and rng.random() < 0.5:
                op['ex'] = gen_ex_labels(rng, legacy)
                note('exemplar:class')
            if cls == 'Info':
                keys = c03.gen_labelnames(rng, legacy, rng.choice([0, 1, 2]), exclude=lnames)
                op = {'info': [[kk, c03.gen_lvalue(rng)] for kk in keys]}
            if cls == 'Enum':
                op = {'state': rng.choice(f['states'])}
            ops.append(op)
        f['children'].append({'lv': lv, 'ops': ops})
    return f


def gen_ts_group(rng, n, note):
    """n timestamps for consecutive samples of one group: all absent, or non-decreasing in one of the three forms"""
    form = rng.choice(['none', 'none', 'none', 'int', 'stamp', 'float', 'float-frac', 'mixed', 'neg', 'float-exp', 'stamp-ns'])
    note('ts-form:' + form)
    if form == 'none':
        return [None] * n
    base = rng.choice([0, 1, 17, 1520879607, 123456])
    out = []
    for k in range(n):
        if form == 'int':
            out.append({'i': base + k * rng.choice([0, 1, 5])})
        elif form == 'stamp':
            out.append({'s': [base + k, rng.choice([0, 1, 500000000, 999999999, 123456789])]})
        elif form == 'stamp-ns':
            out.append({'s': [base, k * rng.choice([1, 1, 2, 1000])]})          # differs only in nanoseconds
        elif form == 'float':
            out.append({'f': lib.bits_of(float(base + k) + rng.choice([0.0, 0.5, 0.25, 0.125]))})
        elif form == 'float-frac':
            out.append({'f': lib.bits_of(base + k + rng.choice([0.1, 0.123456789, 1e-9, 0.999999999, 0.0005, 1234.5678]))})
        elif form == 'float-exp':
            out.append({'f': lib.bits_of(rng.choice([1e16, 1.5e16, 2e22, 1e-5, 1.5e-7, 1.234567891e-05, 1.2345678912345678e+16]) * (k + 1))})
        elif form == 'neg':
            out.append(rng.choice([{'i': -100 + k}, {'f': lib.bits_of(-100.5 + k)}, {'s': [-100 + k, 0]}, {'s': [-100 + k, 5]},
                                   {'f': lib.bits_of(-0.5 + k)}]))
        else:
            out.append(rng.choice([{'i': base + k}, {'f': lib.bits_of(base + k + 0.5)}, {'s': [base + k, 5]}]))
    return out


def gen_raw_family(rng, legacy, idx, note):
    typ = rng.choice(TYPES)
    name = c03.gen_name(rng, legacy, idx)
    unit = ''
    if typ not in ('info', 'stateset') and rng.random() < 0.3:
        unit = rng.choice(BENIGN_UNITS)
        name = name + '_' + unit
    f = {'src': 'raw', 'name': name, 'help': c03.gen_help(rng), 'type': typ, 'unit': unit, 'samples': []}
    forbidden = {'summary': ('quantile',), 'histogram': ('le',), 'gaugehistogram': ('le',), 'stateset': (name,)}.get(typ, ())
    seen = set()
    for _ in range(rng.choice([0, 1, 1, 2, 3])):
        lnames = c03.gen_labelnames(rng, legacy, rng.choice([0, 1, 1, 2]), exclude=forbidden)
        labels = [[ln, c03.gen_lvalue(rng)] for ln in lnames]
        key = tuple(sorted((k, v) for k, v in labels))
        if key in seen:
            continue
        seen.add(key)
        group = []

        def S(suffix, value, extra=None, ex=False):
            ls = [list(x) for x in labels]
            if extra:
                ls.insert(rng.randrange(0, len(ls) + 1), list(extra))
            s = {'name': name + suffix, 'labels': ls, 'value': value, 'ts': None, 'ex': None}
            if ex and rng.random() < 0.5:
                s['ex'] = gen_ex(rng, legacy, note)
                note('exemplar:raw')
            group.append(s)

        def gv(nonneg=False):
            vc, v = c03.gen_value(rng, nonneg=nonneg)
            note('value:' + vc)
            return v

        def cnt(n):
            return rng.choice([{'i': n}, fb(float(n))])
        if typ == 'counter':
            for _ in range(rng.choice([1, 1, 2])):
                S('_total', rng.choice([fb(0.0), fb(1.5), {'i': 7}, fb(1e21), fb(math.inf), {'i': 2 ** 60}]), ex=True)
            if rng.random() < 0.5:
                S('_created', gv())
        elif typ in ('gauge', 'unknown'):
            for _ in range(rng.choice([1, 1, 2])):
                S('', gv())
        elif typ == 'summary':
            for q in rng.sample(['0', '0.5', '0.99', '1', '1.0', '1e-1'], rng.choice([0, 1, 2])):
                S('', rng.choice([fb(0.0), fb(2.5), fb(math.nan), fb(math.inf)]), extra=('quantile', q))
            if rng.random() < 0.8:
                S('_count', cnt(rng.randrange(0, 50)))
                S('_sum', rng.choice([fb(0.0), fb(12.5), fb(math.inf)]))
            if rng.random() < 0.3:
                S('_created', gv())
            if not group:
                S('_count', cnt(0))
        elif typ in ('histogram', 'gaugehistogram'):
            neg = rng.random() < 0.2
            bounds = sorted(set(rng.sample([-5.0, -1.0, -0.5] if neg else [0.0, 0.005, 1.0], rng.choice([1, 2])) +
                                rng.sample([0.1, 2.5, 10.0, 1e6, 1e21], rng.choice([0, 1, 2]))))
            les = [famcodec_go(b) for b in bounds] + ['+Inf']
            c = 0
            cum = []
            for _ in les:
                c += rng.choice([0, 0, 1, 3, 10])
                cum.append(c)
            for le, cv in zip(les, cum):
                S('_bucket', cnt(cv), extra=('le', le), ex=True)
            if typ == 'histogram':
                if not neg and rng.random() < 0.8:
                    S('_count', cnt(cum[-1]))
                    S('_sum', rng.choice([fb(0.0), fb(12.5)]))
                elif neg and not CLEAN[0] and rng.random() < 0.3:
                    S('_count', cnt(cum[-1]))           # F17 shape through a custom collector
                if rng.random() < 0.3:
                    S('_created', gv())
            else:
                if rng.random() < 0.8:
                    S('_gcount', cnt(cum[-1]))
                    S('_gsum', rng.choice([fb(0.0), fb(12.5)] + ([fb(-3.0)] if neg else [])))
        elif typ == 'info':
            S('_info', rng.choice([{'i': 1}, fb(1.0)]))
        elif typ == 'stateset':
            for st in dict.fromkeys(c03.gen_lvalue(rng) for _ in range(rng.choice([1, 2, 3]))):
                S('', rng.choice([{'i': 0}, {'i': 1}, fb(1.0)]), extra=(name, st))
        # one timestamp form per group; a histogram group keeps ONE timestamp (a change of timestamp starts a new group)
        if typ in ('histogram', 'gaugehistogram'):
            t = gen_ts_group(rng, 1, note)[0]
            for s in group:
                s['ts'] = t
        else:
            for s, t in zip(group, gen_ts_group(rng, len(group), note)):
                s['ts'] = t
        # a series repeated at a later timestamp (kept by the parser) — the nanosecond-only difference included
        if typ in ('gauge', 'counter', 'unknown') and group and group[-1]['ts'] is not None and rng.random() < 0.3:
            import copy
            rep = copy.deepcopy(group[-1])
            t = rep['ts']
            if 's' in t:
                rep['ts'] = {'s': [t['s'][0], t['s'][1] + 1]} if t['s'][1] < 999999999 and t['s'][0] >= 0 else None
            elif 'i' in t:
                rep['ts'] = {'i': t['i'] + 1}
            else:
                rep['ts'] = None
            if rep['ts'] is not None and rep['name'] == group[-1]['name']:
                group.append(rep)
                note('repeat-series-later-ts')
        f['samples'] += group
    return f


def famcodec_go(b):
    from prometheus_client.utils import floatToGoString
    return floatToGoString(b)


def gen_registry(rng, legacy, note):
    fams = []
    for idx in range(rng.choice([1, 1, 2, 3])):
        r = rng.random()
        if r < 0.3:
            fams.append(gen_class_family(rng, legacy, idx, note))
        elif r < 0.45:
            f = c03.gen_helper_family(rng, legacy, idx, note)
            fams.append(f)
        else:
            fams.append(gen_raw_family(rng, legacy, idx, note))
    spec = {'kind': 'registry', 'legacy': legacy, 'families': fams}
    trng = TYPED_RNG[0]                  # the two added dimensions draw from their own stream (derived from the run's seed)
    r = trng.random()
    if r < 0.2:
        spec['created'] = False          # created series switched off at scrape time (custom collectors still yield them)
    elif r < 0.25:
        spec['created'] = True
    note('created-switch:%s' % spec.get('created', 'default'))
    if trng.random() < 0.3:
        c03.wrap_strings(trng, spec, note)
    return spec


import random as _random
TYPED_RNG = [_random.Random(0)]


ONE = {'b': lib.bits_of(1.0)}


def corpus_specs():
    out = []
    # str-subclass instances in every string position / the created-series switch (the C03 corpus, custom-collector part)
    for tag, spec in c03.typed_corpus_specs():
        if all(not f['src'].startswith('class:') for f in spec['families']):
            out.append((tag, spec))
    for legacy in (True, False):
        for kind in c03.SUB_KINDS:
            S = lambda d: {'sub': kind, 's': d}
            out.append(('corpus:str-subclass', {'kind': 'registry', 'legacy': legacy, 'families': [
                {'src': 'class:Info', 'name': 'build', 'help': S('Build'), 'labelnames': ['l'], 'children': [
                    {'lv': [S('x')], 'ops': [{'info': [['version', S('v1')], ['note', S('a"b')]]}]}]},
                {'src': 'class:Counter', 'name': 'hits', 'help': S('a\\nb'), 'labelnames': ['l'], 'children': [
                    {'lv': [S('GET')], 'ops': [{'v': ONE, 'ex': [['trace', S('abc123')]]}]}]},
                {'src': 'raw', 'name': 'lat', 'help': S('200'), 'type': 'histogram', 'unit': '', 'samples': [
                    {'name': 'lat_bucket', 'labels': [['le', S('+Inf')], ['m', S('GET')]], 'value': ONE, 'ts': None,
                     'ex': {'labels': [['id', S('x9')]], 'value': ONE, 'ts': None}},
                    {'name': 'lat_count', 'labels': [['m', S('GET')]], 'value': ONE, 'ts': None},
                    {'name': 'lat_sum', 'labels': [['m', S('GET')]], 'value': ONE, 'ts': None}]}]}))
    for legacy in (False, True):
        R = lambda fams: {'kind': 'registry', 'legacy': legacy, 'families': fams}
        C = lambda name, ops, unit='': {'src': 'class:Counter', 'name': name, 'help': 'h', 'labelnames': [], 'unit': unit,
                                        'children': [{'lv': [], 'ops': ops}]}
        raw = lambda name, typ, samples, unit='', help_='h': {'src': 'raw', 'name': name, 'help': help_, 'type': typ, 'unit': unit,
                                                               'samples': samples}
        smp = lambda name, labels=(), value=ONE, ts=None, ex=None: {'name': name, 'labels': [list(x) for x in labels], 'value': value,
                                                                    'ts': ts, 'ex': ex}
        # F18 and its neighbours
        out.append(('corpus:f18', R([C('c', [{'v': ONE, 'ex': [['a', 'x"y']]}])])))
        out.append(('corpus:f18', R([raw('c', 'counter', [smp('c_total', ex={'labels': [['a', '\r"']], 'value': ONE, 'ts': None})])])))
        out.append(('corpus:exemplar', R([C('c', [{'v': ONE, 'ex': [['a', 'x\\y\nz}{ # ,=']]}])])))
        if not legacy:
            out.append(('corpus:f18', R([C('c', [{'v': ONE, 'ex': [['a"b', 'v']]}])])))
            out.append(('corpus:exemplar', R([C('c', [{'v': ONE, 'ex': [['a b', 'x'], ['é', 'y'], ['}', '{']]}])])))
        out.append(('corpus:exemplar', R([C('c', [{'v': ONE, 'ex': [['a', 'é' * 127]]}])])))
        out.append(('corpus:exemplar', R([C('c', [{'v': ONE, 'ex': [['trace_id', '😀' * 120]]}])])))
        out.append(('corpus:exemplar', R([C('c', [{'v': ONE, 'ex': []}])])))
        # F20 class (C03): label names the library itself rejects reach the exposition unvalidated
        out.append(('corpus:unvalidated-label', R([{'src': 'class:Enum', 'name': '__e', 'help': 'h', 'labelnames': [], 'unit': '', 'states': ['a', 'b'],
                                                    'children': []}])))
        out.append(('corpus:unvalidated-label', R([{'src': 'helper:GaugeMetricFamily', 'name': 'g', 'help': 'h', 'labels': ['__x'],
                                                    'adds': [{'lv': ['v'], 'value': ONE, 'ts': None}]}])))
        # rules the parser enforces beyond C15, on content expressible through the public API
        Z, O = {'i': 0}, {'i': 1}
        out.append(('corpus:parser-only', R([{'src': 'helper:GaugeHistogramMetricFamily', 'name': 'gh', 'help': 'h', 'labels': [], 'direct': True,
                                              'adds': [{'lv': [], 'buckets': [['1.0', Z], ['+Inf', O]], 'gsum': fb(-0.5), 'ts': None}]}])))
        out.append(('corpus:parser-only', R([{'src': 'helper:HistogramMetricFamily', 'name': 'hh', 'help': 'h', 'labels': [], 'direct': True,
                                              'adds': [{'lv': [], 'buckets': [['1.0', Z], ['inf', O]], 'sum': fb(0.5), 'ts': None}]}])))
        out.append(('corpus:parser-only', R([raw('hn', 'histogram', [smp('hn_bucket', [('le', '-1.0')], value=Z), smp('hn_bucket', [('le', '+Inf')], value=O),
                                                                     smp('hn_count', value=O), smp('hn_sum', value=fb(0.5))])])))
        out.append(('corpus:parser-only', R([raw('hs', 'histogram', [smp('hs_bucket', [('le', '+Inf')], value=O), smp('hs_sum', value=ONE)])])))
        out.append(('corpus:parser-only', R([raw('hc', 'histogram', [smp('hc_bucket', [('le', '+Inf')], value=O), smp('hc_count', value=O)])])))
        out.append(('corpus:parser-only', R([raw('gr', 'gauge', [smp('gr', [('a', '1')]), smp('gr', [('a', '2')]), smp('gr', [('a', '1')], value=fb(2.0))])])))
        out.append(('corpus:parser-only', R([raw('du', 'gauge', [smp('du', [('a', '1')]), smp('du', [('a', '1')], value=fb(2.0))])])))
        # F17
        out.append(('corpus:f17', R([{'src': 'class:Histogram', 'name': 'h', 'help': 'h', 'labelnames': [], 'unit': '',
                                      'buckets': [fb(-1.0), fb(0.0), fb(1.0)], 'children': [{'lv': [], 'ops': [{'v': fb(0.5)}]}]}])))
        # timestamps: the three forms, F10, F10b, F28, on samples and exemplars
        tss = [{'i': 5}, {'i': -5}, {'i': 0}, {'f': lib.bits_of(1.5)}, {'f': lib.bits_of(123456789.12345679)}, {'s': [3, 5]}, {'s': [3, 0]},
               {'s': [-3, 0]}, {'f': lib.bits_of(1e16)}, {'f': lib.bits_of(1e-07)}, {'f': lib.bits_of(1.5e-7)}, {'f': lib.bits_of(5.0)},
               {'f': lib.bits_of(-1.5)}, {'f': lib.bits_of(1.0000000001)}, {'f': lib.bits_of(2.0 ** 60)}]
        for i, t in enumerate(tss):
            out.append(('corpus:ts', R([raw('t', 'gauge', [smp('t', [('i', str(i))], ts=t)])])))
            out.append(('corpus:ex-ts', R([raw('t', 'counter', [smp('t_total', [('i', str(i))], ex={'labels': [['x', 'y']], 'value': ONE, 'ts': t})])])))
        for t in [{'s': [-3, 5]}, {'f': lib.bits_of(-0.5)}, {'f': lib.bits_of(1.234567891e-05)}, {'f': lib.bits_of(1.2345678912345678e+16)}]:
            out.append(('corpus:ts-findings', R([raw('t', 'gauge', [smp('t', ts=t)])])))
        # repeated series at a later timestamp, nanosecond difference only
        out.append(('corpus:repeat', R([raw('t', 'gauge', [smp('t', ts={'s': [1, 1]}), smp('t', ts={'s': [1, 2]}), smp('t', ts={'s': [1, 3]})])])))
        out.append(('corpus:repeat', R([raw('t', 'gauge', [smp('t', ts={'i': 1}), smp('t', ts={'f': lib.bits_of(1.000000001)})])])))
        # several points of one series at a realistic epoch: nanoseconds differing by 1, by 1000, seconds differing (a double cannot
        # tell the first ones apart at 1.7e9 s — the parser's duplicate filter must compare (sec, nsec))
        E = 1700000000
        out.append(('corpus:repeat-epoch', R([raw('t', 'gauge', [smp('t', [('a', 'x')], value=fb(float(i)), ts={'s': [E, n]})
                                                                 for i, n in enumerate([1, 2, 3])])])))
        out.append(('corpus:repeat-epoch', R([raw('t', 'gauge', [smp('t', [('a', 'x')], value=fb(float(i)), ts={'s': [E, n]})
                                                                 for i, n in enumerate([0, 1000, 2000, 999999999])])])))
        out.append(('corpus:repeat-epoch', R([raw('t', 'counter', [smp('t_total', [('a', 'x')], value=fb(float(i)), ts={'s': [E + d, n]})
                                                                   for i, (d, n) in enumerate([(0, 5), (0, 6), (1, 5), (1, 6), (2, 0)])])])))
        out.append(('corpus:repeat-epoch', R([raw('t', 'gauge', [smp('t', ts={'s': [E, 100]}), smp('t', ts={'s': [E, 101]}),
                                                                 smp('t', [('b', 'y')], ts={'s': [E, 101]}), smp('t', [('b', 'y')], ts={'s': [E, 102]})])])))
        # _created, units (legacy and UTF-8 names), empty family, HELP shapes, special values
        out.append(('corpus:created', R([C('c', [{'v': ONE}], unit='seconds')])))
        for doc in ['a\\nb', '', '\\', 'x\\', '"q"', ' lead', 'trail ', 'a\nb', '\\\\n', 'a  b', '\\"', 'n\\n\n', '# EOF', '\xa0x']:
            out.append(('corpus:help', R([raw('m', 'gauge', [smp('m')], help_=doc)])))
        out.append(('corpus:empty', R([raw('e%d' % i, t, []) for i, t in enumerate(TYPES)])))
        out.append(('corpus:values', R([raw('m', 'gauge', [smp('m', [('i', str(i))], value=fb(v)) for i, v in enumerate(
            [math.inf, -math.inf, math.nan, -0.0, 1e300, 5e-324, 1e16, 123456789.0, 1e21])] + [smp('m', [('i', 'big')], value={'i': 2 ** 63 + 1})])])))
        if not legacy:
            out.append(('corpus:utf8-unit', R([{'src': 'class:Gauge', 'name': 'g é', 'help': 'h', 'labelnames': ['l x'], 'unit': 'seconds',
                                                'children': [{'lv': ['v"\\\n'], 'ops': [{'v': ONE}]}]}])))
            for nm in ['a b', 'é', 'a"b', 'a\\', 'a\nb', '{', '}', 'a,b', 'a=b', '#', ' # ', 'a{l="v"} 1', '"', 'a # {b="c"} 1']:
                out.append(('corpus:utf8-names', R([
                    raw(nm, 'counter', [smp(nm + '_total', [(nm + 'l', nm), ('z', 'v')], ts={'f': lib.bits_of(1.5)},
                                            ex={'labels': [[nm + 'k', nm.replace('"', '')]], 'value': ONE, 'ts': {'s': [7, 5]}})]),
                    raw(nm + '2', 'histogram', [smp(nm + '2_bucket', [('le', '+Inf'), (nm, nm)], value={'i': 3},
                                                    ex={'labels': [], 'value': ONE, 'ts': None}), smp(nm + '2_count', [(nm, nm)], value={'i': 3}),
                                                smp(nm + '2_sum', [(nm, nm)], value=ONE)])])))
    return out


# ------------------------------------------------------------------------------------------------- (b) the converse
class _Fams:
    def __init__(self, fams):
        self.fams = fams

    def collect(self):
        return list(self.fams)


def has_nh(fams):
    return any(s.native_histogram is not None for m in fams for s in m.samples)


def doc_ts_kinds(fams):
    return exposed_ts_kinds(fams)


def converse(doc, legacy):
    """parse → expose → parse.  -> dict(skip=…) | dict(fail=(cls, what) | None, fams=…, text2=…)"""
    from prometheus_client import CollectorRegistry
    from prometheus_client.openmetrics import exposition as OE
    o1 = real_parse_fams(doc, legacy)
    c14om.set_legacy(False)
    if o1[0] != 'ok':
        return {'skip': 'not-accepted', 'o1': o1}
    fams = o1[1]
    if has_nh(fams):
        return {'skip': 'native-histogram', 'o1': o1}
    reg = CollectorRegistry()
    reg.register(_Fams(fams))
    try:
        text2 = OE.generate_latest(reg).decode('utf-8')
    except Exception as e:  # noqa
        return {'fams': fams, 'o1': o1, 'text2': None,
                'fail': ('reexpose-raises-' + type(e).__name__, 'exposing the parsed families raised %s: %s' % (type(e).__name__, str(e)[:160]))}
    o2 = real_parse_fams(text2, legacy)
    c14om.set_legacy(False)
    if o2[0] == 'timeout':
        fail = ('reparse-timeout', 'parsing the re-exposition did not finish')
    elif o2[0] == 'err':
        fail = ('reparse-raises-' + o2[1], 'parsing the re-exposition raised %s in %s' % (o2[1], o2[2]))
    else:
        fail = cmp_families(fams, o2[1])
        if fail:
            fail = ('reparse-' + fail[0], fail[1])
    return {'fams': fams, 'o1': o1, 'text2': text2, 'o2': o2, 'fail': fail}


def classify_doc(res):
    cls, what = res['fail']
    fams = res['fams']
    text2 = res.get('text2') or ''
    quoted = [s for m in fams for s in m.samples if s.exemplar is not None and
              any('"' in k or '"' in v for k, v in s.exemplar.labels.items())]
    if quoted:
        if all(ref_exemplar_labels(s.exemplar.labels) in text2 for s in quoted):
            return 'C04:exemplar-quote-in-label'
        return 'C04:exemplar-rendering'
    # F32: a stray sample (no metadata) whose name is itself a quoted string: the family is named by unquoting it again
    if cls.startswith('reparse-raises-ValueError') and any(m.type == 'unknown' and s.name != m.name and s.name.startswith('"')
                                                          for m in fams for s in m.samples):
        return 'C04:stray-quoted-sample-name'
    if cls == 'reparse-sample-count' and mixed_spelling_duplicates(fams):
        return 'C04:duplicate-mixed-timestamp-spelling'
    kinds = exposed_ts_kinds(fams)
    if 'neg-stamp' in kinds and cls.startswith('reparse-raises-ValueError'):
        return 'C04:negative-fractional-timestamp'
    if 'neg-subsecond' in kinds and 'timestamp' in cls:
        return 'C04:negative-subsecond-timestamp'
    if 'exp-mantissa' in kinds and 'timestamp' in cls:
        return 'C04:exponent-float-timestamp-mantissa'
    return 'C04:' + cls


def mixed_spelling_duplicates(fams):
    """two samples of one series whose timestamps denote the same instant, one a Timestamp and one a float: the parser keeps
    both (a Timestamp never equals a float) but drops the second once both are written in the canonical form"""
    from prometheus_client.samples import Timestamp
    for m in fams:
        seen = {}
        for s in m.samples:
            if s.timestamp is None or s.labels is None:
                continue
            key = (s.name, tuple(sorted(s.labels.items())), ts_ns(s.timestamp))
            kind = isinstance(s.timestamp, Timestamp)
            if key in seen and seen[key] != kind:
                return True
            seen.setdefault(key, kind)
    return False


def text_ts_ns(t):
    """nanoseconds a timestamp TEXT of a document denotes (digits beyond the ninth dropped); independent of the library"""
    if t is None:
        return None
    try:
        return int(Decimal(t).scaleb(9))
    except Exception:  # noqa
        return t


def expected_counts(description):
    """from the generator's own description of a document (omgen.Doc.describe()): how many samples each family must keep — a
    sample line is dropped by the parser only when it repeats a series (name and label dict) at an unchanged instant"""
    out = []
    for f in description:
        seen = set()
        for smp in f['samples']:
            seen.add((smp['name'], tuple(sorted(smp['labels'].items())), text_ts_ns(smp['timestamp'])))
        out.append((f['name'], len(seen)))
    return out


def first_parse_check(fams, expected):
    """-> (cls, what) | None: the first parse of an accepted document keeps every sample the document has"""
    got = [(m.name, len(m.samples)) for m in fams]
    if [n for _, n in got] != [n for _, n in expected]:
        return ('first-parse-sample-count', 'the document has %s distinct (series, instant) samples per family, the parser kept %s' % (expected, got))
    return None


def minimise_doc(doc, legacy, cls, budget_s=2.0):
    """drop lines, then simplify tokens, while the converse still fails the same way"""
    t0 = time.time()

    def fails(d):
        if time.time() - t0 > budget_s:
            return False
        r = converse(d, legacy)
        return r.get('fail') is not None and r['fail'][0] == cls
    lines = doc.split('\n')
    lines = lib.shrink_list(lines, lambda ls: fails('\n'.join(ls)))
    return '\n'.join(lines)


DOC_MUT_TOKENS = ['-1.5', '-0.5', '1.5', '1e3', '1.234567891e-05', '0.000000001', '1.9999999999', '"', '\\"', '\\\\', '\\n', 'é', ' ', '+Inf', 'NaN',
                  '1', '0', '{}', '-1', '17.000000017', 'a="b"', '1.0', '-3.000000005']


def mutate_doc(rng, doc):
    """token-level mutations that often stay valid: replace a number / a quoted text / a timestamp by another spelling"""
    toks = re.findall(r'"(?:[^"\\]|\\.)*"|[^\s"]+|\s+', doc)
    if not toks:
        return doc
    for _ in range(rng.choice([1, 1, 2])):
        i = rng.randrange(len(toks))
        t = toks[i]
        r = rng.random()
        if t.startswith('"') and len(t) >= 2:
            inner = t[1:-1]
            p = rng.randrange(len(inner) + 1)
            toks[i] = '"' + inner[:p] + rng.choice(['\\"', '\\\\', '\\n', 'é', ' ', ',', '}', '{', '#', 'x']) + inner[p:] + '"'
        elif re.fullmatch(r'[-+0-9.eE]+', t):
            toks[i] = rng.choice(DOC_MUT_TOKENS[:3] + ['1e3', '1.234567891e-05', '0.000000001', '1.9999999999', '17', '2.5', '-1', '-3.000000005',
                                                         '1.0', '0', '123.456', '1e-7'])
        elif t.isspace() and '\n' not in t and r < 0.3:
            toks[i] = t + rng.choice(['-1.5', '-0.5', '1.5', '17', '1e3', '1.234567891e-05'])
            toks.insert(i, ' ')
    return ''.join(toks)


CORPUS_DOCS = [
    '{"\\"a\\""} 1\n# EOF\n',   # F35: stray sample whose name is itself a quoted string (known finding)
    'a 1 -1.5\n# EOF\n',                                                 # F10 (repaired 7b52129)
    '# TYPE a gauge\na 1 -1.000000001\n# EOF\n',
    'a 1 -0.5\n# EOF\n',                                                 # F10b: accepted as +0.5, stable from then on
    'a 1 1.234567891e-05\n# EOF\n',                                      # F28: accepted as 1.234567891, stable from then on
    '# TYPE a counter\na_total 1 # {a="x\\"y"} 1\n# EOF\n',              # rejected at once (F18 on the way in)
    '# TYPE a counter\na_total 1 # {a="\\\\"} 1\n# EOF\n',
    '# TYPE a counter\na_total 1 # {a="x\\ny}"} 1 1.5\n# EOF\n',
    '# TYPE a counter\na_total 1 # {} 1\n# EOF\n',
    '# TYPE a counter\na_total{b="c"} 1 17 # {"a b"="x"} 1 -2\n# EOF\n',
    'a 1 1.5\na 2 1.5e0\na 3 2\n# EOF\n',
    # one series at a realistic epoch, nanoseconds differing by 1 / by 1000, seconds differing: every point is kept
    'a{x="y"} 1 1700000000.000000001\na{x="y"} 2 1700000000.000000002\na{x="y"} 3 1700000000.000000003\n# EOF\n',
    '# TYPE a gauge\na 1 1700000000.000001000\na 2 1700000000.000002000\na 3 1700000001.000001000\na 4 1700000002\n# EOF\n',
    '# TYPE a counter\na_total 1 1700000000.000000005\na_total 2 1700000000.000000006\na_created 5 1700000000.000000006\n# EOF\n',
    'a 1 1\na 1 1\na 1 1.0\n# EOF\n',
    '# HELP a \\"q\\" "r" \\\\n \\n\n# TYPE a gauge\n# UNIT a \n# EOF\n',
    '# TYPE "a b_seconds" gauge\n# UNIT "a b_seconds" seconds\n{"a b_seconds", x="y"} 1\n# EOF\n',
    '{"a b"} 1\n# EOF\n',
    '# TYPE a histogram\na_bucket{le="-1"} 0\na_bucket{le="+Inf"} 1\n# EOF\n',
    '# TYPE a histogram\na_bucket{le="1"} 0 # {a="b"} 0.5 1.5\na_bucket{le="+Inf"} 1\na_count 1\na_sum 1\na_created 5\n# EOF\n',
    '# TYPE a info\na_info{x="y"} 1\na_info{x="z"} 1 5\n# EOF\n',
    '# TYPE a stateset\na{a="on"} 1\na{a="off"} 0\n# EOF\n',
    '# TYPE a summary\na{quantile="0.5"} 1\na_count 2\na_sum 3\n# EOF',
]


CORPUS_EXPECTED = {     # (family name, samples kept) for the corpus documents whose point is that nothing is dropped
    'a{x="y"} 1 1700000000.000000001\na{x="y"} 2 1700000000.000000002\na{x="y"} 3 1700000000.000000003\n# EOF\n': [('a', 3)],
    '# TYPE a gauge\na 1 1700000000.000001000\na 2 1700000000.000002000\na 3 1700000001.000001000\na 4 1700000002\n# EOF\n': [('a', 4)],
    '# TYPE a counter\na_total 1 1700000000.000000005\na_total 2 1700000000.000000006\na_created 5 1700000000.000000006\n# EOF\n': [('a', 3)],
    'a 1 1\na 1 1\na 1 1.0\n# EOF\n': [('a', 1)],
}


# ------------------------------------------------------------------------------------------------- the run
class Runner:
    def __init__(self, ctx):
        self.ctx = ctx
        self.reqs = []
        self.handlers = []
        self.sig_count = {}
        self.records = []            # (sig, what, case)
        self.seen = set()

    def note(self, k):
        self.ctx.count(k)

    def request(self, line, handler):
        self.reqs.append(line)
        self.handlers.append(handler)

    def flush(self):
        if not self.reqs:
            return
        replies = self.ctx.driver.run(self.reqs)
        if replies is not None:
            for rep, h in zip(replies, self.handlers):
                h(rep)
        self.reqs, self.handlers = [], []

    def model_parse(self, text, legacy, creal, case, origin):
        ctx = self.ctx

        def h(rep, creal=creal, case=case, text=text):
            ctx.traces += 1
            if rep != creal:
                ctx.diverge('om parse (%s): real=%s model=%s on %r' % (origin, creal[:120], rep[:120], text[:200]), case)
        self.request('om parse %d %s' % (int(legacy), lib.hx(text)), h)

    def run_spec(self, stream, spec):
        ctx = self.ctx
        res = evaluate(spec)
        ctx.count('stream:' + stream)
        ctx.count('legacy:%s' % ('on' if spec['legacy'] else 'off'))
        if 'skip' in res:
            ctx.count('skip:' + res['skip'])
            ctx.case(None, None)
            return res
        metrics = res['metrics']
        for f in spec['families']:
            ctx.count('src:' + f['src'])
        for m in metrics:
            ctx.count('type:' + m.type)
            if m.unit:
                ctx.count('with:unit')
            for s in m.samples:
                if s.exemplar is not None:
                    ctx.count('with:exemplar')
                    if s.exemplar.timestamp is not None:
                        ctx.count('with:exemplar-ts:' + type(s.exemplar.timestamp).__name__)
                if s.timestamp is not None:
                    ctx.count('with:ts:' + type(s.timestamp).__name__)
                if s.name.endswith('_created'):
                    ctx.count('with:_created')
        text = res['text']
        if res['fail'] is not None:
            self.record_fail(spec, res)
        if text is None:
            ctx.case(None, None)
            return res
        check_number_laws(metrics)
        nontrivial = ('\\' in text or ' # {' in text or any(s.timestamp is not None for m in metrics for s in m.samples)
                      or any(not c03.LEG_METRIC.fullmatch(x) for m in metrics for x in [m.name] + [s.name for s in m.samples]))
        key = (hash(text), bool(spec['legacy']))
        ctx.case(key if nontrivial else None, {'legacy': spec['legacy'], 'families': [(f['src'], f['name']) for f in spec['families']][:4],
                                               'exposition': text[:300]})
        if key in self.seen:
            return res
        self.seen.add(key)
        case = spec
        try:
            enc = famcodec.enc_families(metrics)
        except Exception as e:  # noqa
            enc = None
            ctx.count('codec-skip:' + type(e).__name__)
        if enc is not None:
            def h_expo(rep, text=text, case=case):
                ctx.traces += 1
                t = rep.split(' ')
                if t[0] != 'ok' or len(t) != 2:
                    ctx.diverge('expo om: model replied %r for an exposition the real code produced' % rep[:200], case)
                    return
                model = lib.unhx(t[1])
                if model != text:
                    i = next((k for k in range(min(len(model), len(text))) if model[k] != text[k]), min(len(model), len(text)))
                    ctx.diverge('expo om differs at offset %d: real %r model %r' % (i, text[max(0, i - 30):i + 30], model[max(0, i - 30):i + 30]), case)
            self.request('expo om ' + enc, h_expo)
        o = res['outcome']
        creal = c14om.obs(('ok', c14om.enc_families(o[1])) if o[0] == 'ok' else o)
        self.model_parse(text, spec['legacy'], creal, case, 'exposition')
        return res

    def record_fail(self, spec, res):
        cls = res['fail'][0]
        self.ctx.count('fail-class:' + cls)
        # a cap per failure class, parser message and parser-only classes present (so that e.g. the known "repeated series at one
        # timestamp is dropped" cannot use up the budget of every other sample-count failure)
        capkey = cls + '|' + (res.get('msg') or '').split(':')[0][:60] + '|' + ','.join(sorted(set(res.get('parser_only') or [])))
        if sum(1 for r in self.records if r[3] == capkey) >= 4:
            return
        small = minimise(spec, res['failkey'])
        r2 = evaluate(small)
        if r2.get('failkey') != res['failkey']:
            small, r2 = spec, res
        sig = classify(small, r2)
        self.sig_count[sig] = self.sig_count.get(sig, 0) + 1
        self.records.append((sig, '%s — %s; exposition %r' % (r2['fail'][0], r2['fail'][1][:400], (r2.get('text') or '')[:300]), small, capkey))

    def run_doc(self, origin, doc, legacy, expected=None):
        ctx = self.ctx
        try:
            doc.encode('utf-8')
        except UnicodeEncodeError:
            return None
        key = ('doc', hash(doc), legacy)
        if key in self.seen:
            return None
        self.seen.add(key)
        res = converse(doc, legacy)
        ctx.count('doc:' + origin)
        o1 = res['o1']
        creal = c14om.obs(('ok', c14om.enc_families(o1[1])) if o1[0] == 'ok' else o1)
        case = {'kind': 'doc', 'doc': doc, 'legacy': bool(legacy)}
        self.model_parse(doc, legacy, creal, case, 'document:' + origin)
        if 'skip' in res:
            ctx.count('doc-skip:' + res['skip'])
            ctx.case(None, None)
            return res
        ctx.count('doc:accepted')
        ctx.case(('doc', hash(doc)), {'document': doc[:300], 'reexposition': (res.get('text2') or '')[:300]})
        if expected is not None and res.get('fail') is None:
            # the document direction has an independent expectation too: the generator's own description of the document
            fp = first_parse_check(res['fams'], expected)
            if fp is not None:
                ctx.count('fail-class:' + fp[0])
                if sum(1 for r in self.records if r[3] == fp[0]) < 4:
                    sig = 'C04:document-sample-dropped'
                    self.sig_count[sig] = self.sig_count.get(sig, 0) + 1
                    self.records.append((sig, '%s — %s; document %r' % (fp[0], fp[1][:300], doc[:300]),
                                         {'kind': 'doc', 'doc': doc, 'legacy': bool(legacy), 'expected': expected}, fp[0]))
        if res.get('text2') and res.get('o2'):
            o2 = res['o2']
            creal2 = c14om.obs(('ok', c14om.enc_families(o2[1])) if o2[0] == 'ok' else o2)
            self.model_parse(res['text2'], legacy, creal2, case, 're-exposition')
            try:
                enc = famcodec.enc_families(res['fams'])
            except Exception as e:  # noqa
                enc = None
            if enc is not None:
                text2 = res['text2']

                def h_expo(rep, text2=text2, case=case):
                    ctx.traces += 1
                    t = rep.split(' ')
                    if t[0] != 'ok' or len(t) != 2 or lib.unhx(t[1]) != text2:
                        ctx.diverge('expo om of parsed families: real %r model %r' % (text2[:200], rep[:200]), case)
                self.request('expo om ' + enc, h_expo)
        if res['fail'] is not None:
            cls = res['fail'][0]
            ctx.count('fail-class:' + cls)
            if sum(1 for r in self.records if r[3] == cls) < 6:
                small = minimise_doc(doc, legacy, cls)
                r2 = converse(small, legacy)
                if r2.get('fail') is None or r2['fail'][0] != cls:
                    small, r2 = doc, res
                sig = classify_doc(r2)
                self.sig_count[sig] = self.sig_count.get(sig, 0) + 1
                self.records.append((sig, '%s — %s; document %r re-exposed as %r' % (
                    r2['fail'][0], r2['fail'][1][:300], small[:200], (r2.get('text2') or '')[:200]),
                    {'kind': 'doc', 'doc': small, 'legacy': bool(legacy)}, cls))
        return res

    def report(self):
        ctx = self.ctx
        witnesses = {}
        for sig, what, case, _ in sorted(self.records, key=lambda r: (r[0], len(repr(r[2])))):
            if sig not in witnesses:
                witnesses[sig] = {'case': case, 'what': what[:700], 'count': self.sig_count[sig]}
            ctx.fail(sig, what, case)
        ctx.extra['c04_signatures'] = {k: v['count'] for k, v in witnesses.items()}
        ctx.extra['c04_witnesses'] = witnesses
        print('C04 signatures: %s' % dict(sorted(self.sig_count.items())))
        for sig, w in witnesses.items():
            print('  %s\n    witness %s\n    %s' % (sig, compact(w['case']), w['what'][:500]))


def compact(case):
    if case.get('kind') == 'doc':
        return 'document (legacy=%s) %r' % (case['legacy'], case['doc'][:300])
    fams = []
    for f in case['families']:
        fams.append({k: v for k, v in f.items() if v not in ([], '', None)})
    return 'legacy=%s%s %s' % (case['legacy'], ' created-series-switch=%s' % case['created'] if 'created' in case else '', fams)


NUMTOK = re.compile(r'[0-9e.+\-InfNa]+')


def check_number_laws(metrics):
    """re-validate on every generated sample the facts the theorems take as hypotheses about numbers (trusted base: CPython
    int()/float()/repr): the rendered value is a number token that int() refuses and float() reads back bit for bit; a float
    timestamp's repr is in the grammar -?D+.D+ | -?D(.D+)?e[+-]DD+; int(str(n)) == n"""
    from prometheus_client.samples import Timestamp
    from prometheus_client.utils import floatToGoString
    for m in metrics:
        for s in m.samples:
            vals = [s.value] + ([s.exemplar.value] if s.exemplar is not None else [])
            for x in vals:
                v = float(x)
                tok = floatToGoString(x)
                if not NUMTOK.fullmatch(tok):
                    raise lib.Infra('trusted number law violated: floatToGoString(%r) = %r is not a number token' % (x, tok))
                try:
                    int(tok)
                    raise lib.Infra('trusted number law violated: int(%r) succeeds' % tok)
                except ValueError:
                    pass
                if lib.bits_of(float(tok)) != lib.bits_of(v) and not (v != v):
                    raise lib.Infra('trusted number law violated: float(%r) != %r' % (tok, v))
            tss = [s.timestamp] + ([s.exemplar.timestamp] if s.exemplar is not None else [])
            for t in tss:
                if isinstance(t, float) and t == t and abs(t) != math.inf:
                    r = repr(t)
                    if not re.fullmatch(r'-?[0-9]+\.[0-9]+|-?[0-9](\.[0-9]+)?e[+-][0-9][0-9]+', r):
                        raise lib.Infra('trusted number law violated: repr(%r) outside the float grammar' % t)
                elif isinstance(t, int) and not isinstance(t, bool):
                    if int(str(t)) != t:
                        raise lib.Infra('trusted number law violated: int(str(%r))' % t)
                elif isinstance(t, Timestamp):
                    if str(t.sec) + '.' != str(t).split('.')[0] + '.':
                        raise lib.Infra('trusted number law violated: Timestamp.__str__ %r' % str(t))


def run(ctx):
    corecheck.run(ctx, 300 if ctx.tier == 'quick' else 4000)
    rng = ctx.rng
    t0 = time.time()
    quick = ctx.tier == 'quick'
    n_random = 9000 if quick else 80000
    n_docs = 1200 if quick else 12000
    budget = 45 if quick else 480
    if ctx.broken:
        n_random *= 3
        n_docs *= 3
        budget *= 2
    R = Runner(ctx)
    TYPED_RNG[0] = _random.Random('c04-typed:%s' % ctx.seed)
    try:
        for stream, spec in corpus_specs():
            R.run_spec(stream, spec)
        R.flush()
        phases = {'corpus': round(time.time() - t0, 1)}
        t1 = time.time()
        for i in range(n_random):
            legacy = rng.random() < 0.35
            CLEAN[0] = rng.random() < 0.85
            R.run_spec('random-clean' if CLEAN[0] else 'random', gen_registry(rng, legacy, R.note))
            if i % 400 == 399:
                R.flush()
                if time.time() - t0 > budget * 0.6:
                    ctx.count('budget-stop:random')
                    break
        R.flush()
        phases['random'] = round(time.time() - t1, 1)
        t1 = time.time()
        for d in CORPUS_DOCS:
            exp = CORPUS_EXPECTED.get(d)
            R.run_doc('corpus', d, False, exp)
            R.run_doc('corpus', d, True, exp)
        for i in range(n_docs):
            legacy = rng.random() < 0.25
            gd = omgen.gen_doc(rng, nfam=rng.choice([1, 1, 2, 3]))
            doc = gd.render()
            R.run_doc('generated', doc, legacy, expected_counts(gd.describe()))
            for _ in range(3):
                R.run_doc('mutated', mutate_doc(rng, doc), legacy)
            if i % 50 == 49:
                R.flush()
                if time.time() - t0 > budget:
                    ctx.count('budget-stop:documents')
                    break
        R.flush()
        phases['documents'] = round(time.time() - t1, 1)
        t1 = time.time()
        R.report()
        phases['report'] = round(time.time() - t1, 1)
    finally:
        c14om.set_legacy(False)
    ctx.extra['c04_phase_s'] = phases
    ctx.extra['remarks'] = [
        "openmetrics.exposition._is_valid_exemplar_metric: `metric.type in ('histogram') and sample.name.endswith('_bucket') or "
        "sample.name == metric.name` — `and` binds tighter than `or`, so the last test applies to EVERY type (and `x in ('histogram')` is a "
        "substring test): a gauge / unknown / stateset sample named like its family carries an exemplar through generate_latest "
        "(`g 1.0 # {a=\"b\"} 1.0`), which the library's own parser then rejects ('only histogram/gaugehistogram buckets and counters can "
        "have exemplars').  Reachable only through custom collectors (Metric.add_sample(..., exemplar=…)); the content breaks the C15 rule "
        "'exemplars on ineligible samples', so it is outside C04's domain (counted as skip:rule:exemplar-ineligible) — recorded as an "
        "observation, not a violation.",
        "nan / inf float timestamps: generate_latest writes them (`t 1.0 nan`), the parser raises ValueError('Invalid timestamp') on purpose; "
        "they are rule content (skip:rule:~timestamp-not-finite), the only timestamps outside TsOK.",
    ]
    print('C04 phases (s): %s' % phases)
    ctx.rule = ('(a) registries from declarative specs — instrumentation classes (units, _created, inc/observe with exemplars), every '
                '*MetricFamily helper, raw Metric.add_sample through custom collectors with the three timestamp forms (int, float incl. '
                'exponent reprs, Timestamp; negative; nanosecond-only differences) and exemplars (any label names/values up to 128 '
                'characters incl. multi-byte, any value, three timestamp forms) — both validation settings, names / label names / label '
                'values / help over the adversarial alphabet of C03; corpus of the witnesses F10, F10b, F17, F18, F28 and adjacency cases; '
                'content breaking a C15 rule or the structure of the format is counted (skip:rule:*) and not judged.  (b) grammar-generated '
                'OpenMetrics documents of all 8 family types (omgen) and token mutations of them that stay accepted: parse → expose → '
                'parse.  A case is non-trivial when its exposition has an escape, an exemplar, a quoted name or a timestamp (a), or the '
                'document is accepted (b); distinct by hash of the text and the validation flag')


def replay(ctx, case):
    c = case.get('case')
    if not c and case.get('divergences'):
        c = case['divergences'][0].get('case')
    if not c:
        print('REPLAY: no case in the replay file')
        return 0
    R = Runner(ctx)
    try:
        if c.get('kind') == 'doc':
            doc = c['doc']
            print('REPLAY document (legacy=%s) %r' % (c.get('legacy'), doc[:600]))
            res = R.run_doc('replay', doc, bool(c.get('legacy')), [tuple(x) for x in c['expected']] if c.get('expected') else None)
            if res is not None:
                print('REPLAY first parse: %s' % (c14om.obs(('ok', c14om.enc_families(res['o1'][1])) if res['o1'][0] == 'ok' else res['o1'])[:200]))
                print('REPLAY re-exposition %r' % (res.get('text2'),))
                print('REPLAY verdict: %s' % (res.get('fail') or res.get('skip') or 'parse → expose → parse reproduces the families',))
        elif 'families' in c:
            spec = {'kind': 'registry', 'legacy': bool(c['legacy']), 'families': c['families']}
            if 'created' in c:
                spec['created'] = c['created']
            print('REPLAY registry', compact(spec))
            res = R.run_spec('replay', spec)
            if 'skip' in res:
                print('REPLAY: not judged (%s)' % res['skip'])
            else:
                print('REPLAY exposition %r' % (res['text'],))
                o = res.get('outcome')
                if o is not None:
                    if o[0] == 'ok':
                        for f in o[1]:
                            print('   parsed', f.name, f.type, f.unit, repr(f.documentation), [tuple(s)[:5] for s in f.samples][:6])
                    else:
                        print('   parse outcome', o)
                print('REPLAY verdict: %s' % (res.get('fail') or 'parse(expose(registry)) equals the collected families',))
        elif 'request' in c:
            print('REPLAY function-level request %r (recorded real=%r model=%r)' % (c['request'][:200], c.get('real'), c.get('model')))
            rep = ctx.driver.run([c['request']])
            print('REPLAY model now replies %r' % (rep[0] if rep else None))
            bad = corecheck.run(ctx)
            return 1 if bad or (rep and rep[0] != c.get('real')) else 0
        else:
            print('REPLAY: unknown case shape')
            return 0
        R.flush()
    finally:
        c14om.set_legacy(False)
    for sig, what, _, _ in R.records:
        print('REPLAY-FAIL', sig, what[:600])
    for d in ctx.divergences:
        print('REPLAY-DIVERGE', d['what'][:600])
    return 1 if R.records or ctx.divergences else 0
