"""C06 — a registry never holds two collectors claiming the same series name.

T2: whole histories of register / unregister / set_target_info are run on the REAL CollectorRegistry (in-process, from
lib.REPO) and on Model.Registry (driver module "c06"); after every call the raised class, the registered collectors in
order, the sorted keys of the name map, target info, the families of collect() and the collect() call order are compared.

Oracle on the real code, written from the property statement and independent of the Lean model (own suffix table below):
  * no two registered collectors (= those whose collect() the registry invokes) claim one name; target info claims
    `target_info`
  * register / set_target_info raise ValueError exactly when the call would clash, and a raising call leaves
    collect() output, both maps and target info unchanged
  * unregister of a registered collector does not raise, removes it and only it, frees exactly its names, and the
    collector can be registered again
"""
import copy
import itertools

import lib

TYPES = ('counter', 'gauge', 'summary', 'histogram', 'gaugehistogram', 'unknown', 'info', 'stateset')

# the suffixes a family of each type exposes — own copy, from the statement of C06 / OpenMetrics, NOT read from /repo
SUFFIXES = {
    'counter': ['_total', '_created'],
    'summary': ['_sum', '_count', '_created'],
    'histogram': ['_bucket', '_sum', '_count', '_created'],
    'gaugehistogram': ['_bucket', '_gsum', '_gcount'],
    'info': ['_info'],
    'gauge': [], 'unknown': [], 'stateset': [],
}

ALPHABET = ['x', 'x_total', 'x_sum', 'x_count', 'x_bucket', 'x_created', 'x_info', 'x_gsum', 'x_gcount', 'target',
            'target_info']

SIG_F6 = 'C06:unregister-duplicate-own-names'
MAX_REPORTS_PER_SIG = 3


def family_claims(name, typ):
    return [name] + [name + s for s in SUFFIXES[typ]]


def claims_of(desc):
    """desc: list of (family name, type) or None"""
    out = []
    for n, t in (desc or []):
        out += family_claims(n, t)
    return out


# ------------------------------------------------------------------------------------------------ real objects
class _Base:
    def __init__(self, cid, fams, log):
        self.cid = cid
        self._fams = fams
        self._log = log

    def collect(self):
        self._log.append(self.cid)
        return list(self._fams)

    def __repr__(self):
        return 'coll%d' % self.cid


class _WithDescribe(_Base):
    def __init__(self, cid, fams, log, desc):
        _Base.__init__(self, cid, fams, log)
        self._desc = desc

    def describe(self):
        return list(self._desc)


def sample_key(s):
    """everything of a sample the registry must carry through unchanged"""
    return (s.name, tuple(sorted(s.labels.items())), repr(s.value), repr(s.timestamp), repr(s.exemplar),
            repr(getattr(s, 'native_histogram', None)))


class Prepared:
    """real collectors of a case + their model encodings + the payload table"""

    def __init__(self, case):
        from prometheus_client import metrics_core, samples, metrics as pm
        import prometheus_client as pc
        self.case = case
        self._saved_created = getattr(pm, '_use_created', True)
        pm.enable_created_metrics()      # the model input of a built-in metric is its collect() with created series on
        try:
            self._build(case, pc, metrics_core, samples)
        finally:
            if not self._saved_created:
                pm.disable_created_metrics()

    def _build(self, case, pc, metrics_core, samples):
        self.log = []
        self.objs = {}          # id -> real collector
        self.desc = {}          # id -> [(name, type)] as describe() reports it, or None (no describe attribute)
        self.fams = {}          # id -> real Metric list that collect() returns (fresh objects each time for builtins)
        self.enc_fams = {}      # id -> encoded family strings
        self.table = {}         # sample_key -> payload index
        self.dup_own = {}
        self.phases = {}        # id -> per phase (fams, enc_fams, desc, describe Metric list) of a time-varying collector
        self.frozen = {}        # id -> description at the moment of the successful registration (what it CLAIMS while registered)
        for c in case['collectors']:
            cid = c['id']
            if c['kind'] == 'builtin':
                cls = getattr(pc, c['cls'])
                kw = dict(registry=None)
                if c.get('unit'):
                    kw['unit'] = c['unit']
                if c['cls'] == 'Enum':
                    kw['states'] = ['a', 'b']
                if c.get('labels'):
                    kw['labelnames'] = list(c['labels'])      # a labelled parent without children: collect() yields
                obj = cls(c['name'], 'help ' + c['name'], **kw)  # the family with NO samples
                if c['cls'] == 'Info' and not c.get('labels'):
                    obj.info({'k': 'v'})
                real_collect = obj.collect
                log = self.log

                def wrapped(real_collect=real_collect, cid=cid, log=log):
                    log.append(cid)
                    return real_collect()
                obj.collect = wrapped
                obj.cid = cid
                self.desc[cid] = [(m.name, m.type) for m in obj.describe()]
                fams = real_collect()
            else:
                if c['kind'] == 'varying':
                    # a collector whose described / collected families change over time: one entry per phase; the history
                    # op ['m', id, phase] switches it.  Phase 0 is built by the code below, the others afterwards.
                    self.phases[cid] = [None] * len(c['phases'])
                    c = dict(c, describe=c['phases'][0]['describe'], families=c['phases'][0]['families'])
                fams = []
                for f in c['families']:
                    m = metrics_core.Metric(f['name'], f['help'], f['type'], f.get('unit', ''))
                    for sm in f['samples']:
                        sname, idx = sm[0], sm[1]
                        ts = None
                        ex = None
                        if idx % 3 == 1:
                            ts = 1700000000.5 + idx
                        elif idx % 3 == 2:
                            ts = samples.Timestamp(1700000000 + idx, 5)
                        if idx % 4 == 3:
                            ex = samples.Exemplar({'trace': str(idx)}, 0.5, 1700000001.0)
                        m.add_sample(sname, {'i': str(idx)}, float(idx), ts, ex)
                    fams.append(m)
                if c['describe'] is None:
                    obj = _Base(cid, fams, self.log)
                    self.desc[cid] = None
                else:
                    dm = [metrics_core.Metric(n, '', t) for n, t in c['describe']]
                    obj = _WithDescribe(cid, fams, self.log, dm)
                    self.desc[cid] = [(m.name, m.type) for m in dm]
            self.objs[cid] = obj
            self.fams[cid] = fams
            for m in fams:
                for s in m.samples:
                    k = sample_key(s)
                    if k not in self.table:
                        self.table[k] = len(self.table)
            self.enc_fams[cid] = [self.enc_family(m) for m in fams]
            if cid in self.phases:
                orig = [x for x in case['collectors'] if x['id'] == cid][0]
                self.phases[cid][0] = (fams, self.enc_fams[cid], self.desc[cid], getattr(obj, '_desc', None))
                for pi, ph in enumerate(orig['phases'][1:], 1):
                    sub = Prepared.__new__(Prepared)
                    sub.log = self.log
                    sub._build({'ad': case['ad'], 'collectors': [dict(id=cid, kind='custom', describe=ph['describe'],
                                                                       families=ph['families'])]}, pc, metrics_core, samples)
                    for k in sub.table:
                        if k not in self.table:
                            self.table[k] = len(self.table)
                    sub.table = self.table
                    self.phases[cid][pi] = (sub.fams[cid], [self.enc_family(m) for m in sub.fams[cid]], sub.desc[cid],
                                            getattr(sub.objs[cid], '_desc', None))
        self.ad = bool(case['ad'])
        for cid in self.objs:
            cl = self.claims(cid)
            self.dup_own[cid] = len(set(cl)) != len(cl)

    def set_phase(self, cid, p):
        """the history mutates a time-varying collector: from now on describe()/collect() return phase p"""
        fams, enc, desc, dm = self.phases[cid][p]
        self.fams[cid], self.enc_fams[cid], self.desc[cid] = fams, enc, desc
        self.objs[cid]._fams = fams
        if dm is not None:
            self.objs[cid]._desc = dm

    # -- the statement's notion of what a collector claims
    def described(self, cid):
        if cid in self.frozen:      # registered: it claims what it described when it registered, whatever it says now
            return self.frozen[cid]
        return self.described_now(cid)

    def described_now(self, cid):
        if self.desc[cid] is not None:
            return self.desc[cid]
        if self.ad:
            return [(m.name, m.type) for m in self.fams[cid]]
        return None

    def claims(self, cid):
        return claims_of(self.described(cid))

    # -- encodings shared with the driver
    def enc_payload(self, s):
        k = sample_key(s)
        if k in self.table:
            return 'i%d' % self.table[k]
        if s.name == 'target_info' and s.value == 1 and s.timestamp is None and s.exemplar is None:
            return 't' + enc_labels(s.labels)
        return 'i999999'

    def enc_family(self, m):
        ss = '+'.join('%s/%s' % (hexs(s.name), self.enc_payload(s)) for s in m.samples) or '_'
        return ':'.join([hexs(m.name), str(TYPES.index(m.type)), hexs(m.documentation), hexs(m.unit), ss])

    def enc_collector(self, cid):
        d = self.desc[cid]
        ds = 'N' if d is None else 'D' + ','.join('%s:%d' % (hexs(n), TYPES.index(t)) for n, t in d)
        return '%d~%s~%s' % (cid, ds, ','.join(self.enc_fams[cid]) or '.')

    def request(self, ops=None, namesets=(), watch=None):
        case = self.case
        ops = case['ops'] if ops is None else ops
        w = '' if watch is None else ' ' + (';'.join('%d@%s' % (k, ','.join(hexs(n) for n in ns) or '_') for k, ns in watch) or '.')
        return 'c06 hist %d %s %s %s %s' % (
            1 if self.ad else 0, enc_labels(case['ti']),
            ';'.join(self.enc_collector(c['id']) for c in case['collectors']) or '.',
            ';'.join(enc_op(o) for o in ops if o[0] not in 'cm') or '.',
            ';'.join((','.join(hexs(n) for n in ns) or '_') for ns in namesets) or '.') + w


def hexs(s):
    return s.encode('utf-8').hex()


def enc_labels(l):
    if l is None:
        return 'N'
    return 'L' + '&'.join('%s=%s' % (hexs(k), hexs(v)) for k, v in sorted(l.items()))


def enc_op(o):
    if o[0] == 't':
        return 't' + enc_labels(o[1])
    if o[0] == 'm':          # the history mutates a time-varying collector: ['m', id, phase]
        return 'm%d.%d' % (o[1], o[2])
    if o[0] == 'c':          # metrics.enable_created_metrics() / disable_created_metrics(): configuration, not a registry call
        return 'c%d' % (1 if o[1] else 0)
    return '%s%d' % (o[0], o[1])


def canon_ti(enc):
    """None and {} are both 'no target info' as far as the property goes"""
    return 'F' if enc in ('N', 'L') else enc


# ------------------------------------------------------------------------------------------------ one history
class Observed:
    __slots__ = ('err', 'ids', 'keys', 'ti', 'fams', 'calls', 'opcalls')


def snapshot(prep, reg):
    """what the property lets us see of a registry"""
    del prep.log[:]
    fams = [prep.enc_family(m) for m in reg.collect()]
    calls = list(prep.log)
    c2n = getattr(reg, '_collector_to_names', None)
    n2c = getattr(reg, '_names_to_collectors', None)
    ids = None if c2n is None else [(getattr(c, 'cid', -1), tuple(ns)) for c, ns in c2n.items()]
    nmap = None if n2c is None else sorted((n, getattr(c, 'cid', 'E')) for n, c in n2c.items())
    return fams, calls, ids, nmap, reg.get_target_info()


def diff(before, after):
    names = ['collect() families', 'collected collectors', 'collector->names map', 'name->collector map', 'target info']
    out = []
    for n, b, a in zip(names, before, after):
        if a != b:
            if n == 'collect() families':
                b, a = [bytes.fromhex(e.split(':')[0]).decode() for e in b], [bytes.fromhex(e.split(':')[0]).decode() for e in a]
            out.append('%s %r -> %r' % (n, b, a))
    return '; '.join(out)


def run_history(prep, ops, fail, count=lambda k: None, after_step=None):
    """drive the real registry through `ops`; evaluate the oracle; returns the per-step observations.
    `after_step(k, reg, snapshot)` is called once before the first call (k = 0) and after the k-th call."""
    from prometheus_client.registry import CollectorRegistry
    case = prep.case
    from prometheus_client import metrics as pm
    saved_created = getattr(pm, '_use_created', True)
    try:
        (pm.enable_created_metrics if case.get('created', True) else pm.disable_created_metrics)()
        return _run_history(prep, ops, fail, count, after_step, pm)
    finally:
        (pm.enable_created_metrics if saved_created else pm.disable_created_metrics)()


def _run_history(prep, ops, fail, count, after_step, pm):
    from prometheus_client.registry import CollectorRegistry
    case = prep.case
    reg = CollectorRegistry(auto_describe=prep.ad, target_info=copy.copy(case['ti']))
    obs = []
    tainted = False   # after an F6-class event (fixed in /repo; reported as a violation) the registry is corrupt: the oracle
                      # stops for this history so that the consequences are not reported under other signatures; T2 goes on
    before = snapshot(prep, reg)
    if after_step:
        after_step(0, None, None, reg, before)
    for step, op in enumerate(ops):
        if op[0] == 'c':
            # configuration switch, not a registry call: no observation; what collect() of a built-in metric yields changes,
            # what anybody CLAIMS does not (the statement's table does not depend on the switch)
            (pm.enable_created_metrics if op[1] else pm.disable_created_metrics)()
            count('op-created-%s' % ('on' if op[1] else 'off'))
            before = snapshot(prep, reg)
            if after_step:
                after_step(step + 1, op, 'ok', reg, before)
            continue
        if op[0] == 'm':
            # the collector object changes what it describes / collects; what it CLAIMS while registered stays what it
            # described at registration (the statement: unregister "releases all and only its names")
            prep.set_phase(op[1], op[2])
            count('op-mutate')
            before = snapshot(prep, reg)
            if after_step:
                after_step(step + 1, op, 'ok', reg, before)
            continue
        registered = before[1]                      # ids whose collect() the registry invokes, in order
        ti_set = bool(before[4])
        claimed = {}
        for cid in registered:
            for n in prep.claims(cid):
                claimed.setdefault(n, cid)
        if ti_set:
            claimed.setdefault('target_info', 'E')
        err = None
        del prep.log[:]
        try:
            if op[0] == 'r':
                reg.register(prep.objs[op[1]])
            elif op[0] == 'u':
                reg.unregister(prep.objs[op[1]])
            else:
                reg.set_target_info(copy.copy(op[1]))
        except Exception as e:  # noqa
            err = type(e).__name__
        opcalls = list(prep.log)        # collect() calls made by the call itself
        if op[0] == 'r' and err is None and op[1] not in before[1]:
            prep.frozen[op[1]] = prep.described_now(op[1])
        elif (op[0] == 'r' and err is None and op[1] in prep.frozen
              and claims_of(prep.described_now(op[1])) != claims_of(prep.frozen[op[1]])):
            # an ALREADY registered collector that meanwhile describes other names was registered a second time and accepted
            # (register() does not look whether the collector is registered): its recorded names are overwritten and the old
            # ones stay mapped.  The statement does not say what a second registration of a registered collector means;
            # counted and reported to the lead as an observation, the oracle stops for the rest of this history.
            count('observation-registered-collector-reregistered-with-changed-description')
            tainted = True
        after = snapshot(prep, reg)
        count('op-%s-%s' % (op[0], err or 'ok'))

        def bad(sig, what):
            fail(sig, 'step %d %s: %s' % (step, enc_op(op), what), step)

        # ---- the call itself invokes collect() only to auto-describe the registering collector, once
        want_calls = [op[1]] if (op[0] == 'r' and prep.desc[op[1]] is None and prep.ad) else []
        if opcalls != want_calls:
            bad('C06:register-calls-collect', 'the call invoked collect() on %r, expected %r' % (opcalls, want_calls))
        if not tainted:
            # ---- a raising register / set_target_info is a frame
            if err is not None and op[0] in 'rt' and after != before:
                bad('C06:raising-%s-changed-registry' % ('register' if op[0] == 'r' else 'set_target_info'),
                    'raised %s but the registry changed: %s' % (err, diff(before, after)))
            if op[0] == 'r':
                cid = op[1]
                mine = prep.claims(cid)
                if cid not in registered:
                    clash = sorted(set(n for n in mine if n in claimed))
                    if clash and err is None:
                        bad('C06:clash-not-rejected', 'collector %d claims %s already claimed by %s, register did not raise'
                            % (cid, clash, [claimed[n] for n in clash]))
                    if not clash and err is not None:
                        bad('C06:spurious-rejection', 'collector %d clashes with nothing but register raised %s' % (cid, err))
                    if err is None and after[1] != registered + [cid]:
                        bad('C06:register-not-appended', 'collected collectors %r, expected %r' % (after[1], registered + [cid]))
                if err not in (None, 'ValueError'):
                    bad('C06:wrong-exception-class', 'register raised %s' % err)
            elif op[0] == 't':
                want = bool(op[1]) and not ti_set and claimed.get('target_info') not in (None, 'E')
                if want and err is None:
                    bad('C06:clash-not-rejected', 'target_info is claimed by collector %r, set_target_info did not raise'
                        % claimed.get('target_info'))
                if not want and err is not None:
                    bad('C06:spurious-rejection', 'set_target_info(%r) clashes with nothing but raised %s' % (op[1], err))
                if err not in (None, 'ValueError'):
                    bad('C06:wrong-exception-class', 'set_target_info raised %s' % err)
                if err is None and (bool(after[4]) != bool(op[1]) or (op[1] and after[4] != op[1])):
                    bad('C06:target-info-not-set', 'get_target_info() = %r after set_target_info(%r)' % (after[4], op[1]))
                if err is None and after[1] != registered:
                    bad('C06:target-info-changed-collectors', 'collected %r, before %r' % (after[1], registered))
            else:
                cid = op[1]
                if cid in registered:
                    mine = prep.claims(cid)
                    if err is not None:
                        if prep.dup_own[cid]:
                            bad(SIG_F6, 'collector %d claims %s (a name twice); unregister raised %s and left it %s with '
                                'name map %r' % (cid, mine, err,
                                                 'collected' if cid in after[1] else 'not collected',
                                                 None if after[3] is None else [n for n, _ in after[3]]))
                            tainted = True
                        else:
                            bad('C06:unregister-raised', 'unregister of registered collector %d raised %s' % (cid, err))
                    else:
                        if after[1] != [c for c in registered if c != cid]:
                            bad('C06:unregister-wrong-collectors', 'collected after: %r, before: %r' % (after[1], registered))
                        if before[3] is not None and after[3] is not None:
                            freed = set(n for n, _ in before[3]) - set(n for n, _ in after[3])
                            kept_changed = [e for e in after[3] if e not in before[3]]
                            if freed != set(mine) or kept_changed:
                                bad('C06:unregister-released-wrong-names', 'collector %d claims %s, freed %s, altered %s'
                                    % (cid, sorted(set(mine)), sorted(freed), kept_changed))
                        # it can be registered again (probe on a shallow clone sharing nothing mutable)
                        # (a collector that meanwhile describes OTHER names is a different registration: no probe)
                        if (hasattr(reg, '_collector_to_names') and hasattr(reg, '_names_to_collectors')
                                and prep.described_now(cid) == prep.frozen.get(cid, prep.described_now(cid))):
                            clone = copy.copy(reg)
                            clone._collector_to_names = dict(reg._collector_to_names)
                            clone._names_to_collectors = dict(reg._names_to_collectors)
                            try:
                                clone.register(prep.objs[cid])
                            except Exception as e:  # noqa
                                bad('C06:reregister-after-unregister-failed', 'register after unregister raised %s'
                                    % type(e).__name__)
                elif err is not None and after != before:
                    bad('C06:raising-unregister-changed-registry', 'collector %d was not registered; %s'
                        % (cid, diff(before, after)))
            # ---- the headline: no two registered collectors claim one name
            if not tainted:
                seen = {}
                if after[4]:
                    seen['target_info'] = 'E'
                for cid in after[1]:
                    for n in set(prep.claims(cid)):
                        if n in seen and seen[n] != cid:
                            bad('C06:double-claim', 'name %r is claimed by registered collectors %r and %r' % (n, seen[n], cid))
                        seen[n] = cid
                if len(set(after[1])) != len(after[1]):
                    bad('C06:collected-twice', 'collect() invoked %r' % (after[1],))
        if op[0] == 'u' and err is None:
            prep.frozen.pop(op[1], None)
        o = Observed()
        o.err = err or 'ok'
        o.ids = None if after[2] is None else [c for c, _ in after[2]]
        o.keys = None if after[3] is None else [n for n, _ in after[3]]
        ti = after[4]
        o.ti = canon_ti(enc_labels(ti))
        o.fams = after[0]
        o.calls = after[1]
        o.opcalls = opcalls
        obs.append(o)
        if after_step:
            after_step(step + 1, op, o.err, reg, after)
        before = after
    return obs, reg


def _no_created(fams):
    out = []
    for e in fams:
        f = e.split(':')
        ss = [] if f[4] == '_' else [x for x in f[4].split('+') if not bytes.fromhex(x.split('/')[0]).decode().endswith('_created')]
        out.append(':'.join(f[:4] + ['+'.join(ss) or '_']))
    return out


def compare_steps(reply, obs, drop_created=False):
    """model observations (driver reply) vs real observations; returns None or a description"""
    parts = reply.split(' ')
    if parts[0] != 'ok' or len(parts) not in (3, 4):
        return 'driver: %r' % reply[:200]
    steps = [] if parts[1] == '.' else parts[1].split(';')
    if len(steps) != len(obs):
        return 'driver returned %d steps for %d calls' % (len(steps), len(obs))
    for i, (st, o) in enumerate(zip(steps, obs)):
        f = st.split('!')
        m_err, m_ids, m_keys, m_ti, m_fams, m_calls, m_op = f
        if m_err != o.err:
            return 'step %d: model %s, implementation %s' % (i, m_err, o.err)
        ids = [] if m_ids == '.' else [int(x) for x in m_ids.split(',')]
        if o.ids is not None and ids != o.ids:
            return 'step %d: registered collectors model %r, implementation %r' % (i, ids, o.ids)
        keys = sorted(bytes.fromhex(x).decode() for x in ([] if m_keys == '.' else m_keys.split(',')))
        if o.keys is not None and keys != sorted(o.keys):
            return 'step %d: name map keys model %r, implementation %r' % (i, keys, sorted(o.keys))
        if canon_ti(m_ti) != o.ti:
            return 'step %d: target info model %s, implementation %s' % (i, m_ti, o.ti)
        fams = [] if m_fams == '.' else m_fams.split(',')
        if drop_created:      # the created-series switch was used: the model's built-in collectors carry their _created samples,
            fams = _no_created(fams)      # the real ones only while the switch is on; compare modulo those samples
        if (fams != _no_created(o.fams)) if drop_created else (fams != o.fams):
            return 'step %d: collect() families model %r, implementation %r' % (i, fams, o.fams)
        calls = [] if m_calls == '.' else [int(x) for x in m_calls.split(',')]
        if calls != o.calls:
            return 'step %d: collect() call order model %r, implementation %r' % (i, calls, o.calls)
        opc = [] if m_op == '.' else [int(x) for x in m_op.split(',')]
        if opc != o.opcalls:
            return 'step %d: collect() calls made by the call itself model %r, implementation %r' % (i, opc, o.opcalls)
    return None


# ------------------------------------------------------------------------------------------------ generators
def custom(cid, fams, describe='same', samples='full'):
    """fams: list of (name, type); samples are generated from the type's suffixes.  `samples`: 'full' = one per suffix,
    'first' = only the first (e.g. a counter without its _created sample), 'empty' = none (a family without children
    yet), or a list with one of these per family"""
    families = []
    n = cid * 100
    for i, (name, typ) in enumerate(fams):
        snames = [name + s for s in SUFFIXES[typ]] or [name]
        if typ in ('summary',):
            snames = [name] + snames
        mode = samples if isinstance(samples, str) else samples[i]
        if mode == 'first':
            snames = snames[:1]
        elif mode == 'empty':
            snames = []
        ss = []
        for sn in snames:
            ss.append([sn, n])
            n += 1
        families.append({'name': name, 'type': typ, 'help': 'help of ' + name, 'unit': '', 'samples': ss})
    d = None if describe is None else [[nm, t] for nm, t in (fams if describe == 'same' else describe)]
    return {'id': cid, 'kind': 'custom', 'describe': d, 'families': families}


def varying(cid, phases, describe=True):
    """a collector whose families change over time (one family per attached device, …): `phases` is a list of family
    lists [(name, type), …]; with `describe` its describe() follows the current phase, without it only auto-describe sees it"""
    out = []
    for i, fams in enumerate(phases):
        c = custom(cid * 10 + i, fams, describe='same' if describe else None)
        out.append({'describe': c['describe'], 'families': c['families']})
    return {'id': cid, 'kind': 'varying', 'phases': out}


def reduced_alphabet():
    cs = [
        custom(1, [('x', 'counter')]),
        custom(2, [('x_total', 'gauge')]),
        custom(3, [('x_created', 'gauge')], describe=None),
        custom(4, [('target', 'info')]),
        custom(5, [('target_info', 'gauge')]),
        custom(6, [('x', 'histogram')], describe=None, samples='empty'),    # undescribed, no children yet
        custom(7, [('x_sum', 'summary')]),
        custom(8, [('x', 'counter'), ('x_total', 'gauge')]),     # claims x_total twice (former F6)
        custom(9, [('x', 'counter')], describe=None, samples='first'),      # undescribed, emits x_total but no x_created
        custom(10, [('x', 'counter')], describe=[]),     # opts out: describe() returns [] — claims NOTHING, auto_describe or not
    ]
    ops = []
    for c in cs:
        ops.append(['r', c['id']])
        ops.append(['u', c['id']])
    ops += [['t', None], ['t', {}], ['t', {'a': 'b'}]]
    return cs, ops


BUILTINS = [('Counter', 'x_total'), ('Counter', 'x'), ('Gauge', 'x_created'), ('Gauge', 'x'), ('Summary', 'x'),
            ('Histogram', 'x'), ('Info', 'target'), ('Info', 'x'), ('Enum', 'x'), ('Gauge', 'target_info'),
            ('Gauge', 'x_sum'), ('Histogram', 'x_bucket'), ('Summary', 'x_count'), ('Counter', 'x_gsum')]


def random_collector(rng, cid, allow_dup=False):
    if rng.random() < 0.12:
        base_fams = [(n, rng.choice(TYPES)) for n in rng.sample(ALPHABET, rng.choice([2, 2, 3]))]
        phases = [base_fams]
        for _ in range(rng.choice([1, 2])):
            phases.append([f for f in base_fams if rng.random() < 0.6] or base_fams[:1])
        return varying(cid, phases, describe=rng.random() < 0.5)
    if rng.random() < 0.25:
        cls, name = rng.choice(BUILTINS)
        c = {'id': cid, 'kind': 'builtin', 'cls': cls, 'name': name}
        if cls == 'Gauge' and rng.random() < 0.3:
            c['unit'] = 'sec'
        if rng.random() < 0.3:
            c['labels'] = ['l']
        return c
    for _ in range(20):
        k = rng.choice([1, 1, 1, 2, 2, 3])
        fams = [(rng.choice(ALPHABET), rng.choice(TYPES)) for _ in range(k)]
        r = rng.random()
        modes = [rng.choice(['full', 'full', 'full', 'first', 'first', 'empty']) for _ in fams]
        if r < 0.55:
            c = custom(cid, fams, samples=modes)
        elif r < 0.85:      # no describe(): under auto_describe the claims come from the TYPES of the collected families,
            c = custom(cid, fams, describe=None, samples=modes)      # whatever samples they happen to carry
        elif r < 0.93:   # describe() disagrees with collect()
            c = custom(cid, fams, describe=[(rng.choice(ALPHABET), rng.choice(TYPES))], samples=modes)
        else:   # describe() returns no family at all: the collector claims nothing, whatever collect() yields
            c = custom(cid, fams, describe=[], samples=modes)
        cl = claims_of(c['describe'] if c['describe'] is not None else fams)
        if len(set(cl)) == len(cl) or allow_dup or rng.random() < 0.5:
            return c
    return c


def random_labels(rng):
    return rng.choice([None, {}, {'a': 'b'}, {'env': 'prod', 'zone': 'z1'}, None, {}])


def random_case(rng, length):
    k = rng.randrange(3, 9)
    cs = [random_collector(rng, i + 1) for i in range(k)]
    ops = []
    switch = rng.random() < 0.5       # half of the histories also toggle the created-series switch
    for _ in range(length):
        r = rng.random()
        var = [c for c in cs if c['kind'] == 'varying']
        if switch and rng.random() < 0.1:
            ops.append(['c', rng.random() < 0.5])
        elif var and rng.random() < 0.12:
            c = rng.choice(var)
            ops.append(['m', c['id'], rng.randrange(len(c['phases']))])
        elif r < 0.45:
            ops.append(['r', rng.choice(cs)['id']])
        elif r < 0.8:
            recent = [o[1] for o in ops[-6:] if o[0] == 'r']
            if recent and rng.random() < 0.6:
                ops.append(['u', rng.choice(recent)])
            else:
                ops.append(['u', rng.choice(cs)['id']])
        else:
            ops.append(['t', random_labels(rng)])
    return {'ad': rng.random() < 0.5, 'ti': random_labels(rng), 'collectors': cs, 'ops': ops,
            'created': (rng.random() < 0.5) if switch else True}


CORPUS = [
    # describe() -> []: the collector opts out of the duplicate protection; it neither blocks nor is blocked, in either order,
    # with auto_describe on and off, although its collect() yields names other collectors claim
    {'ad': True, 'ti': None, 'collectors': [custom(1, [('x', 'counter')], describe=[]), custom(2, [('x', 'counter')]),
                                            custom(3, [('x_total', 'gauge')], describe=[]), custom(4, [('x', 'gauge')], describe=None)],
     'ops': [['r', 1], ['r', 2], ['r', 3], ['r', 4], ['u', 2], ['u', 1], ['r', 4], ['r', 1], ['r', 2], ['u', 3], ['u', 1]]},
    {'ad': False, 'ti': {'a': 'b'}, 'collectors': [custom(1, [('x', 'counter')]), custom(2, [('x', 'counter')], describe=[]),
                                                   custom(3, [('target', 'info')], describe=[])],
     'ops': [['r', 1], ['r', 2], ['r', 3], ['u', 1], ['r', 1], ['u', 2], ['u', 3]]},
    # a collector whose families change while it is registered (one family per attached device): unregister releases what
    # the REGISTRATION claimed, so the dropped name is free again and a collector claiming it registers
    {'ad': True, 'ti': None, 'collectors': [varying(1, [[('x', 'gauge'), ('x_total', 'gauge')], [('x', 'gauge')]], describe=False),
                                            custom(2, [('x_total', 'gauge')]),
                                            varying(3, [[('target', 'gauge'), ('x_sum', 'gauge')], [('target', 'gauge')]])],
     'ops': [['r', 1], ['r', 2], ['m', 1, 1], ['u', 1], ['r', 2], ['r', 1], ['r', 3], ['m', 3, 1], ['u', 3], ['m', 3, 0], ['r', 3]]},
    # the created-series switch does not change what anybody claims: x (counter) still reserves x_created while it is off
    {'ad': False, 'ti': None, 'created': True, 'collectors': [
        {'id': 1, 'kind': 'builtin', 'cls': 'Counter', 'name': 'x'}, {'id': 2, 'kind': 'builtin', 'cls': 'Gauge', 'name': 'x_created'},
        custom(3, [('x', 'summary')]), custom(4, [('x_created', 'gauge')])],
     'ops': [['c', False], ['r', 1], ['r', 2], ['r', 4], ['u', 1], ['r', 3], ['r', 4], ['c', True], ['r', 2], ['u', 3], ['c', False],
             ['r', 2], ['r', 1]]},
    # auto_describe, no describe(), incomplete sample sets at registration: the claims are the TYPE's suffixes all the same
    {'ad': True, 'ti': None, 'collectors': [custom(1, [('x', 'counter')], describe=None, samples='first'),
                                            custom(2, [('x_created', 'gauge')]),
                                            custom(3, [('x', 'histogram')], describe=None, samples='empty'),
                                            custom(4, [('x_sum', 'gauge')], describe=None)],
     'ops': [['r', 1], ['r', 2], ['u', 1], ['r', 3], ['r', 4], ['r', 2]]},
    # former F6 witness: must unregister cleanly, after which a collector claiming x registers
    {'ad': False, 'ti': None, 'collectors': [custom(1, [('x', 'counter'), ('x_total', 'gauge')]), custom(2, [('x', 'gauge')])],
     'ops': [['r', 1], ['u', 1], ['r', 2]]},
    # failed register, unregister, target info interleaved (the shape no test has)
    {'ad': True, 'ti': {'a': 'b'}, 'collectors': [custom(1, [('x', 'counter')]), custom(2, [('x_created', 'gauge')], describe=None),
                                                  custom(3, [('target', 'info')]), custom(4, [('x_total', 'unknown')])],
     'ops': [['r', 1], ['r', 2], ['r', 3], ['t', None], ['r', 3], ['t', {'c': 'd'}], ['u', 1], ['r', 2], ['r', 4], ['r', 1],
             ['u', 3], ['t', {'c': 'd'}], ['u', 2], ['u', 2], ['r', 1]]},
    # built-in classes registering themselves
    {'ad': False, 'ti': None, 'collectors': [
        {'id': 1, 'kind': 'builtin', 'cls': 'Counter', 'name': 'x_total'},
        {'id': 2, 'kind': 'builtin', 'cls': 'Gauge', 'name': 'x_created'},
        {'id': 3, 'kind': 'builtin', 'cls': 'Histogram', 'name': 'x'},
        {'id': 4, 'kind': 'builtin', 'cls': 'Info', 'name': 'target'},
        {'id': 5, 'kind': 'builtin', 'cls': 'Enum', 'name': 'x'},
        {'id': 6, 'kind': 'builtin', 'cls': 'Summary', 'name': 'x'}],
     'ops': [['r', 1], ['r', 2], ['r', 3], ['u', 1], ['r', 3], ['r', 2], ['r', 4], ['t', {'a': 'b'}], ['u', 4], ['t', {'a': 'b'}],
             ['r', 4], ['u', 3], ['r', 5], ['r', 6], ['u', 5], ['r', 6]]},
]


# ------------------------------------------------------------------------------------------------ check
class Runner:
    def __init__(self, ctx):
        self.ctx = ctx
        self.pending = []     # (case, prep, obs) awaiting the driver
        self.reported = {}

    def one(self, case, shrink=True):
        ctx = self.ctx
        prep = Prepared(case)
        fails = []
        obs, _ = run_history(prep, case['ops'], lambda sig, what, step: fails.append((sig, what, step)), ctx.count)
        for sig, what, step in fails:
            n = self.reported.get(sig, 0)
            self.reported[sig] = n + 1
            ctx.count('oracle-' + sig)
            if n >= MAX_REPORTS_PER_SIG:
                continue
            c = dict(case)
            c['ops'] = case['ops'][:step + 1]
            if shrink and len(c['ops']) > 2:
                c['ops'] = lib.shrink_list(c['ops'], lambda ops: sig in sigs_of(case, ops), max_rounds=60)
            ctx.fail(sig, what if c['ops'] == case['ops'][:step + 1] else what + ' (history shrunk to %s)' % ' '.join(map(enc_op, c['ops'])), c)
        errs = tuple(o.err for o in obs)
        nontrivial = any(e != 'ok' for e in errs) and any(o.calls for o in obs)
        key = (tuple(c['id'] for c in case['collectors']), errs, tuple(tuple(o.calls) for o in obs),
               tuple(o.ti for o in obs), tuple(tuple(o.keys or ()) for o in obs))
        ctx.case(nontrivial_key=hash(key) if nontrivial else None,
                 sample={'auto_describe': case['ad'], 'target_info': case['ti'],
                         'collectors': {c['id']: (prep.desc[c['id']], prep.dup_own[c['id']]) for c in case['collectors']},
                         'ops': ' '.join(map(enc_op, case['ops'])), 'outcomes': list(errs)})
        ctx.count('history-length-%02d' % min(len(case['ops']), 40))
        if any(o[0] == 'm' for o in case['ops']):
            # the model treats a collector as a VALUE (describe()/collect() never change): a history that mutates a collector
            # is checked by the oracle on the real code only
            ctx.count('oracle-only-histories-with-mutating-collector')
            return
        self.pending.append((case, prep.request(), obs))
        if len(self.pending) >= 4000:
            self.flush()

    def flush(self):
        ctx = self.ctx
        if not self.pending:
            return
        replies = ctx.driver.run([p[1] for p in self.pending])
        if replies is not None:
            for (case, _, obs), rep in zip(self.pending, replies):
                ctx.traces += 1
                why = compare_steps(rep, obs, drop_created=uses_switch(case))
                if why:
                    ctx.diverge(why, case)
        self.pending = []


def uses_switch(case):
    return not case.get('created', True) or any(o[0] == 'c' for o in case['ops'])


def sigs_of(case, ops):
    c = dict(case)
    c['ops'] = ops
    prep = Prepared(c)
    out = []
    run_history(prep, ops, lambda sig, what, step: out.append(sig))
    return set(out)


def run(ctx):
    ctx.rule = ('histories of register/unregister/set_target_info: corpus (F6 witness, interleaved failed register/unregister/'
                'target info, built-in classes); every history of length 3 over 10 clash-rich collectors (x counter, x_total '
                'gauge, x_created gauge w/o describe, target info, target_info gauge, x histogram w/o describe, x_sum summary, '
                'the F6 collector) x {register, unregister} + set_target_info(None/{}/labels), auto_describe off and on; every '
                'history of length 3 over {x counter, x_created gauge, built-in Histogram x, built-in Gauge x_created, undescribed '
                'x summary} x {register, unregister} + disable/enable_created_metrics(); random '
                'histories of length 40 over 3-8 collectors drawn from the 11-name alphabet x 8 types x describe present/absent/'
                'disagreeing x built-in Counter/Gauge/Summary/Histogram/Info/Enum, initial target info None/{}/labels, time-varying collectors (families change between calls, switched by a history op; oracle only), half of them with the created-series switch toggled at random points. '
                'Non-trivial: at least one call raised and at least one collector was collected; distinct by the trace of '
                '(outcome, collected ids, name-map keys, target info)')
    rn = Runner(ctx)
    for case in CORPUS:
        rn.one(case)
    cs, ops = reduced_alphabet()
    depth = 3
    n = 0
    for ad in (False, True):
        for seq in itertools.product(ops, repeat=depth):
            rn.one({'ad': ad, 'ti': None, 'collectors': cs, 'ops': list(seq)}, shrink=False)
            n += 1
    ctx.extra['exhaustive_block'] = {'depth': depth, 'operations': len(ops), 'auto_describe': [False, True], 'histories': n}
    # the configuration dimension: created series switched off / on at any point of the history
    cs2 = [custom(1, [('x', 'counter')]), custom(2, [('x_created', 'gauge')]),
           {'id': 3, 'kind': 'builtin', 'cls': 'Histogram', 'name': 'x'},
           {'id': 4, 'kind': 'builtin', 'cls': 'Gauge', 'name': 'x_created'},
           custom(5, [('x', 'summary')], describe=None)]
    ops2 = [[k, c['id']] for c in cs2 for k in 'ru'] + [['c', False], ['c', True]]
    n2 = 0
    for ad in (False, True):
        for seq in itertools.product(ops2, repeat=depth):
            rn.one({'ad': ad, 'ti': None, 'created': True, 'collectors': cs2, 'ops': list(seq)}, shrink=False)
            n2 += 1
    ctx.extra['exhaustive_block_created_switch'] = {'depth': depth, 'operations': len(ops2), 'histories': n2}
    nrand = 350 if ctx.tier == 'quick' else 6000
    if ctx.broken:
        nrand *= 3          # a proof or the extraction broke: widen the failing-input search
    for _ in range(nrand):
        rn.one(random_case(ctx.rng, 40))
    if ctx.tier != 'quick':
        for ad in (False, True):
            for seq in itertools.product(ops[:12] + ops[16:], repeat=4):
                rn.one({'ad': ad, 'ti': None, 'collectors': cs, 'ops': list(seq)}, shrink=False)
    rn.flush()
    from props import c06frame
    c06frame.run(ctx)


def replay(ctx, case):
    c = case.get('case', case)
    if isinstance(c, dict) and 'frame' in c:
        from props import c06frame
        return c06frame.replay(ctx, c)
    prep = Prepared(c)
    fails = []
    obs, _ = run_history(prep, c['ops'], lambda sig, what, step: fails.append((sig, what)))
    print('history:', ' '.join(map(enc_op, c['ops'])), '| outcomes:', [o.err for o in obs])
    for sig, what in fails:
        print('REPLAY-FAIL', sig, what)
    rc = 1 if fails else 0
    replies = ctx.driver.run([prep.request()])
    if replies is not None:
        why = compare_steps(replies[0], obs)
        if why:
            print('REPLAY-DIVERGE', why)
            rc = 1
    return rc
