#!/usr/bin/env python3
"""Regenerate the per-change table at the end of DESIGN.md section 12 from seeded/<id>/meta.json and seeded/RESULTS.json
(everything between the table header line and the next '## ' heading is replaced).  Prints the counts per outcome.
usage: harness/design_seeded.py"""
import json
import os
import re

VERIF = os.path.dirname(os.path.dirname(os.path.abspath(__file__)))
HEADER = '| id | change (as described by its author) | needs, to manifest | caught by |'


def cut(s, n):
    s = ' '.join(str(s).split()).replace('|', '/')
    return s if len(s) <= n else s[:n - 1] + '…'


def key(name):
    p, n = name.split('-')
    return p, int(n)


def main():
    sd = os.path.join(VERIF, 'seeded')
    res = json.load(open(os.path.join(sd, 'RESULTS.json')))
    rows, tally = [], {}
    for name in sorted((d for d in os.listdir(sd) if os.path.isdir(os.path.join(sd, d))), key=key):
        meta = json.load(open(os.path.join(sd, name, 'meta.json')))
        r = res.get(name, {})
        caught = []
        for p, c in sorted(r.get('checks', {}).items()):
            if c.get('exit') == 1:
                caught.append('%s: %s' % (p, 'broken proof/correspondence only' if c.get('no_failing_input') or str(c.get('what', '')).startswith('[') else 'failing input'))
            elif c.get('exit') == 0:
                caught.append('%s: missed' % p)
            else:
                caught.append('%s: infrastructure error' % p)
        best = 'failing input' if any('failing input' in c for c in caught) else 'proof only' if any('broken' in c for c in caught) else 'not caught'
        tally[best] = tally.get(best, 0) + 1
        if best == 'failing input':  # name the check(s) that give the failing input; the others are noise
            caught = [c for c in caught if 'failing input' in c]
        rows.append('| %s | %s | %s | %s |' % (name, cut(meta.get('title', ''), 150), cut(meta.get('needs', ''), 140), '; '.join(caught) or 'not run'))
    p = os.path.join(VERIF, 'DESIGN.md')
    s = open(p).read()
    i = s.index(HEADER)
    j = s.index('\n## ', i)
    s = s[:i] + HEADER + '\n|---|---|---|---|\n' + '\n'.join(rows) + '\n' + s[j:]
    open(p, 'w').write(s)
    print(len(rows), 'changes;', tally)


if __name__ == '__main__':
    main()
