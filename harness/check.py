#!/venv/bin/python
"""check.py Cxx [--tier quick|thorough] [--replay FILE]

Decides one property: T1 extraction -> Lean proof obligations (+ axiom audit) -> T2 correspondence of the executable
model with /repo's working tree -> property oracle on the real code / failing-input search -> verdict + evidence.
Exit 0: held on everything explored.  Exit 1: VIOLATION line printed.  Exit 2: infrastructure trouble.
"""
import importlib
import json
import os
import sys
import traceback

HERE = os.path.dirname(os.path.abspath(__file__))
sys.path.insert(0, HERE)
import lib

# the real code: /repo's working tree, not an installed copy
sys.path.insert(0, lib.REPO)
os.environ.setdefault('PROMETHEUS_CLIENT_PYTHON_VERIF', '1')


def main(argv):
    if len(argv) < 2:
        print(__doc__)
        return 2
    prop = argv[1].upper()
    tier = os.environ.get('VERIF_TIER', 'quick')
    replay = None
    i = 2
    while i < len(argv):
        if argv[i] == '--tier': tier = argv[i + 1]; i += 2
        elif argv[i] == '--replay': replay = argv[i + 1]; i += 2
        else:
            print('unknown argument', argv[i]); return 2
    seed = int(os.environ.get('VERIF_SEED', '0') or 0)
    if os.environ.get('VERIF_COVER'):
        lib.start_cover(os.environ['VERIF_COVER'])
    ctx = lib.Ctx(prop, tier, seed)
    try:
        mod = importlib.import_module('props.' + prop.lower())
        ob = lib.load_obligations(prop)
        ctx.trusted += ob.get('trusted', [])
        ctx.assumptions += ob.get('assumptions', [])
        if replay:
            case = json.load(open(replay))
            ctx.build(ob['theorems'], tuple(ob.get('extra_modules', ())))
            rc = mod.replay(ctx, case)
            return rc
        ctx.build(ob['theorems'], tuple(ob.get('extra_modules', ())))
        if tier == 'thorough':
            ctx.leanchecker()
        mod.run(ctx)
        return ctx.finish()
    except lib.Infra as e:
        print('INFRA-ERROR %s: %s' % (prop, e))
        return 2
    except Exception:
        traceback.print_exc()
        print('INFRA-ERROR %s: harness exception' % prop)
        return 2


if __name__ == '__main__':
    sys.exit(main(sys.argv))
