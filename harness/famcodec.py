"""Python side of lean/PromVerif/Drv/Codec.lean: metric families -> token stream for the driver."""
import math

import lib
from prometheus_client.samples import Timestamp


def repr_float(v):
    """repr(float(v)) — the text the model's floatToGoString takes"""
    return repr(float(v))


def millis(ts):
    return int(float(ts) * 1000)


def ts_core(ts):
    if isinstance(ts, Timestamp):
        return 's:%d:%d' % (ts.sec, ts.nsec)
    if isinstance(ts, bool):
        raise TypeError('bool timestamp')
    if isinstance(ts, int):
        return 'i:%d' % ts
    return 'f:' + repr(float(ts)).encode().hex()


def enc_labels(d):
    out = [str(len(d))]
    for k, v in d.items():
        out += [lib.hx(k), lib.hx(v)]
    return out


def enc_sample(s):
    out = [lib.hx(s.name)] + enc_labels(s.labels) + [lib.hx(repr_float(s.value))]
    if s.timestamp is None:
        out.append('-')
    else:
        out.append('%s:%d' % (ts_core(s.timestamp), millis(s.timestamp)))
    if s.exemplar is None:
        out.append('-')
    else:
        e = s.exemplar
        out += ['E'] + enc_labels(e.labels) + [lib.hx(repr_float(e.value))]
        out.append('-' if e.timestamp is None else ts_core(e.timestamp))
    return out


def enc_family(m):
    out = [lib.hx(m.name), lib.hx(m.documentation), lib.hx(m.type), lib.hx(m.unit), str(len(m.samples))]
    for s in m.samples:
        out += enc_sample(s)
    return out


def enc_families(ms):
    ms = list(ms)
    out = [str(len(ms))]
    for m in ms:
        out += enc_family(m)
    return ' '.join(out)
