"""Function-level correspondence (T2) of the shared scanning core (Model/ParseCore.lean, Py/Float.lean, the exposition
helpers) with the real functions.  Used by the C03/C04/C05/C14/C15 checks; can also be run alone:
    /venv/bin/python harness/corecheck.py [n]
"""
import math
import string
import struct
import sys

import lib

ALPHA = ['\\', '"', '\n', ',', '=', '{', '}', '#', ' ', '\t', '\r', '\xa0', ' ', 'a', 'n', 'b', '_', ':', '1', 'é', '😀', '\x1c']


def rand_text(rng, maxlen=10, alpha=ALPHA):
    n = rng.choice([0, 1, 1, 2, 2, 3, 3, 4, 5, 6, 8, maxlen])
    return ''.join(rng.choice(alpha) for _ in range(n))


def labelish(rng):
    """mostly-valid label blocks with adversarial values"""
    parts = []
    for _ in range(rng.randrange(0, 4)):
        name = rng.choice(['a', '"a"', 'b_1', '"b_1"', 'le', '"le"', '"é x"', '"a\\"b"', '__name__', '"__name__"', 'a b', '1a', '"q"', 'q', ''])
        v = rand_text(rng, 6)
        v = v.replace('\\', '\\\\').replace('\n', '\\n').replace('"', '\\"') if rng.random() < 0.8 else v
        sep = rng.choice(['=', '=', '=', ' = ', '', '=='])
        parts.append('%s%s"%s"' % (name, sep, v) if rng.random() < 0.9 else '"%s"' % v)
    s = rng.choice([',', ',', ', ', ' ,', ',,'] if rng.random() < 0.3 else [',']).join(parts)
    if rng.random() < 0.15:
        s = rng.choice([',', ' ', '}', '"']) + s
    if rng.random() < 0.15:
        s = s + rng.choice([',', ' ', '}', '"', ',,'])
    return s


NUMS = ['1', '-1', '+1', '0', '1.5', '-1.5e3', '1e400', '-1e400', '1e-400', 'inf', '+Inf', '-INF', 'Infinity', 'nan', 'NaN', '-nan',
        '.5', '5.', '.', 'e5', '1e', '1e+', '1_0', '1__0', '_1', '1_', '0x10', '1 ', ' 1', '1\xa0', '٣', '٣.٥', '１e１', '007', '1.0e+06',
        '9' * 4300, '9' * 4301, '0' * 5000, '1' + '0' * 400, '0.' + '0' * 400 + '1', '4.9e-324', '2.4703282292062327e-324',
        '2.4703282292062328e-324', '1.7976931348623157e308', '1.7976931348623159e308', '2.2250738585072011e-308',
        '1\x1c', '\x1f1', '1\x85', '\u20281', '1\x0b', '9007199254740993', '9007199254740992.5', '0.1', '123456789012345678', '--1', '+-1', '1e5.5', '1..2', '', '-', '+', 'infinit', 'in']


def rand_num_text(rng):
    r = rng.random()
    if r < 0.35:
        return rng.choice(NUMS)
    if r < 0.6:
        return repr(struct.unpack('<d', struct.pack('<Q', rng.getrandbits(64)))[0])
    if r < 0.8:
        # decimal strings with many digits (exercises correct rounding)
        nd = rng.randrange(1, 40)
        s = ''.join(rng.choice(string.digits) for _ in range(nd))
        if rng.random() < 0.7:
            p = rng.randrange(0, len(s) + 1)
            s = s[:p] + '.' + s[p:]
        if rng.random() < 0.6:
            s += rng.choice('eE') + rng.choice(['', '+', '-']) + str(rng.randrange(0, 330))
        return rng.choice(['', '-', '+']) + s
    return rand_text(rng, 5, alpha=list('0123456789.eE+-_ infa'))


def canon(exc):
    return 'err ' + type(exc).__name__


def run(ctx, n=None):
    """returns number of divergences recorded"""
    from prometheus_client import parser as P
    from prometheus_client import validation as V
    from prometheus_client.openmetrics import exposition as OE
    rng = ctx.rng
    n = n or (1500 if ctx.tier == 'quick' else 20000)
    reqs, exps, descs = [], [], []

    def add(req, fn, desc):
        try:
            e = fn()
        except Exception as ex:   # noqa: every class is an observation
            e = canon(ex)
        reqs.append(req); exps.append(e); descs.append(desc)

    def b(x):
        return 'true' if x else 'false'

    legacy0 = V.get_legacy_validation()
    try:
        for i in range(n):
            t = rand_text(rng, 12)
            k = rng.randrange(0, len(t) + 2)
            add('core ice %s %d' % (lib.hx(t), min(k, len(t))), lambda: 'ok ' + b(P._is_character_escaped(t, min(k, len(t)))), ('ice', t, k))
            chs = rng.choice([None, ',}', '{', '}', '=', ' ', ' \t', '#', ' {'])
            st = rng.choice([0, 0, 0, 1, 2, k])
            add('core nuc %s %s %d' % (lib.hx(t), '-' if chs is None else lib.hx(chs), st),
                lambda: 'ok %d' % P._next_unquoted_char(t, chs, st), ('nuc', t, chs, st))
            add('core luc %s %s' % (lib.hx(t), '-' if chs is None else lib.hx(chs)),
                lambda: 'ok %d' % P._last_unquoted_char(t, chs), ('luc', t, chs))
            ms = rng.choice([0, 1, 3])
            add('core sq %s %s %d' % (lib.hx(t), '-' if chs is None else lib.hx(chs), ms),
                lambda: 'ok ' + lib.enc_list([lib.hx(x) for x in P._split_quoted(t, chs, ms)]), ('sq', t, chs, ms))

            def uu():
                a, q = P._unquote_unescape(t)
                return 'ok %s %s' % (lib.hx(a), b(q))
            add('core uu %s' % lib.hx(t), uu, ('uu', t))
            add('core resc %s' % lib.hx(t), lambda: 'ok ' + lib.hx(P._replace_escaping(t)), ('resc', t))
            add('core rhelp %s' % lib.hx(t), lambda: 'ok ' + lib.hx(P._replace_help_escaping(t)), ('rhelp', t))
            om = rng.random() < 0.5
            if t:
                def nt():
                    a, c = P._next_term(t, om)
                    return 'ok %s %s' % (lib.hx(a), lib.hx(c))
                add('core nt %s %d' % (lib.hx(t), om), nt, ('nt', t, om))
            ls = labelish(rng) if rng.random() < 0.8 else t
            leg = rng.random() < 0.5
            # the text-mode loop of parse_labels does not terminate on an unquoted '}' at the start of a term; the public
            # parsers never pass one (C14), so the function-level comparison keeps to what they can pass
            if om or P._next_unquoted_char(ls, '}') == -1:
                def pl():
                    (V.enable_legacy_validation if leg else V.disable_legacy_validation)()
                    d = P.parse_labels(ls, om)
                    return 'ok ' + lib.enc_list(['%s=%s' % (lib.hx(a), lib.hx(c)) for a, c in d.items()])
                add('core pl %d %s %d' % (leg, lib.hx(ls), om), pl, ('pl', ls, om, leg))
            num = rand_num_text(rng)

            def encnum(v):
                if isinstance(v, int):
                    return 'ok i:%d' % v
                return 'ok ' + lib.fbits(v)
            add('core pv %s' % lib.hx(num), lambda: encnum(P._parse_value(num)), ('pv', num))
            add('core int %s' % lib.hx(num), lambda: 'ok %d' % int(num), ('int', num))
            add('core float %s' % lib.hx(num), lambda: 'ok ' + lib.fbits(float(num)), ('float', num))
            # exposition helpers
            add('expo escape %s' % lib.hx(t), lambda: 'ok ' + lib.hx(OE._escape(t)), ('escape', t))
            add('expo escape_metric_name %s' % lib.hx(t), lambda: 'ok ' + lib.hx(OE.escape_metric_name(t)), ('emn', t))
            add('expo escape_label_name %s' % lib.hx(t), lambda: 'ok ' + lib.hx(OE.escape_label_name(t)), ('eln', t))
            nm = rng.choice(['a', 'a:b', '_x9', '9a', 'a\n', 'a\n\n', '__a', '__a\n', '__a\nb', '__', 'é', '', 'a b', ':']) if rng.random() < 0.6 else t
            add('expo legacy_metric_name %s' % lib.hx(nm), lambda: 'ok ' + b(V._is_valid_legacy_metric_name(nm)), ('lmn', nm))
            add('expo legacy_labelname %s' % lib.hx(nm), lambda: 'ok ' + b(V._is_valid_legacy_labelname(nm)), ('lln', nm))

            def vmn():
                (V.enable_legacy_validation if leg else V.disable_legacy_validation)()
                V._validate_metric_name(nm); return 'ok'
            add('expo validate_metric_name %d %s' % (leg, lib.hx(nm)), vmn, ('vmn', nm, leg))

            def vln():
                (V.enable_legacy_validation if leg else V.disable_legacy_validation)()
                V._validate_labelname(nm); return 'ok'
            add('expo validate_labelname %d %s' % (leg, lib.hx(nm)), vln, ('vln', nm, leg))
    finally:
        (V.enable_legacy_validation if legacy0 else V.disable_legacy_validation)()
    replies = ctx.driver.run(reqs)
    bad = 0
    if replies is None:
        return 0
    for req, e, r, d in zip(reqs, exps, replies, descs):
        ctx.traces += 1
        ctx.count('core:' + d[0])
        if e != r:
            bad += 1
            ctx.diverge('function-level: %r real=%r model=%r' % (d, e, r), {'request': req, 'real': e, 'model': r})
    return bad


if __name__ == '__main__':
    sys.path.insert(0, lib.REPO)
    ctx = lib.Ctx('CORE', 'quick', int(sys.argv[2]) if len(sys.argv) > 2 else 0)
    bad = run(ctx, int(sys.argv[1]) if len(sys.argv) > 1 else 3000)
    print('cases', ctx.traces, 'divergences', bad)
    for d in ctx.divergences[:25]:
        print(d['what'])
