#!/usr/bin/env python3
"""Writes /verif/MANIFEST.json from the table below (kept next to the checks so the two cannot drift)."""
import json
import os

VERIF = os.path.dirname(os.path.dirname(os.path.abspath(__file__)))

TECH = 'Lean 4 theorems about an executable model (kernel-checked, axioms audited) + T1 AST extraction into the model + T2 differential correspondence model vs /repo'

CLAIMED = {
    'C13': dict(
        text='Theorems over every repr text (unbounded digit strings): rendering of positive plain reprs with > 6 integer digits equals '
             "Go's canonical spelling (go_big, goFormat_canonical), denotes the same rational as the repr (go_preserves_value), all other "
             'texts are returned unchanged (go_small/go_negative/go_exp), specials spelled +Inf/-Inf/NaN. The literals of the rewriting are '
             're-extracted from utils.py on every run; the model is compared with the real function on ~10^4 (quick) / ~2·10^5 (thorough) doubles, '
             'where an independent oracle (bit-exact float() round trip, Decimal-derived canonical spelling) is evaluated on the real code.',
        note='Trusted: Lean kernel; CPython repr/float facts (re-validated per sample); extractor; sampling correspondence for control flow.',
        ref='DESIGN.md 5 C13'),
}

CLAIMED['C19'] = dict(
    text='Theorems for every job string, grouping key and gateway spelling (unbounded): URL-safe base64 and quote_plus round trips '
         '(b64_roundtrip, unquote_quote_plus), every escaped segment is non-empty and slash-free, the path built by _use_gateway decodes under '
         "the Pushgateway's rules to (job, job) followed by the grouping labels in sorted order (path_decodes, url_decodes), hence url_injective; "
         'method table PUT/POST/DELETE, empty delete body, text content type, timeout hand-over, gateway spelling equivalences. The literals, the '
         'sorted() call and the escape shape are re-extracted from exposition.py on every run; model vs real code on ~7·10^3 requests (exhaustive '
         'short strings over a URL-significant alphabet + random) with an independent decoder oracle (urlsafe_b64decode / unquote_plus) on the real URLs.',
    note="The lossless theorems hold under BOTH decoders: the Pushgateway's path unescaping ('+' literal; *_go theorems, which depend on the extracted encoder flag) and form decoding. Trusted: urlparse reduced to its scheme test (compared with the real urlparse per case); sorted() of unique str keys = code-point order; exposition body is an opaque parameter here (C03 covers it); job is a str."
         " The library's own handlers are inside the model too (Props/C19Handlers: default/passthrough/basic-auth handler send exactly the request _use_gateway built — method, URL, headers, body, caller's time-out; status >= 400 raises OSError; a followed redirect keeps method/body/headers; registry=None means REGISTRY), re-extracted from exposition.py and run against a loopback http.server and a stubbed opener; urllib's opener, http.client and sockets are trusted; tls_auth_handler not modelled.",
    ref='DESIGN.md 5 C19')

CLAIMED['C17'] = dict(
    text='Theorems over ALL header strings (every string is the rendering of an item list: grammar_total), all query strings, methods and both '
         'compression settings: OpenMetrics is chosen iff some listed media type equals application/openmetrics-text (om_iff_lists), gzip iff enabled and '
         'a coding equals gzip up to ASCII case incl. the two Unicode characters whose lower() is ASCII (gzip_iff), Content-Type matches the body format, '
         'body = that format\'s exposition of the registry restricted to name[] (body_is_restricted_exposition), WSGI = ASGI = MetricsHandler on every GET '
         '(frontends_agree, wsgi_asgi_agree), OPTIONS/405 without collecting. Literals, comparison operators and per-front-end parameter extraction are '
         're-extracted from exposition.py/asgi.py each run; the three real front-ends are driven in-process on ~3.5·10^3 requests (quick) with an independent oracle.',
    note="Scope limit: the three-way agreement is proved and tested for request targets without a raw '#' (not a valid RFC 3986 query character; with one, MetricsHandler — urlparse cuts at '#' — can differ from WSGI/ASGI: kernel-checked example raw_hash_in_target_differs; such requests are generated and counted under documented_limits). Header values are BYTES at the front-end boundary (ASGI codec extracted; WSGI/http.server latin-1 views trusted). Repeated Accept field lines out of scope. Trusted: parse_qs, gzip (abstract injective function); wsgiref/http.server/ASGI servers themselves are outside the model."
         ' Media-type parameters (version=, charset=, q=, …) and the Accept / Accept-Encoding values real scrapers send are a generated dimension; the Content-Type must be exactly one of the two documented literals and agree with the format read off the body.',
    ref='DESIGN.md 5 C17')
CLAIMED['C18'] = dict(
    text='The effect skeleton of write_to_textfile (open tmp, generate, encode, write pieces, close, rename; handler: caught class, remove tmp, re-raise; '
         'tmp name parts) is re-extracted from the AST each run and interpreted by the model. Theorems for all registries, all write splits/flush choices, '
         'all fault positions and exception classes, all crash prefixes and all interleavings of two writers: target is always old or complete new '
         '(target_always_old_or_new, crash_leaves_target_intact, two_writers_never_partial), a raising call leaves target = old, no tmp, same exception '
         '(failure_is_clean), success installs new, distinct (pid,tid) give distinct tmp names (tmp_names_distinct), two writers each complete. The real '
         'function is run with every single fault at every I/O step and collector, a reader snapshot at every cut, and all 924 interleavings of two real threads.',
    note='Trusted: Lean kernel; rename(2) atomicity and buffered-writer behaviour (modelled both flush-at-write and flush-at-close); single-fault model; '
         'BaseException that is not an Exception (KeyboardInterrupt from a collector) leaves tmp behind — outside the stated fault classes, proved as a documented limit.'
         ' Histories with identity changes AFTER earlier successful writes (write; fork/thread; concurrent writes scheduled step by step across processes) are part of the quick tier; T1 flags tmp-name parts not evaluated per call.',
    ref='DESIGN.md 5 C18')

CLAIMED['C01'] = dict(
    text='Executable model of labels()/inc/dec/set/observe/reset/info/state/remove/clear and collect for the six metric classes, generic in an abstract value type; '
         'theorems by induction over arbitrary operation histories: collect equals the reference spec of the accepted calls (collect_refines_spec), a raising call is a frame '
         '(rejected_is_frame, rejected_never_changes_collect), ValueError exactly for the rejected shapes (rejected_iff_of_repaired), positional/keyword/stringified addressing '
         'reaches one child (label_addressing), remove/clear exact and recreated children start at zero, histogram buckets cumulative with +Inf = _count. Guard operators, '
         'check order and keyword ordering are re-extracted from metrics.py each run; ~1.5·10^4 histories (exhaustive depth 3 + random) compared step by step with the real classes '
         'and judged by an independent Python reference written from the property text.',
    note='Trusted: Lean kernel; IEEE addition itself (hardware on both sides; the theorems are about an abstract V with explicit le-transitivity / exact-counting hypotheses); '
         'exemplars, set_function, _created values outside the statement; extractor; sampling correspondence.',
    ref='DESIGN.md 5 C01')
CLAIMED['C02'] = dict(
    text='Lock skeletons of every listed method (which shared attribute is touched under which lock, user calls, yields, iteration) are re-extracted from values.py/metrics.py/registry.py '
         'each run; WellLocked is decided on them (generated_well_locked, collect_paths_release_before_user_code) and meta-theorems over an interleaving semantics with a non-re-entrant lock '
         'table hold for any number of threads, any programs and every schedule: mutual_exclusion, no_lost_update (+ commutative-monoid sum), reads_are_held_values, reads_monotone, '
         'one_shared_child, no_iteration_error, deadlock_free, reentrant_collect_never_blocks; both value back-ends. A deterministic bytecode-level scheduler runs real threads on the real code '
         '(within a time budget: every schedule with 0 pre-emptions, every schedule with 1 pre-emption where the budget allows — per-program completeness is in the evidence — '
         'plus seeded random schedules; the thorough tier goes further) with an independent oracle, and every observed outcome must lie in the outcome set the model computes.',
    note='PARTIAL by nature: the theorems are about the extracted skeletons; that a thread switch falls only between bytecodes, that += is load/add/store, that the skeleton lists every shared '
         'access, threading.Lock semantics and mmap visibility across threads are runtime facts sampled by the scheduler harness, not proved.'
         ' Scheduler programs also construct built-in metrics while other threads collect, and change target info during a collect; finding F38 (Enum registered before _states was set: a concurrent collect raised AttributeError) was repaired in /repo (e025216) and is pinned by the T1 theorem constructors_publish_complete.',
    ref='DESIGN.md 5 C02',
    technique='Lean 4 theorems about an interleaving semantics over lock skeletons extracted from the source (T1) + decidable WellLocked on the generated skeletons + bytecode-level deterministic scheduler on the real code (T2)')
CLAIMED['C05'] = dict(
    text='An independent executable line grammar (Spec/LineGrammar) and theorems for ALL strings in every user-controlled position: escape output has no raw LF and only escaped quotes, '
         'any label name / metric name renders as exactly one grammar item (any_label_name_is_safe, any_metric_name_is_safe), the text exposition splits on LF into exactly the expected lines, '
         'each recognised (text_lines_exact), OpenMetrics likewise ending in exactly one # EOF (om_lines_exact_partial, om_single_eof_partial: hypothesis on the unit = known finding F4), '
         'HELP text is a valid docstring of the escape grammar of each format (help_text_well_escaped), constructor-accepted inputs expose without error, Graphite sanitiser whitelist and one line per sample. Regex anchors, escape chains and the Graphite class are re-extracted each run; '
         'real expositions over an adversarial alphabet in every position are fed to an independent Python recogniser.',
    note='Known findings (listed, reproduced each run): C05:unit-raw (F4), C05:graphite-empty-path (G2). Graphite prefix is operator configuration, outside the quantifier (documented limit). '
         'Number tokens come from C13. Trusted: Lean kernel, extractor, sampling correspondence.',
    ref='DESIGN.md 5 C05')
CLAIMED['C06'] = dict(
    text='Executable model of register/unregister/set_target_info/_get_names in Python statement order; invariant Inv (name map = graph of the collector map + target_info iff set, keys distinct) '
         'proved for every history (inv_run, no_double_claim_run), raising calls are frames (register_clash_is_frame, targetinfo_clash_is_frame), a clash raises iff a name is taken, '
         'unregister_releases_exactly, suffix table = the table in the property statement (suffix_table_is_spec). The suffix table and loop shape are re-extracted each run; ~1.4·10^4 histories '
         '(exhaustive depth 3 over a clash-rich alphabet + random + built-in classes) compared after every step, with an independent claims oracle on the real registry. '
         'Frame clause also for the two other ways in: a built-in metric constructor that raises leaves the registry as it was (ctor_rejected_is_frame; T1: no constructor can raise '
         'after the base constructor registered it) and code outside the registry mutating a target-info dict it passed in or was handed is a frame (caller_dict_mutation_is_frame; T1: copies '
         'stored and handed out); ~900 constructor / caller-dict cases judged by registry snapshots on the real code.',
    note='Trusted: Lean kernel; describe()/collect() of a collector are data of the model; extractor; sampling correspondence. The class-specific argument checks of a constructor are an opaque Boolean of the model (construct); defects F36/F37 found by these streams were repaired in /repo (28ed762, ab4e052).',
    ref='DESIGN.md 5 C06')
CLAIMED['C07'] = dict(
    text='collect_exact (target info, then every registered collector once in registration order, nothing from unregistered ones — for every history), restricted_metric_spec, '
         'restricted_is_filter (restricted collect is a permutation of the per-sample-name filter of the full collection keeping name, type, help and unit, empty families dropped) under the '
         'explicit precondition ClaimsCover, restricted_calls_only_claimants. Real registries × name subsets (exhaustive for ≤ 8 names + random) judged by an independent filter oracle with '
         'call counting. The three built-in collectors (gc/platform/process) are modelled on top of the family constructors (Props/C07Builtins: builtin_collectors_claims_cover, '
         'restricted_is_filter_default_registry, gc_collect_exact, platform_python_info, process_collect_exact), re-extracted from their source each run and run against fake gc/platform//proc readings.',
    note='ClaimsCover (a collector only emits sample names it claimed) is a precondition of restricted_is_filter: proved for all built-in metric classes (builtin_claims_cover), false for collectors '
         'and for every collector built with the eight metrics_core family constructors (Props/C07Families: family_sample_names_claimed, family_ctor_claims_cover, restricted_is_filter_family_collectors; metrics_core.py is modelled and re-extracted), false for collectors without describe() under auto_describe off = known finding C07:undescribed-collector-not-restrictable. http_name_param links C17.',
    ref='DESIGN.md 5 C07')
CLAIMED['C10'] = dict(
    text='Byte-level model of MmapedDict (layout, padding, doubling loop, positions, the three readers) with layout arithmetic re-extracted from mmap_dict.py; theorems for all write/read/reopen '
         'histories, all key lengths and all bit patterns: WF invariant, step refinement to an insertion-ordered map (inv_step, abs_step, run_refines), read_all_eq_spec, reader_agrees, '
         'reopen_preserves, growth_terminates, first-write order and last-write-wins. Real store vs model on histories over keys of every length mod 8, multi-byte keys, growth with small and real '
         'initial size, NaN payloads/-0.0/subnormals compared as raw bytes; writes that compare equal to the stored pair but differ in bits (signed zeros), inherited handles (a second handle on the '
         'file opened mid-history and closed later, as a forked child does) and files re-created under the same name with the same used-bytes header are part of every run.',
    note='Assumption Fits: the file stays below 2^31 bytes (the header is a signed 32-bit int; the real code raises struct.error beyond — observed once, not reproduced per run). Trusted: struct '
         'little-endian layout, ftruncate zero-extension, UTF-8 facts from Lean core; extractor; sampling correspondence.'
         ' Several lazy reader iterators alive at once are advanced in every interleaving (two readers) / at random (three, four).',
    ref='DESIGN.md 5 C10')
CLAIMED['C11'] = dict(
    text='Every writer operation of the C10 model returns its ordered file effects, the order being re-extracted from the source (skeleton_wellformed: entry before header, one 16-byte slice '
         'per value update, while-loop growth, short-file guard); theorems for every history and EVERY cut point: every_cut_readable (the reader succeeds and returns a prefix state, optionally '
         'plus the in-flight key at zero), every_cut_reopenable, never_written_never_read, value_update_single_effect, one_file_cannot_fail_scrape. The real effect trace is recorded, every '
         'prefix materialised and given to the real reader, collector and reopen; thorough tier kills forked writers with SIGKILL.',
    note='26 obligations, none partial: every cut of every history for any number of writer generations (every_cut_readable_gen, gen_cut_prefix_state, continuation_from_cut), never_written_never_read stated on the completed prefix + in-flight op, vanished live-gauge files are skipped (removed_files_are_tolerated; any other vanished file would escape: only mark_process_dead removes worker files, and only live-gauge ones), two_cut_read: a reader whose two read() calls see two different cuts still returns only entries published at the first (the one entry crossing the page boundary can get value and timestamp from different cuts). Trusted: one slice assignment and one read() are indivisible; file below 2^31 bytes; one writer per file at a time; json key decoding in the collector not modelled.'
         ' Besides crashes at every cut point: ERROR RETURNS — truncate / mmap failing with OSError, the same writer continuing; after every operation the live file is read, collected and reopened against the admissible states.',
    ref='DESIGN.md 5 C11')
CLAIMED['C16'] = dict(
    text='Protocol model of Timer / InprogressTracker / ExceptionCounter (flags re-extracted from context_managers.py) and of decorator.FunctionMaker signature forwarding; theorems by mutual '
         'induction over arbitrary call trees, clocks and exception classes: transparent (same value / same exception object), inprogress_balanced, one_observation_per_call with non-negative '
         'clamped durations (timer_exact), exception_counted_iff, forward_roundtrip, bind failures are TypeError; *_partial theorems carry exactly the known-finding hypotheses with kernel-checked '
         'counter-examples. exec-generated callables with all parameter kinds, scripted bodies and clocks are run through the real wrappers with an identity/metric-delta oracle.',
    note='Known findings (vendored decorator.py, listed): F13 positional-only parameters (clash / accepted by keyword / marker lost), F22 keyword-only _call_/_func_, F23 lambda renamed, F34 non-function callables refused. '
         'inprogress_balanced is about exact arithmetic (Int); on doubles the gauge returns to its prior value up to IEEE rounding of +1/−1 (exact for integer-valued gauges below 2^53). '
         'exec-generated wrapper source and CPython binding are modelled, not verified; async/generator bodies not modelled.'
         " Timer.labels is modelled (timer heap; labelled_block_exact, timer_labels_twice_raises, decorated_call_observes_ref_at_call_time); on a labelled parent never labelled inside the block __exit__ raises ValueError and replaces the body's outcome (unlabelled_parent_raises_at_exit) — outside the statement's domain ('on a metric or a labelled child'), counted not judged.",
    ref='DESIGN.md 5 C16')

CLAIMED['C08'] = dict(
    text='Model of _read_metrics/_accumulate_metrics/mark_process_dead (mode chain, comparison operators, update forms, file-name pattern re-extracted each run) over any number of files/entries, abstract '
         'values; theorems: the result equals the per-mode aggregate spec as a finite map with distinct keys (accumulate_eq_spec_partial: no series duplicated or dropped), histogram_merge_cumulative, '
         'count_eq_inf_bucket, gauge_value_declarative (min/max/mostrecent give an extremal element; mostrecent absent iff never set), help/labels/bounds preserved, live_modes_ignore_dead, order '
         'independence of sums under a commutative monoid. 1–4 simulated processes × 10 modes × ties/NaN/±0/dead and reused pids, collected after every step and judged by an independent reference aggregate; '
         'thorough tier forks real workers.',
    note="Known finding (listed): C08:gauge-label-named-pid (F24). accumulate_eq_spec_partial holds for listings of files written by values.py in which a metric name has one type and one gauge mode, le texts parse, label names inside a key are distinct (derived for worker directories), no gauge has a label named pid; bucket-key distinctness is derived from injectivity of floatToGoString on the occurring bounds, itself derived from C13 up to three stated repr facts. No-duplicates is stated on the OUTPUT after dict(labels). collect_workers_partial / worker_sums_partial additionally assume the C09 precondition and list each worker's calls contiguously (disjoint identities write disjoint files). series_present_iff states which pid series exist. The store file is abstracted to an ordered map (justified by C10); json key round trip and glob order trusted."
         ' Collections racing with mark_process_dead (files vanishing between listing and reads), sparse collections through one long-lived collector object (worker death + same-pid re-creation inside a span) and merge(files, accumulate=False) (oracle-only) are part of the quick tier.',
    ref='DESIGN.md 5 C08')
CLAIMED['C09'] = dict(
    text='State-machine model of the MultiProcessValue closure (pid, files, live values; every op begins with the pid check that closes files and re-binds every live value by re-reading) with the '
         'call-order facts re-extracted from values.py each run; theorems for histories of any length with any number of identity changes incl. returning to an earlier identity: writes_only_own_files, '
         'rebinding_reads_current, per_pid_gauge_partial, conservation_partial (sum over all identities\' files = sum of all increments in a commutative monoid). Simulated identities with a change '
         'inserted at every position, per-file contents observed after every step; thorough tier uses real os.fork().',
    note='The *_partial theorems (per_pid_gauge, conservation, caches_coherent, world_cell, reuse_continues, conservation_world) hold for histories in which every update goes through the YOUNGEST value object on its (file prefix, key); stale objects are allowed (remove()/clear() then labels() again is covered); updating both an old and a new object on one key loses updates in the real code too and the model reproduces it (two_objects_lose_updates). Identities contain no underscore; conservation is for series that are only incremented, in a commutative monoid. writes_only_own_files, rebinding_reads_current, dead_removes_only_live_files, entry_present_iff need none of this. World histories include spawn/dead/pid reuse.'
         " Real os.fork() trees (parent keeps appending between the fork and the child's first operation; chains; siblings) run in the quick tier with a byte-level oracle on every file the acting process does not own.",
    ref='DESIGN.md 5 C09')

CLAIMED['C03'] = dict(
    text='On the shared scanning-core model (every function compared with the real one at function level on each run) the round trip is proved for ALL strings: unescape_escape, '
         'helpUnescape_helpEscape, scan_escape / nextUnquoted_skips_quoted (quote-parity invariant), parse_labels_render (any label values, legacy or quoted names, any number of labels), '
         'sample_line_roundtrip (name, labels, value token, milliseconds), help/type_line_roundtrip, and at document level text_roundtrip_samples (every exposed sample comes back in order, incl. '
         'trailing _created/_gsum/_gcount groups) and text_roundtrip_families (the documented name/type munging). Escape chains, regex anchors, munging table and suffix lists are re-extracted '
         'each run; real registries over an adversarial alphabet in every position are exposed, parsed back and compared by an oracle written from the property text.',
    note='Known finding (listed): reserved __ label names written by sites that do not validate them (F20) — LabelsOK excludes exactly those. Number parsing is a parameter with the law '
         'pyFloat(floatToGoString v) = v (C13 + CPython); int(float(ts)*1000) is CPython arithmetic passed in. Trusted: Lean kernel, extractor, sampling correspondence.',
    ref='DESIGN.md 5 C03')
CLAIMED['C14'] = dict(
    text='Both parsers are modelled in full with every raising site explicit (IndexError, KeyError, TypeError, AttributeError, OverflowError, timeout), loops with fuel; text_parser_total and '
         'om_parser_total: for EVERY input string and EVERY choice of the number-parsing parameters the result is families or ValueError, never another class and never out of fuel '
         '(text_parser_no_timeout, om_parser_no_timeout), incl. the native-histogram detector and struct parser (regexes modelled by hand-written matchers over extracted Unicode class tables) and '
         'Timestamp comparisons. Each repaired raise site is a T1 flag, so reverting a fix breaks the theorem. Grammar-generated documents with all single mutations and truncation at every '
         'offset, plus unstructured strings, are run twice through both real parsers under a watchdog and compared with the model.',
    note='Hypotheses of om_parser_total are interpreter facts (float("NaN") is NaN; no \\d character is whitespace), validated on the generated tables. int()/float() raise only ValueError (trusted). '
         'Determinism of the real code is sampled (each input parsed twice).'
         ' Input classes added in round 8/9: quoted tokens in every region of a sample line cut at every position with odd/even backslash runs.',
    ref='DESIGN.md 5 C14')
CLAIMED['C15'] = dict(
    text='One theorem per rule of the statement over lists of parsed lines with the offending line at an arbitrary position and arbitrary names, labels, numbers, groups before and after it: '
         'missing_eof, content_after_eof, blank_line, repeated/late_metadata, interleaved/clashing_families, unit_not_suffix, unit_on_info_or_stateset, info_not_one, stateset_bad_value/no_label, '
         'counter_like_nan/negative, quantile_out_of_range, count_not_integral, timestamp_backwards/partial, duplicate_label, exemplar_ineligible/too_long, bucket_bound_nan, '
         'hist_bounds_not_increasing, hist_counts_not_cumulative, hist_no_inf_document, hist_count_ne_inf_document (all document level; the two histogram-group rules with the closing event explicit). Suffix lists, comparison operators, '
         'limits and keywords are re-extracted each run; valid generated documents × 26 rule-violating transformations × every applicable position are fed to the real parser.',
    note='Document-level theorems (offending line anywhere, everything else arbitrary) for every rule of the statement; rejected_with_valueError composes them with om_parser_total (the error is ValueError). duplicate_label_document and exemplar_too_long_document are on rendered text. hist_no_inf_document / hist_count_ne_inf_document state the closing event explicitly (GroupClosed: the family closes or a sample of another group follows); not covered at document level: group lines repeating an earlier series at an unchanged timestamp, a count line preceding its buckets. Exemptions (run against the real parser each check): info timestamp order; order only between consecutive samples of a group; negative _gsum; _created; a line repeating a series at an unchanged timestamp is dropped; native-histogram lines bypass the family-name test; families without # TYPE and a _count line before its buckets are harness-only.'
         ' Every (document, rule) is also judged on a first and a second parse, after the valid base document and in a warmed-up interpreter (fork-per-request helpers): a differing outcome is reported as history-dependent.',
    ref='DESIGN.md 5 C15')

CLAIMED['C12'] = dict(
    text='A composition theorem over the C01 (in-process metrics), C09 (file-backed value closure) and C08 (collector) models: backends_equivalent_partial — for every single-process history over '
         'counters, gauges (all ten modes), summaries and histograms, the normalised multiprocess collection and the normalised in-process collection contain exactly the same (name, labels, value) '
         'pairs, normalise removing only the intended differences (_created, exemplars, pid label in all/liveall, order, never-set mostrecent gauges); built from one_interface, cells_agree_partial, '
         'collector_on_one_process, le_labels_agree. Every C01-style history is run against BOTH real back-ends (MutexValue registry vs MultiProcessValue + MultiProcessCollector) and compared by an '
         'oracle written from the property text; the driver returns both models\' maps.',
    note='Known findings (listed, each excluded by an explicit hypothesis and shown by a kernel-checked counter-example): C12:negative-first-bound-sum (F14), C12:remove-clear-not-propagated (F28), C12:signed-zero-bounds (F29). The two collections are compared as sets of ((sample name, sorted labels), value) under NUMERIC equality (sign of zero ignored: a sum starting from 0.0 turns -0.0 into 0.0 in the collector; counted as a documented limit), plus family name/type/help (families_agree_partial; both real collections in the harness); multiplicity of repeated series is not compared. BoundsOK (rendered le text is a fixpoint of parse∘render) is validated per generated bound. Inherits the preconditions of C08/C09.',
    ref='DESIGN.md 5 C12')

CLAIMED['C04'] = dict(
    text='On the OpenMetrics exposition and parser models (parser factored as assemble ∘ map parseLine ∘ docLines, proved equal to the monolithic fold) the round trip is proved for ALL strings: '
         'om_help_roundtrip, om_labels_roundtrip(_named), om_timestamp_roundtrip (int, Timestamp, plain and exponent floats, by denoted value), om_exemplar_roundtrip (through the character state '
         'machine, any quotes/backslashes), om_sample_line_roundtrip (every combination of name kind × labels × value × timestamp form × exemplar), not_nh_on_rendered_line; at document level '
         'om_exposition_parse and om_roundtrip_partial (ExpressibleOM fs → omParse (generateLatest fs) = ok fs\' ≈ fs for any number of families), ruleClean_breaks_no_c15_rule; converse at line level '
         '(om_reparse_partial, om_reparse_timestamp). Real registries with units, _created, three timestamp forms and exemplars over an adversarial alphabet are exposed, parsed and compared; generated '
         'accepted documents go through parse → expose → parse.',
    note='Known findings (listed): C04:negative-bound-count-without-sum (F17), C04:duplicate-mixed-timestamp-spelling (F30), C04:label-name-unvalidated:* (F20b). Domain = rule-clean content (C15 obliges '
         'the parser to reject e.g. NaN counters), stated as the decidable predicate RuleClean through the parser\'s rule layer; nan/inf timestamps are rule content. The document-level converse is '
         'covered by the harness only.',
    ref='DESIGN.md 5 C04')

PENDING_REASON = 'not claimed yet: model/theorems for this property are not built at this commit (work order in DESIGN.md 8); no other technique is substituted'


def main():
    props = [json.loads(l) for l in open(os.path.join(VERIF, 'properties.jsonl'))]
    checks, na = [], []
    for p in props:
        pid = p['id']
        if pid in CLAIMED:
            c = CLAIMED[pid]
            checks.append({
                'property_id': pid,
                'quick_cmd': 'harness/check.py %s --tier quick' % pid,
                'thorough_cmd': 'harness/check.py %s --tier thorough' % pid,
                'evidence_file': 'evidence/%s.json' % pid,
                'replay_cmd_template': 'harness/check.py %s --replay {path}' % pid,
                'engine': 'lean-proof',
                'level_claimed': {'category': 'proof', 'text': c['text'], 'design_ref': c['ref']},
                'level_note': c['note'],
                'technique': c.get('technique', TECH),
            })
        else:
            na.append({'property_id': pid, 'reason': NA.get(pid, PENDING_REASON)})
    m = {
        'version': 1,
        'setup_cmd': 'sh harness/setup.sh',
        'hooks': {
            'guard': 'PROMETHEUS_CLIENT_PYTHON_VERIF',
            'enable': 'no hook is compiled into /repo; checks import /repo\'s working tree in-process and patch module attributes from the harness side (the variable is set by check.py for uniformity only)',
            'baseline_off_cmd': 'cd /repo && env -u PROMETHEUS_CLIENT_PYTHON_VERIF /venv/bin/python -m pytest -ra -q -p no:cacheprovider --timeout=900 --continue-on-collection-errors',
            'source_commits': [],
            'add_only': True,
        },
        'engines': [{
            'name': 'lean-proof', 'path': 'lean/', 'serves_properties': sorted(CLAIMED),
            'kind_free_text': 'Lake project PromVerif (Lean 4.33, no Mathlib): Model/, Spec/, Lemmas/, Props/Cxx.lean theorems; Generated/ re-extracted from /repo by extract/extract.py; native driver pvdriver for the correspondence check; harness/check.py orchestrates',
        }],
        'checks': checks,
        'notes': 'Every check: T1 extraction -> lake build of the property theorems + #print axioms audit -> T2 correspondence and property oracle on the real code -> verdict. known_findings.json lists recorded/fixed defects. See DESIGN.md.',
        'not_applicable': na,
    }
    with open(os.path.join(VERIF, 'MANIFEST.json'), 'w') as f:
        json.dump(m, f, indent=1)
    print('MANIFEST.json: %d checks, %d not claimed' % (len(checks), len(na)))

NA = {}

if __name__ == '__main__':
    main()
