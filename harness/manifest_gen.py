#!/usr/bin/env python3
"""Writes /verif/MANIFEST.json from the table below (kept next to the checks so the two cannot drift)."""
import json
import os

VERIF = os.path.dirname(os.path.dirname(os.path.abspath(__file__)))

TECH = 'Lean 4 theorems about an executable model (kernel-checked, axioms audited) + T1 AST extraction into the model + T2 differential correspondence model vs /repo'

CLAIMED = {
    'C13': dict(
        text='Theorems over every repr text (unbounded digit strings): rendering of positive plain reprs with > 6 integer digits equals '
             "Go's canonical spelling (go_big, goFormat_canonical), denotes the same rational as the repr (go_preserves_value), all other "
             'texts are returned unchanged (go_small/go_negative/go_exp), specials spelled +Inf/-Inf/NaN. The literals of the rewriting are '
             're-extracted from utils.py on every run; the model is compared with the real function on ~10^4 (quick) / ~2·10^5 (thorough) doubles, '
             'where an independent oracle (bit-exact float() round trip, Decimal-derived canonical spelling) is evaluated on the real code.',
        note='Trusted: Lean kernel; CPython repr/float facts (re-validated per sample); extractor; sampling correspondence for control flow.',
        ref='DESIGN.md 5 C13'),
}

CLAIMED['C19'] = dict(
    text='Theorems for every job string, grouping key and gateway spelling (unbounded): URL-safe base64 and quote_plus round trips '
         '(b64_roundtrip, unquote_quote_plus), every escaped segment is non-empty and slash-free, the path built by _use_gateway decodes under '
         "the Pushgateway's rules to (job, job) followed by the grouping labels in sorted order (path_decodes, url_decodes), hence url_injective; "
         'method table PUT/POST/DELETE, empty delete body, text content type, timeout hand-over, gateway spelling equivalences. The literals, the '
         'sorted() call and the escape shape are re-extracted from exposition.py on every run; model vs real code on ~7·10^3 requests (exhaustive '
         'short strings over a URL-significant alphabet + random) with an independent decoder oracle (urlsafe_b64decode / unquote_plus) on the real URLs.',
    note='Trusted: Lean kernel; urlparse reduced to its scheme test (compared with the real urlparse per case); sorted() of unique str keys = '
         'code-point order; exposition body is an opaque parameter here (C03 covers it); extractor; sampling correspondence.',
    ref='DESIGN.md 5 C19')

CLAIMED['C17'] = dict(
    text='Theorems over ALL header strings (every string is the rendering of an item list: grammar_total), all query strings, methods and both '
         'compression settings: OpenMetrics is chosen iff some listed media type equals application/openmetrics-text (om_iff_lists), gzip iff enabled and '
         'a coding equals gzip up to ASCII case incl. the two Unicode characters whose lower() is ASCII (gzip_iff), Content-Type matches the body format, '
         'body = that format\'s exposition of the registry restricted to name[] (body_is_restricted_exposition), WSGI = ASGI = MetricsHandler on every GET '
         '(frontends_agree, wsgi_asgi_agree), OPTIONS/405 without collecting. Literals, comparison operators and per-front-end parameter extraction are '
         're-extracted from exposition.py/asgi.py each run; the three real front-ends are driven in-process on ~3.5·10^3 requests (quick) with an independent oracle.',
    note='Trusted: Lean kernel; parse_qs, gzip (abstract injective function), urlparse(path+?+q).query == q and latin-1 decode laws (re-checked per case); '
         'wsgiref/http.server/ASGI servers themselves are outside the model; repeated Accept field lines are out of scope (documented).',
    ref='DESIGN.md 5 C17')
CLAIMED['C18'] = dict(
    text='The effect skeleton of write_to_textfile (open tmp, generate, encode, write pieces, close, rename; handler: caught class, remove tmp, re-raise; '
         'tmp name parts) is re-extracted from the AST each run and interpreted by the model. Theorems for all registries, all write splits/flush choices, '
         'all fault positions and exception classes, all crash prefixes and all interleavings of two writers: target is always old or complete new '
         '(target_always_old_or_new, crash_leaves_target_intact, two_writers_never_partial), a raising call leaves target = old, no tmp, same exception '
         '(failure_is_clean), success installs new, distinct (pid,tid) give distinct tmp names (tmp_names_distinct), two writers each complete. The real '
         'function is run with every single fault at every I/O step and collector, a reader snapshot at every cut, and all 924 interleavings of two real threads.',
    note='Trusted: Lean kernel; rename(2) atomicity and buffered-writer behaviour (modelled both flush-at-write and flush-at-close); single-fault model; '
         'BaseException that is not an Exception (KeyboardInterrupt from a collector) leaves tmp behind — outside the stated fault classes, proved as a documented limit.',
    ref='DESIGN.md 5 C18')

PENDING_REASON = 'not claimed yet: model/theorems for this property are not built at this commit (work order in DESIGN.md 8); no other technique is substituted'


def main():
    props = [json.loads(l) for l in open(os.path.join(VERIF, 'properties.jsonl'))]
    checks, na = [], []
    for p in props:
        pid = p['id']
        if pid in CLAIMED:
            c = CLAIMED[pid]
            checks.append({
                'property_id': pid,
                'quick_cmd': 'harness/check.py %s --tier quick' % pid,
                'thorough_cmd': 'harness/check.py %s --tier thorough' % pid,
                'evidence_file': 'evidence/%s.json' % pid,
                'replay_cmd_template': 'harness/check.py %s --replay {path}' % pid,
                'engine': 'lean-proof',
                'level_claimed': {'category': 'proof', 'text': c['text'], 'design_ref': c['ref']},
                'level_note': c['note'],
                'technique': c.get('technique', TECH),
            })
        else:
            na.append({'property_id': pid, 'reason': NA.get(pid, PENDING_REASON)})
    m = {
        'version': 1,
        'setup_cmd': '/venv/bin/python extract/extract.py && cd lean && lake build',
        'hooks': {
            'guard': 'PROMETHEUS_CLIENT_PYTHON_VERIF',
            'enable': 'no hook is compiled into /repo; checks import /repo\'s working tree in-process and patch module attributes from the harness side (the variable is set by check.py for uniformity only)',
            'baseline_off_cmd': 'cd /repo && env -u PROMETHEUS_CLIENT_PYTHON_VERIF /venv/bin/python -m pytest -ra -q -p no:cacheprovider --timeout=900 --continue-on-collection-errors',
            'source_commits': [],
            'add_only': True,
        },
        'engines': [{
            'name': 'lean-proof', 'path': 'lean/', 'serves_properties': sorted(CLAIMED),
            'kind_free_text': 'Lake project PromVerif (Lean 4.33, no Mathlib): Model/, Spec/, Lemmas/, Props/Cxx.lean theorems; Generated/ re-extracted from /repo by extract/extract.py; native driver pvdriver for the correspondence check; harness/check.py orchestrates',
        }],
        'checks': checks,
        'notes': 'Every check: T1 extraction -> lake build of the property theorems + #print axioms audit -> T2 correspondence and property oracle on the real code -> verdict. known_findings.json lists recorded/fixed defects. See DESIGN.md.',
        'not_applicable': na,
    }
    with open(os.path.join(VERIF, 'MANIFEST.json'), 'w') as f:
        json.dump(m, f, indent=1)
    print('MANIFEST.json: %d checks, %d not claimed' % (len(checks), len(na)))

NA = {}

if __name__ == '__main__':
    main()
