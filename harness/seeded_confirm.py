#!/usr/bin/env python3
"""Confirm every seeded change in /verif/seeded/<id>/ in a scratch worktree of /repo's HEAD (never in /repo itself):
  demo passes without the patch; the patch applies; the pinned test-suite still passes with it; the demo fails with it.
Writes the outcome into each meta.json under "confirmed" and prints a table.  usage: seeded_confirm.py [id-prefix …] [-j N]
"""
import json
import os
import subprocess
import sys
from concurrent.futures import ThreadPoolExecutor

VERIF = os.path.dirname(os.path.dirname(os.path.abspath(__file__)))


def sh(cmd, timeout=900):
    try:
        p = subprocess.run(cmd, shell=True, stdout=subprocess.PIPE, stderr=subprocess.STDOUT, text=True, timeout=timeout)
        return p.returncode, p.stdout
    except subprocess.TimeoutExpired:
        return 124, 'TIMEOUT'


def confirm(name, slot):
    d = os.path.join(VERIF, 'seeded', name)
    wt = '/tmp/pv-confirm-%d' % slot
    res = {}
    sh('git -C /repo worktree remove --force %s' % wt)
    rc, out = sh('git -C /repo worktree add -q --detach %s HEAD' % wt)
    if rc:
        return name, {'error': 'worktree: ' + out[-200:]}
    try:
        head = sh('git -C /repo rev-parse --short HEAD')[1].strip()
        res['base'] = head
        rc, out = sh('/venv/bin/python %s/demo.py %s' % (d, wt), 300)
        res['demo_without_patch'] = 'PASS' if rc == 0 else 'rc=%d %s' % (rc, out.strip()[-200:])
        rc, out = sh('git -C %s apply %s/patch.diff' % (wt, d))
        if rc:
            rc3, out3 = sh('git -C %s apply -3 %s/patch.diff' % (wt, d))
            if rc3:
                res['applies'] = False
                res['apply_error'] = out.strip()[-200:]
                return name, res
        res['applies'] = True
        rc, out = sh('cd %s && /venv/bin/python -m pytest -q -p no:cacheprovider tests 2>&1 | tail -1' % wt, 900)
        res['tests_with_patch'] = out.strip()
        rc, out = sh('/venv/bin/python %s/demo.py %s' % (d, wt), 300)
        res['demo_with_patch'] = 'FAIL: ' + out.strip().split('\n')[-1][-200:] if rc == 1 else 'rc=%d %s' % (rc, out.strip()[-200:])
        res['ok'] = (res['demo_without_patch'] == 'PASS' and rc == 1 and '320 passed' in res['tests_with_patch'])
        return name, res
    finally:
        sh('git -C /repo worktree remove --force %s' % wt)


def main(argv):
    want = [a for a in argv[1:] if not a.startswith('-')]
    j = 4
    if '-j' in argv:
        j = int(argv[argv.index('-j') + 1]); want = [w for w in want if w != str(j)]
    names = sorted(n for n in os.listdir(os.path.join(VERIF, 'seeded'))
                   if os.path.isdir(os.path.join(VERIF, 'seeded', n)) and (not want or any(n.startswith(w) for w in want)))
    slots = list(range(j))
    import queue
    q = queue.Queue()
    for s in slots:
        q.put(s)

    def work(n):
        s = q.get()
        try:
            return confirm(n, s)
        finally:
            q.put(s)
    with ThreadPoolExecutor(j) as ex:
        for name, res in ex.map(work, names):
            mp = os.path.join(VERIF, 'seeded', name, 'meta.json')
            meta = json.load(open(mp))
            meta['confirmed'] = res
            json.dump(meta, open(mp, 'w'), indent=1)
            print('%-8s %s  %s' % (name, 'OK ' if res.get('ok') else 'BAD', {k: v for k, v in res.items() if k != 'ok'}))


if __name__ == '__main__':
    main(sys.argv)
