"""Deterministic bytecode-level thread scheduler (T2 harness engine, property C02).

Runs REAL Python threads on the REAL prometheus_client code ONE BYTECODE AT A TIME: exactly one worker thread runs at any
moment, and it hands control back to the scheduler (the thread that called Engine.run) before every bytecode instruction of
every frame whose code lives under REPO/prometheus_client/.  Code outside the library (harness code, stdlib, C code, user
collectors defined in the harness) is not stepped: it runs atomically as part of the current step.  The library's
`threading.Lock` objects are replaced by the instrumented `SLock`, so blocking is visible to the scheduler and deadlock is
detected instead of hanging the process.

Quick reference
    with patched_locks():                  # BEFORE the objects under test are built (also resets SLock ids)
        world = build()
        res = Engine().run([thunk0, thunk1], PreemptPolicy([]))
        final = observe(world)             # still inside the patch is fine: main-thread acquires are uncontended

    ex = explore(run_once, nthreads=2, bound=2)      # run_once(policy) -> RunResult, must build a FRESH world each call
    ex = explore(run_once, 2, 2, point_filter=f)     # f(RunResult.where[s]) -> bool: pre-empt only where the pending bytecode of
                                                     # the running worker matters ((code object, bytecode offset) | 'lock' | 'explicit' | None)
    for preemptions, res in ex: ...
    ex.complete, ex.runs, ex.completed_bound, ex.stop_reason, ex.nondeterministic

What a "step" is
    Step k = "release worker choices[k][0] and wait until it reaches its next yield point (or finishes)".  Yield points:
      * before every bytecode of a library frame (sys.settrace 'opcode' event; the instruction has NOT executed yet),
      * inside SLock.acquire, once BEFORE the attempt and once per parking,
      * explicit Engine.yield_point() / module-level yield_point() calls from harness code running inside a worker.
    The first step of a worker runs its harness prelude up to (not including) the first library bytecode.

Interpreter notes (CPython 3.12): sys.settrace + frame.f_trace_opcodes works, but the interpreter-wide "some frame asked for
opcode events" flag is only honoured by sys.settrace calls made AFTER the flag was first set; without the warm-up done at
import of this module the very first traced thread of a process would get no 'opcode' events.  _probe() checks this.

Who runs the scheduler loop: the loop body (runnable set, deadlock / budget test, policy.choose, bookkeeping) is evaluated by
whichever thread holds the baton - see class _Run - so a real thread switch happens only when the schedule switches workers
(about 5 us per step instead of about 100 us).  Consequence: policy.choose is called on worker threads, possibly from inside
the trace callback; it must be plain harness code (no library calls, no SLock, no blocking).

Wall-clock time is used only (a) as a watchdog for a worker that blocks in C (RunResult.hung) and (b) for explore()'s
budget; neither influences the schedule of a run that terminates normally.
"""
import _thread
import collections
import contextlib
import os
import sys
import threading
import time

# ----------------------------------------------------------------------------------------------- paths
try:
    import lib as _lib
    REPO = _lib.REPO
except Exception:  # not inside the harness (lib missing / not importable)
    REPO = os.environ.get('VERIF_REPO', '/repo')
REPO = os.path.abspath(REPO)
LIBDIR = os.path.join(REPO, 'prometheus_client')
_PREFIXES = tuple(sorted({os.path.abspath(LIBDIR) + os.sep, os.path.realpath(LIBDIR) + os.sep}))
if REPO not in sys.path:
    sys.path.insert(0, REPO)

# real primitives, captured at import time (the library's Lock gets patched, these never are)
_alloc = _thread.allocate_lock
_Thread = threading.Thread
_monotonic = time.monotonic

_tls = threading.local()          # .ctx = (run, tid) inside a worker thread of a live run, else missing/None
_file_is_lib = {}                 # co_filename -> bool


def _is_lib_file(fn):
    r = _file_is_lib.get(fn)
    if r is None:
        r = fn.startswith(_PREFIXES)
        if not r and not fn.startswith('<'):
            try:
                r = (os.path.realpath(fn)).startswith(_PREFIXES)
            except Exception:
                r = False
        _file_is_lib[fn] = r
    return r


def _warm_opcode_tracing():
    """CPython 3.12: make later sys.settrace calls subscribe to per-instruction events (see module docstring)."""
    f = sys._getframe()
    f.f_trace_opcodes = True
    f.f_trace_opcodes = False


_warm_opcode_tracing()


def _probe():
    """One-off check (in a throw-away thread, so the importing thread is never traced) that 'opcode' events arrive."""
    seen = []

    def target(a=1, b=2):
        c = a + b
        return c * a

    def loc(frame, event, arg):
        if event == 'opcode':
            seen.append(frame.f_lasti)
        return loc

    def glob(frame, event, arg):
        if frame.f_code is target.__code__:
            frame.f_trace_opcodes = True
            frame.f_trace_lines = False
            return loc
        return None

    def body():
        sys.settrace(glob)
        try:
            target()
        finally:
            sys.settrace(None)

    t = _Thread(target=body, daemon=True)
    t.start()
    t.join(10)
    if len(seen) < 2:
        raise RuntimeError('sched: this interpreter (%s) delivers no per-opcode trace events' % sys.version.split()[0])


_probe()


# ----------------------------------------------------------------------------------------------- instrumented lock
_lock_counter = 0


def reset_lock_ids():
    """Restart SLock numbering at 0 (call before building a fresh world; patched_locks() does it by default)."""
    global _lock_counter
    _lock_counter = 0


class SLock:
    """Scheduler-aware, non-re-entrant replacement of threading.Lock.

    Inside a worker of a running engine: acquire() is a yield point before the attempt; if the lock is owned the worker parks
    (run.waiting[tid] = self) and the scheduler does not pick it again until the lock is free; if nobody can be picked the
    run ends with deadlock=True.  Outside a run (main thread building / observing the world): uncontended lock, owner 'main';
    a blocking acquire of an owned lock raises RuntimeError instead of hanging.
    acquire(blocking=False) and acquire(timeout>=0) are both modelled as a single try (after the yield point).
    """
    __slots__ = ('id', 'name', 'owner')

    def __init__(self, name=None):
        global _lock_counter
        self.id = _lock_counter
        _lock_counter += 1
        self.name = name
        self.owner = None

    def acquire(self, blocking=True, timeout=-1):
        ctx = getattr(_tls, 'ctx', None)
        once = (not blocking) or (timeout is not None and timeout >= 0)
        if ctx is None:
            if self.owner is None:
                self.owner = 'main'
                return True
            if once:
                return False
            raise RuntimeError('SLock: would block outside the scheduler')
        run, tid = ctx
        run.loc[tid] = 'lock'
        run._yield(tid)                                   # a pre-emption can fall right before the acquisition
        if once:
            if self.owner is None:
                self.owner = tid
                run.events.append(('acq', tid, self.id))
                return True
            run.events.append(('tryfail', tid, self.id))
            return False
        while True:
            if self.owner is None:
                self.owner = tid
                run.waiting[tid] = None
                run.events.append(('acq', tid, self.id))
                return True
            if run.waiting[tid] is not self:
                run.waiting[tid] = self
                run.events.append(('park', tid, self.id))
            run._yield(tid)                               # not picked again while self.owner is not None

    def release(self):
        if self.owner is None:
            raise RuntimeError('release unlocked lock')
        self.owner = None
        ctx = getattr(_tls, 'ctx', None)
        if ctx is not None:
            ctx[0].events.append(('rel', ctx[1], self.id))

    def locked(self):
        return self.owner is not None

    def __enter__(self):
        self.acquire()
        return True

    def __exit__(self, *exc):
        self.release()
        return False

    def __repr__(self):
        return '<SLock #%d%s owner=%r>' % (self.id, '' if self.name is None else ' ' + str(self.name), self.owner)


_PATCH_MODULES = ('prometheus_client.values', 'prometheus_client.metrics', 'prometheus_client.registry')


@contextlib.contextmanager
def patched_locks(engine=None, reset_ids=True):
    """Replace `Lock` in prometheus_client.{values,metrics,registry} by SLock; restore on exit.

    `engine` is accepted for symmetry and ignored (an SLock finds its run through the calling thread).  Objects built before
    the patch (e.g. the module-global prometheus_client.REGISTRY, values.ValueClass closures made at import) keep their real
    locks: a worker that blocks on one of those blocks in C and the run ends as hung.  Build everything under test inside.
    """
    import importlib
    mods = [importlib.import_module(m) for m in _PATCH_MODULES]
    for m in mods:
        if not _is_lib_file(getattr(m, '__file__', '') or ''):
            raise RuntimeError('sched: %s was imported from %r, not from %s' % (m.__name__, getattr(m, '__file__', None), LIBDIR))
    saved = [m.Lock for m in mods]
    if reset_ids:
        reset_lock_ids()
    for m in mods:
        m.Lock = SLock
    try:
        yield SLock
    finally:
        for m, s in zip(mods, saved):
            m.Lock = s


# ----------------------------------------------------------------------------------------------- engine
class RunResult:
    """Outcome of one Engine.run.  See the attribute list in __init__."""

    def __init__(self, n):
        self.done = [False] * n          # per worker: program ran to its end (normally or by exception)
        self.exc = [None] * n            # exception that escaped the worker's callable
        self.results = [None] * n        # return value of the worker's callable
        self.deadlock = False            # every unfinished worker is parked on an owned lock
        self.stalled = False             # step budget exhausted or a worker hung: infrastructure problem, not a deadlock
        self.hung = False                # (implies stalled) a worker did not come back within step_timeout seconds
        self.steps = 0
        self.trace = []                  # [(tid, consecutive steps)]
        self.choices = []                # per step (tid chosen, runnable tids)
        self.where = []                  # per step: where the PREVIOUSLY running worker is paused ((code object, offset of the
                                         # pending bytecode) of the library frame | 'lock' | 'explicit' | None): the point a
                                         # pre-emption at this step falls on
        self.events = []                 # ('acq'|'rel'|'park'|'tryfail', tid, lockid) in order
        self.parked = [None] * n         # at the end of the run: id of the lock each worker is parked on (deadlock report)

    @property
    def ok(self):
        return all(self.done) and not self.deadlock and not self.stalled and not any(e is not None for e in self.exc)

    def schedule(self):
        """Flat list of chosen tids, one per step."""
        return [c[0] for c in self.choices]

    def __repr__(self):
        return ('RunResult(steps=%d, done=%r, deadlock=%r, stalled=%r, exc=%r, trace=%r)'
                % (self.steps, self.done, self.deadlock, self.stalled, self.exc, self.trace))


class _Run:
    """State of ONE run.  Abandoned workers (deadlock / stall / hang) stay blocked on sems[tid] of their own _Run for ever.

    Baton passing: exactly one thread (the scheduler thread before the first step, afterwards the worker that is executing
    the current step) holds the baton.  At a yield point the baton holder itself evaluates the scheduler loop body
    (_dispatch: runnable set, deadlock / budget check, policy.choose, bookkeeping).  If the policy picks the same worker it
    just keeps running - no thread switch; otherwise it releases the chosen worker's semaphore and blocks on its own.  When
    the run is over the holder releases `back`, on which the thread that called Engine.run is waiting.  The decisions are
    exactly those of a central loop `pick tid -> sem[tid].release(); back.acquire()`, at a fraction of the cost.
    """
    __slots__ = ('sems', 'back', 'waiting', 'events', 'res', 'n', 'policy', 'max_steps', 'current', 'rle', 'over', 'error', 'loc')

    def __init__(self, n, policy, max_steps):
        self.n = n
        self.policy = policy
        self.max_steps = max_steps
        self.sems = [_alloc() for _ in range(n)]      # raw locks used as binary semaphores (hand-off strictly alternates)
        for s in self.sems:
            s.acquire()
        self.back = _alloc()
        self.back.acquire()
        self.waiting = [None] * n
        self.loc = [None] * n             # where each worker is paused: (code, offset) | 'lock' | 'explicit' | None (not started)
        self.res = RunResult(n)
        self.events = self.res.events
        self.current = None
        self.rle = []
        self.over = False
        self.error = None

    def _dispatch(self):
        """One iteration of the scheduler loop, executed by the baton holder.  Returns the tid to run next or None when the
        run is over.  Never raises (it may run inside a trace callback): a policy error is stored in self.error."""
        res = self.res
        if self.over:
            return None
        try:
            done, waiting = res.done, self.waiting
            runnable = tuple([t for t in range(self.n)
                              if not done[t] and (waiting[t] is None or waiting[t].owner is None)])
            if not runnable:
                res.deadlock = not all(done)
                self.over = True
                return None
            if res.steps >= self.max_steps:
                res.stalled = True
                self.over = True
                return None
            tid = self.policy.choose(res.steps, self.current, runnable)
            if tid not in runnable:
                raise ValueError('sched: policy chose %r, runnable %r (step %d)' % (tid, runnable, res.steps))
            res.choices.append((tid, runnable))
            res.where.append(None if self.current is None else self.loc[self.current])
            rle = self.rle
            if rle and rle[-1][0] == tid:
                rle[-1][1] += 1
            else:
                rle.append([tid, 1])
            res.steps += 1
            self.current = tid
            return tid
        except BaseException as e:
            self.error = e
            self.over = True
            return None

    def _yield(self, me):
        """Yield point of worker `me` (which holds the baton)."""
        nxt = self._dispatch()
        if nxt == me:
            return
        if nxt is None:
            self.back.release()            # run over: wake the scheduler thread, stay blocked for ever (abandoned)
        else:
            self.sems[nxt].release()
        self.sems[me].acquire()

    def _finish(self, me):
        """Worker `me` has ended its program; pass the baton on."""
        self.res.done[me] = True
        nxt = self._dispatch()
        if nxt is None:
            self.back.release()
        else:
            self.sems[nxt].release()


def _worker_main(run, tid, thunk):
    res = run.res
    run.sems[tid].acquire()            # wait to be scheduled for the first time
    _tls.ctx = (run, tid)
    yield_ = run._yield

    loc = run.loc

    def local(frame, event, arg):
        if event == 'opcode':
            loc[tid] = (frame.f_code, frame.f_lasti)
            yield_(tid)
        return local

    def glob(frame, event, arg):       # 'call' of every new frame, and of every generator resumption
        if _is_lib_file(frame.f_code.co_filename):
            frame.f_trace_opcodes = True
            frame.f_trace_lines = False
            return local
        return None

    try:
        sys.settrace(glob)
        try:
            res.results[tid] = thunk()
        finally:
            sys.settrace(None)
    except BaseException as e:         # captured, never printed
        res.exc[tid] = e
    finally:
        _tls.ctx = None
        run._finish(tid)


class Engine:
    """run() may be called repeatedly (sequentially); every run has its own state object.

    max_steps    step budget of a run (RunResult.stalled when exhausted)
    run_timeout  wall-clock watchdog in seconds for the whole run: only trips when a worker blocks in C (a real lock that
                 was not patched) or loops in unstepped code; result: stalled = hung = True
    """

    def __init__(self, max_steps=20000, run_timeout=60.0):
        self.max_steps = max_steps
        self.run_timeout = run_timeout

    def run(self, thunks, policy):
        if getattr(_tls, 'ctx', None) is not None:
            raise RuntimeError('sched: nested Engine.run')
        n = len(thunks)
        run = _Run(n, policy, self.max_steps)
        res = run.res
        threads = [_Thread(target=_worker_main, args=(run, i, th), name='sched-w%d' % i, daemon=True)
                   for i, th in enumerate(thunks)]
        for t in threads:
            t.start()
        try:
            first = run._dispatch()
            if first is not None:
                run.sems[first].release()
                if not run.back.acquire(timeout=self.run_timeout):
                    run.over = True
                    res.stalled = res.hung = True
        except BaseException:              # e.g. KeyboardInterrupt: stop the workers at their next yield point
            run.over = True
            raise
        res.trace = [(a, b) for a, b in run.rle]
        res.parked = [None if w is None else w.id for w in run.waiting]
        if run.error is not None:
            raise run.error
        if not res.hung:
            for i, t in enumerate(threads):
                if res.done[i]:
                    t.join()
        return res

    @staticmethod
    def yield_point():
        """Explicit scheduling point for harness code running inside a worker; no-op anywhere else."""
        ctx = getattr(_tls, 'ctx', None)
        if ctx is not None:
            ctx[0].loc[ctx[1]] = 'explicit'
            ctx[0]._yield(ctx[1])

    @staticmethod
    def current_worker():
        ctx = getattr(_tls, 'ctx', None)
        return None if ctx is None else ctx[1]


yield_point = Engine.yield_point
current_worker = Engine.current_worker


# ----------------------------------------------------------------------------------------------- policies
def _nonpreemptive(current, runnable):
    return current if current in runnable else runnable[0]       # runnable is ascending


class PreemptPolicy:
    """Non-preemptive (keep running `current` while runnable, else lowest runnable = free switch) except at the listed
    (step_index, tid) points, where it switches to tid.  An entry whose tid is not runnable or equals the default choice is
    ignored and recorded in self.ignored; the others in self.applied."""

    def __init__(self, preemptions=()):
        self.preemptions = [tuple(p) for p in preemptions]
        self._at = dict(self.preemptions)
        self.applied = []
        self.ignored = []

    def choose(self, step, current, runnable):
        d = _nonpreemptive(current, runnable)
        t = self._at.get(step)
        if t is not None:
            if t in runnable and t != current:
                self.applied.append((step, t))
                return t
            self.ignored.append((step, t))
        return d


class ReplayPolicy:
    """Follow a run-length-encoded schedule [(tid, n), ...] (RunResult.trace); if the demanded tid is not runnable take the
    lowest runnable and set self.diverged (self.diverged_at = step).  Afterwards continue with `then`: 'nonpreemptive' or a
    policy object."""

    def __init__(self, segments, then='nonpreemptive'):
        self.flat = [t for t, k in segments for _ in range(k)]
        self.then = then
        self.diverged = False
        self.diverged_at = None
        self.overrun = False           # the run needed more steps than the schedule had

    def choose(self, step, current, runnable):
        if step < len(self.flat):
            t = self.flat[step]
            if t in runnable:
                return t
            if not self.diverged:
                self.diverged = True
                self.diverged_at = step
            return runnable[0]
        self.overrun = True
        if self.then == 'nonpreemptive':
            return _nonpreemptive(current, runnable)
        return self.then.choose(step, current, runnable)


class RandomPolicy:
    """With probability switch_prob (and whenever `current` cannot run) switch to a uniformly chosen other runnable worker."""

    def __init__(self, rng, switch_prob=0.2):
        self.rng = rng
        self.switch_prob = switch_prob

    def choose(self, step, current, runnable):
        if current in runnable:
            if len(runnable) == 1 or self.rng.random() >= self.switch_prob:
                return current
            others = [t for t in runnable if t != current]
            return others[self.rng.randrange(len(others))]
        return runnable[self.rng.randrange(len(runnable))]


# ----------------------------------------------------------------------------------------------- exploration
class Exploration:
    """Iterator returned by explore(); yields (preemption_list, RunResult).  Attributes (final once iteration has ended):
        runs              number of runs executed
        complete          True iff every schedule within the bound was executed (False: budget_s / max_runs hit, or the
                          consumer stopped iterating); None while still iterating
        stop_reason       None | 'budget_s' | 'max_runs'
        completed_bound   largest b such that ALL schedules with <= b pre-emptions were executed (-1 if none)
        pending           number of schedules generated but not executed
        elapsed           seconds
        nondeterministic  [(preemption_list, reason)]: runs whose prefix differed from the parent run's, or in which the new
                          pre-emption could not be applied - must stay empty if world + engine are deterministic
    """

    def __init__(self, run_once, nthreads, bound, budget_s=None, max_runs=None, free_switches=False, point_filter=None):
        self.point_filter = point_filter
        self.run_once, self.nthreads, self.bound = run_once, nthreads, bound
        self.budget_s, self.max_runs, self.free_switches = budget_s, max_runs, free_switches
        self.runs = 0
        self.complete = None
        self.stop_reason = None
        self.completed_bound = -1
        self.pending = 0
        self.elapsed = 0.0
        self.nondeterministic = []
        self.total_steps = 0
        self._it = self._gen()

    def __iter__(self):
        return self

    def __next__(self):
        return next(self._it)

    def _gen(self):
        bound = self.bound
        queues = [collections.deque() for _ in range(bound + 1)]      # by number of genuine pre-emptions (breadth first)
        queues[0].append(((), None))
        t0 = _monotonic()
        level = 0
        while True:
            while level <= bound and not queues[level]:
                self.completed_bound = level
                level += 1
            if level > bound:
                self.complete = True
                break
            self.elapsed = _monotonic() - t0
            if self.max_runs is not None and self.runs >= self.max_runs:
                self.stop_reason = 'max_runs'
            elif self.budget_s is not None and self.elapsed > self.budget_s:
                self.stop_reason = 'budget_s'
            if self.stop_reason:
                self.complete = False
                break
            P, expect = queues[level].popleft()
            res = self.run_once(PreemptPolicy(P))
            self.runs += 1
            self.total_steps += res.steps
            if len(res.done) != self.nthreads:
                raise ValueError('explore: run_once ran %d workers, expected %d' % (len(res.done), self.nthreads))
            last = P[-1][0] if P else -1
            ch = res.choices
            good = True
            if expect is not None:
                s, t = P[-1]
                if len(ch) <= s or ch[s][0] != t:
                    good = False
                    self.nondeterministic.append((list(P), 'pre-emption %r not applied' % ((s, t),)))
                elif _prefix_hashes(ch, s)[s] != expect:
                    good = False
                    self.nondeterministic.append((list(P), 'prefix before step %d differs from the parent run' % s))
            if good and not res.stalled:
                hashes = _prefix_hashes(ch, len(ch))
                for s in range(last + 1, len(ch)):
                    chosen, runnable = ch[s]
                    if len(runnable) > 1:
                        prev = ch[s - 1][0] if s > 0 else None
                        genuine = prev is not None and prev in runnable
                        if genuine:
                            if self.point_filter is not None and not self.point_filter(res.where[s]):
                                continue          # the pending bytecode is thread-local work: pre-empting here is equivalent
                                                  # to pre-empting at the thread's next relevant point
                            lvl = level + 1
                        elif self.free_switches:
                            lvl = level
                        else:
                            continue
                        if lvl > bound:
                            continue
                        for t in runnable:
                            if t != chosen:
                                queues[lvl].append((P + ((s, t),), hashes[s]))
            self.pending = sum(len(q) for q in queues)
            self.elapsed = _monotonic() - t0
            yield list(P), res
        self.pending = sum(len(q) for q in queues)
        self.elapsed = _monotonic() - t0


def _prefix_hashes(choices, upto):
    """H[s] = rolling hash of choices[:s] for s <= upto (ints and tuples of ints only: not randomised by PYTHONHASHSEED)."""
    h = 0
    out = [h]
    for i in range(upto):
        h = hash((h, choices[i]))
        out.append(h)
    return out


def explore(run_once, nthreads, bound, budget_s=None, max_runs=None, free_switches=False, point_filter=None):
    """Iterate over ALL schedules with at most `bound` pre-emptions (iterative context bounding, breadth first in the number
    of pre-emptions).  run_once(policy) -> RunResult must build a FRESH world and run it under the given policy.

    Starts with the pre-emption list []; from each finished run with list P (last pre-emption at step p, or -1), for every
    step s > p of that run's `choices` at which the previously running worker was still runnable (a genuine pre-emption) and
    every runnable t != the tid actually chosen at s, schedules P+[(s,t)] if len(P) < bound.
    free_switches=True additionally explores, at no cost against the bound, the other choices at points where the previous
    worker could NOT continue (finished / parked / step 0) - the default always takes the lowest tid there.

    point_filter(where) -> bool restricts genuine pre-emptions to steps whose RunResult.where entry passes the filter.

    Returns an Exploration (iterator of (preemption_list, RunResult)); early stop is reported by its .complete == False and
    .stop_reason - see class Exploration.
    """
    return Exploration(run_once, nthreads, bound, budget_s, max_runs, free_switches, point_filter)


# ----------------------------------------------------------------------------------------------- self-test
def _selftest_mutex(label, bound):
    """(a)/(b): two workers inc(1) on one MutexValue.  Returns (exploration, list of (P, res, final))."""
    from prometheus_client import values
    eng = Engine()

    def run_once(policy):
        with patched_locks():
            v = values.MutexValue('counter', 'c', 'c_total', (), (), 'h')
            res = eng.run([lambda: v.inc(1), lambda: v.inc(1)], policy)
            res.final = v.get() if not (res.deadlock or res.stalled) else None
        return res

    ex = explore(run_once, 2, bound)
    out = []
    for P, res in ex:
        out.append((P, res, res.final))
    return ex, out, run_once


def _report(label, ex, runs):
    steps = [r.steps for _, r, _ in runs]
    print('  %s: runs=%d complete=%r steps/run min=%d max=%d avg=%.1f  %.0f runs/s (%.2f ms/run)'
          % (label, ex.runs, ex.complete, min(steps), max(steps), sum(steps) / len(steps),
             ex.runs / ex.elapsed, 1000 * ex.elapsed / ex.runs))
    assert ex.complete and not ex.nondeterministic, (ex.complete, ex.nondeterministic)


def _selftest_b_child():
    """Runs in a subprocess with VERIF_REPO pointing at a copy whose MutexValue.inc has no lock."""
    from prometheus_client import values
    assert _is_lib_file(values.__file__) and values.__file__.startswith(os.environ['VERIF_REPO']), values.__file__
    ex, runs, run_once = _selftest_mutex('b', 1)
    lost = [(P, r) for P, r, f in runs if f == 1.0]
    finals = sorted({f for _, _, f in runs})
    print('  b: REPO=%s runs=%d finals=%r lost-update schedules=%d of %d' % (REPO, ex.runs, finals, len(lost), ex.runs))
    assert lost, 'no lost update found on the unlocked copy'
    assert ex.complete and not ex.nondeterministic, ex.nondeterministic
    assert all(len(P) == 1 for P, _ in lost)
    assert not any(r.deadlock or r.stalled or any(r.exc) for _, r, _ in runs)
    P, r = lost[0]
    print('  b: first lost update: preemptions=%r trace=%r' % (P, r.trace))
    pol = ReplayPolicy(r.trace)
    r2 = run_once(pol)
    print('  b: replay of that trace: final=%r diverged=%r overrun=%r trace equal=%r'
          % (r2.final, pol.diverged, pol.overrun, r2.trace == r.trace))
    assert r2.final == 1.0 and not pol.diverged and not pol.overrun and r2.trace == r.trace
    # all lost updates replay
    for P, r in lost:
        assert run_once(ReplayPolicy(r.trace)).final == 1.0


def _selftest():
    import random
    import shutil
    import subprocess
    import tempfile
    t_all = _monotonic()
    print('sched self-test: python %s, REPO=%s' % (sys.version.split()[0], REPO))
    from prometheus_client import values, CollectorRegistry, Counter
    n_threads0 = threading.active_count()

    # ---- a. MutexValue, bound 2
    ex, runs, run_once = _selftest_mutex('a', 2)
    _report('a MutexValue 2x inc, bound=2', ex, runs)
    assert all(f == 2.0 for _, _, f in runs), sorted({f for _, _, f in runs})
    assert all(r.ok for _, r, _ in runs)
    acq_orders = sorted({tuple(e[1] for e in r.events if e[0] == 'acq') for _, r, _ in runs})
    print('     lock acquisition orders seen: %r; runs with a park: %d'
          % (acq_orders, sum(1 for _, r, _ in runs if any(e[0] == 'park' for e in r.events))))
    assert acq_orders == [(0, 1), (1, 0)]

    # ---- f. determinism (same world, same policy, same trace) + replay
    for P in ([], [(5, 1)], [(7, 1), (12, 0)]):
        r1, r2 = run_once(PreemptPolicy(P)), run_once(PreemptPolicy(P))
        assert r1.trace == r2.trace and r1.choices == r2.choices and r1.events == r2.events, (P, r1.trace, r2.trace)
        r3 = run_once(ReplayPolicy(r1.trace))
        assert r3.trace == r1.trace and r3.events == r1.events
    ra = [run_once(RandomPolicy(random.Random(7), 0.3)).trace for _ in range(3)]
    assert ra[0] == ra[1] == ra[2]
    print('  f determinism: PreemptPolicy x2, ReplayPolicy, RandomPolicy(seed) give identical traces; e.g. %r' % (ra[0],))
    assert threading.active_count() == n_threads0, 'worker threads leaked'
    assert sys.gettrace() is None and threading.gettrace() is None

    # ---- perf: single non-preemptive run
    k = 300
    t0 = _monotonic()
    for _ in range(k):
        r = run_once(PreemptPolicy([]))
    dt = _monotonic() - t0
    print('  perf: non-preemptive run of (a) (%d steps, incl. world build + 2 threads): %.2f ms/run, %.0f runs/s'
          % (r.steps, 1000 * dt / k, k / dt))

    # ---- b. lost update on a copy without the lock (subprocess)
    scratch = '/tmp/pv-sched-test'
    shutil.rmtree(scratch, ignore_errors=True)
    try:
        shutil.copytree(REPO, scratch, ignore=shutil.ignore_patterns('.git', '__pycache__', '*.pyc'))
        vp = os.path.join(scratch, 'prometheus_client', 'values.py')
        src = open(vp).read()
        old = '    def inc(self, amount):\n        with self._lock:\n            self._value += amount\n'
        new = '    def inc(self, amount):\n        self._value += amount\n'
        assert src.count(old) == 1
        open(vp, 'w').write(src.replace(old, new))
        env = dict(os.environ, VERIF_REPO=scratch, PYTHONDONTWRITEBYTECODE='1')
        p = subprocess.run([sys.executable, os.path.abspath(__file__), '--selftest-b'], env=env, cwd=os.path.dirname(os.path.abspath(__file__)),
                           stdout=subprocess.PIPE, stderr=subprocess.STDOUT, text=True, timeout=50)
        sys.stdout.write(p.stdout)
        assert p.returncode == 0, 'self-test b failed (rc=%d)' % p.returncode
    finally:
        shutil.rmtree(scratch, ignore_errors=True)

    # ---- c. deadlock detection
    eng = Engine()

    def run_ab(policy):
        reset_lock_ids()
        A, B = SLock('A'), SLock('B')

        def w0():
            with A:
                eng.yield_point()
                with B:
                    pass

        def w1():
            with B:
                eng.yield_point()
                with A:
                    pass
        return eng.run([w0, w1], policy)

    ex = explore(run_ab, 2, 1)
    runs = list(ex)
    dl = [(P, r) for P, r in runs if r.deadlock]
    assert ex.complete and not ex.nondeterministic
    assert runs[0][0] == [] and not runs[0][1].deadlock and runs[0][1].ok
    assert dl, 'AB/BA deadlock not found'
    P, r = dl[0]
    assert r.done == [False, False] and sorted(r.parked) == [0, 1] and not r.stalled
    print('  c AB/BA: runs=%d deadlocks=%d; non-preemptive run ok; first deadlock: preemptions=%r trace=%r parked-on=%r'
          % (ex.runs, len(dl), P, r.trace, r.parked))
    r2 = run_ab(ReplayPolicy(r.trace))
    assert r2.deadlock and r2.trace == r.trace and r2.events == r.events

    def run_self(policy):
        A = SLock('A')

        def w0():
            with A:
                with A:
                    pass
            return 'unreachable'
        return eng.run([w0, lambda: 'fine'], policy)
    r = run_self(PreemptPolicy([]))
    assert r.deadlock and r.done == [False, True] and r.results[1] == 'fine' and r.parked[0] is not None
    print('  c self-re-acquire: deadlock=%r done=%r events=%r' % (r.deadlock, r.done, r.events))
    # exception inside a held lock is captured and the lock released; exception object is returned, nothing printed
    L = SLock('L')

    def boom():
        with L:
            raise KeyError('boom')
    r = eng.run([boom, lambda: L.acquire() and L.release()], PreemptPolicy([(1, 1)]))
    assert isinstance(r.exc[0], KeyError) and r.exc[1] is None and r.done == [True, True] and not L.locked()
    # main-thread semantics
    assert L.acquire() and L.owner == 'main' and L.acquire(False) is False
    try:
        L.acquire()
        raise AssertionError('expected RuntimeError')
    except RuntimeError:
        pass
    L.release()
    try:
        L.release()
        raise AssertionError('expected RuntimeError')
    except RuntimeError:
        pass
    # max_steps -> stalled (not deadlock)
    def spin():
        while True:
            eng.yield_point()
    r = Engine(max_steps=50).run([spin], PreemptPolicy([]))
    assert r.stalled and not r.deadlock and r.steps == 50
    print('  c misc: exception in held lock captured, main-thread SLock semantics, max_steps -> stalled: ok')

    # ---- d. generator stepping: registry.collect() vs Counter.inc
    def run_d(policy):
        with patched_locks():
            reg = CollectorRegistry()
            c = Counter('c', 'h', registry=reg)

            def w0():
                return [(s.name, s.value) for m in reg.collect() for s in m.samples]
            res = eng.run([w0, lambda: c.inc(1)], policy)
            res.final = c._value.get() if res.ok else None
        return res
    ex = explore(run_d, 2, 1)
    runs = [(P, r, r.final) for P, r in ex]
    _report('d collect() vs inc, bound=1', ex, runs)
    seen = set()
    for P, r, f in runs:
        assert r.ok, (P, r)
        assert f == 1.0
        tot = [v for n, v in r.results[0] if n == 'c_total']
        assert len(tot) == 1 and tot[0] in (0.0, 1.0), r.results[0]
        seen.add(tot[0])
    assert seen == {0.0, 1.0}, seen
    # the generator frames really are stepped: worker 0 alone needs many steps
    r = run_d(PreemptPolicy([]))
    print('     collected c_total values seen: %r; steps of worker0/worker1 in the non-preemptive run: %r' % (sorted(seen), r.trace))

    # ---- e. mmap back-end
    base = tempfile.mkdtemp(prefix='pv-sched-mp-')
    saved_env = {k: os.environ.get(k) for k in ('PROMETHEUS_MULTIPROC_DIR', 'prometheus_multiproc_dir')}
    counter = [0]
    try:
        os.environ.pop('prometheus_multiproc_dir', None)

        def run_e(policy):
            counter[0] += 1
            d = os.path.join(base, 'r%d' % counter[0])
            os.mkdir(d)
            os.environ['PROMETHEUS_MULTIPROC_DIR'] = d
            with patched_locks():
                V = values.MultiProcessValue()
                v = V('counter', 'c', 'c_total', (), (), 'h')
                res = eng.run([lambda: v.inc(1), lambda: v.inc(1)], policy)
                res.final = v.get() if res.ok else None
                if res.ok:
                    res.on_disk = v._file.read_value(v._key)[0]
                    v._file.close()
            shutil.rmtree(d, ignore_errors=True)
            return res
        ex = explore(run_e, 2, 1)
        runs = [(P, r, r.final) for P, r in ex]
        _report('e MmapedValue 2x inc, bound=1', ex, runs)
        for P, r, f in runs:
            assert r.ok and f == 2.0 and r.on_disk == 2.0, (P, r, f)
        r1, r2 = run_e(PreemptPolicy([(40, 1)])), run_e(PreemptPolicy([(40, 1)]))
        assert r1.trace == r2.trace and r1.events == r2.events
        print('     all finals 2.0 (object and file); one closure lock id=%r; deterministic' % sorted({e[2] for e in r1.events}))
    finally:
        for k, val in saved_env.items():
            if val is None:
                os.environ.pop(k, None)
            else:
                os.environ[k] = val
        shutil.rmtree(base, ignore_errors=True)

    # ---- g. three workers, free switches, early stop, hang watchdog, policy errors
    def run_g(policy):
        with patched_locks():
            v = values.MutexValue('counter', 'c', 'c_total', (), (), 'h')
            res = eng.run([lambda: v.inc(1), lambda: v.inc(2), lambda: v.get()], policy)
            res.final = v.get() if res.ok else None
        return res
    ex = explore(run_g, 3, 1)
    runs = list(ex)
    ex2 = explore(run_g, 3, 1, free_switches=True)
    runs2 = list(ex2)
    for e_, rs in ((ex, runs), (ex2, runs2)):
        assert e_.complete and e_.completed_bound == 1 and not e_.nondeterministic
        assert all(r.ok and r.final == 3.0 and r.results[2] in (0.0, 1.0, 2.0, 3.0) for _, r in rs)
        assert len({tuple(r.schedule()) for _, r in rs}) == len(rs), 'duplicate schedules'
    assert {r.trace[0][0] for _, r in runs} == {0} and {r.trace[0][0] for _, r in runs2} == {0, 1, 2}
    ex3 = explore(run_g, 3, 2, max_runs=5)
    list(ex3)
    assert ex3.runs == 5 and ex3.complete is False and ex3.stop_reason == 'max_runs' and ex3.completed_bound == 0 and ex3.pending > 0
    print('  g 3 workers bound=1: runs=%d (strict) / %d (free_switches=True); max_runs stop reported: complete=%r pending=%d'
          % (ex.runs, ex2.runs, ex3.complete, ex3.pending))
    real = threading.Lock()
    real.acquire()
    r = Engine(run_timeout=0.3).run([lambda: real.acquire(), lambda: 5], PreemptPolicy([]))
    assert r.hung and r.stalled and not r.deadlock and r.done == [False, False]

    class BadPolicy:
        def choose(self, step, current, runnable):
            if step == 3:
                raise KeyError('bad policy')
            return runnable[0]
    try:
        run_g(BadPolicy())
        raise AssertionError('policy error swallowed')
    except KeyError:
        pass
    assert run_g(PreemptPolicy([])).final == 3.0
    print('  g worker blocked on a real (unpatched) lock -> hung/stalled; policy exception re-raised by Engine.run; next run fine')

    # patch restored, nothing traced, only the abandoned (deadlocked / stalled) workers are left
    from threading import Lock as _RealLock
    import prometheus_client.metrics as _m
    import prometheus_client.registry as _r
    assert values.Lock is _RealLock and _m.Lock is _RealLock and _r.Lock is _RealLock
    assert sys.gettrace() is None and threading.gettrace() is None
    print('  abandoned daemon threads left behind by deadlock/stall/hang runs: %d' % (threading.active_count() - n_threads0))
    print('sched self-test OK in %.1f s' % (_monotonic() - t_all))


if __name__ == '__main__':
    if '--selftest-b' in sys.argv[1:]:
        _selftest_b_child()
    else:
        _selftest()
