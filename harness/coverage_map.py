#!/venv/bin/python
"""coverage_map.py [--tier quick] [-j N] [--real-evidence] [Cxx …]  —  which library code do the ties reach?

Runs every registered check against /repo with VERIF_COVER (lib.start_cover: sys.monitoring line events in the harness
process, evidence redirected to a scratch directory so the committed evidence is untouched) and combines that with the T1
extractor's own reading list into /verif/coverage/COVERAGE.md and coverage.json:

  per function of prometheus_client/*.py (every `def`, incl. methods and nested functions)
     * T2: executable lines run by the correspondence / oracle runs of which properties (n/m lines)
     * T1: whether an extractor site reads the function (extract/sites/*.py mention its name for that file)
     * status: `T1+T2`, `T2`, `T1`, or `outside` (never executed by a check and not extracted = NOT covered by any tie;
       these are listed explicitly in DESIGN.md as modelled-by-nothing)

This is a measurement of the tie, not a proof and not evidence for any property: it answers "which parts of the code are
modelled rather than verified, and which are not even exercised" (DESIGN.md section 4 / Appendix B).
"""
import ast
import json
import os
import re
import subprocess
import sys
import tempfile
import shutil
from concurrent.futures import ThreadPoolExecutor

VERIF = os.path.dirname(os.path.dirname(os.path.abspath(__file__)))
REPO = os.environ.get('VERIF_REPO', '/repo')
PROPS = ['C%02d' % i for i in range(1, 20)]


def code_lines(path):
    """{qualname: set(executable lines)} from the compiled code objects of the file (what sys.monitoring can report)"""
    src = open(path).read()
    top = compile(src, path, 'exec')
    out = {}

    def walk(co, qual):
        lines = {l for (_, _, l) in co.co_lines() if l is not None}
        kids = [c for c in co.co_consts if hasattr(c, 'co_code')]
        if qual:
            # the `def` line itself belongs to the enclosing scope
            lines.discard(co.co_firstlineno)
            out[qual] = (co.co_firstlineno, lines)
        for k in kids:
            name = k.co_qualname if hasattr(k, 'co_qualname') else k.co_name
            if k.co_name.startswith('<') and k.co_name != '<lambda>':
                # comprehensions / genexprs: lines belong to the enclosing function
                sub = {l for (_, _, l) in k.co_lines() if l is not None}
                if qual:
                    out[qual][1].update(sub)
                walk_anon(k, qual)
                continue
            is_class = not (k.co_flags & 0x2) and k.co_name not in ('<lambda>',) and _is_class_body(k)
            walk(k, None if is_class else name) if not is_class else walk_class(k, name)

    def walk_anon(co, qual):
        for k in co.co_consts:
            if hasattr(k, 'co_code'):
                sub = {l for (_, _, l) in k.co_lines() if l is not None}
                if qual:
                    out[qual][1].update(sub)
                walk_anon(k, qual)

    def walk_class(co, name):
        for k in co.co_consts:
            if hasattr(k, 'co_code'):
                if _is_class_body(k):
                    walk_class(k, k.co_qualname)
                else:
                    walk(k, k.co_qualname)

    def _is_class_body(co):
        return '__module__' in co.co_names and '__qualname__' in co.co_names

    walk(top, None)
    return out


def t1_mentions():
    """{repo file: set(function names mentioned by an extractor site that lists the file in SOURCES)}"""
    out = {}
    d = os.path.join(VERIF, 'extract', 'sites')
    for fn in sorted(os.listdir(d)):
        if not fn.endswith('.py') or fn == '__init__.py':
            continue
        src = open(os.path.join(d, fn)).read()
        files = set(re.findall(r"'(prometheus_client/[a-z_/]+\.py)'", src))
        words = set(re.findall(r"[A-Za-z_][A-Za-z0-9_]*", src))
        for f in files:
            out.setdefault(f, {})
            out[f].setdefault('sites', set()).add(fn[:-3])
            out[f].setdefault('words', set()).update(words)
    return out


def run_one(prop, tier, scratch, real_evidence=False):
    cov = os.path.join(scratch, prop + '.cover.json')
    ev = os.path.join(scratch, 'ev-' + prop)
    os.makedirs(ev, exist_ok=True)
    env = dict(os.environ, VERIF_COVER=cov)
    if not real_evidence:
        env['VERIF_EVIDENCE_DIR'] = ev
    p = subprocess.run([os.path.join(VERIF, 'harness', 'check.py'), prop, '--tier', tier], env=env, cwd=VERIF,
                       stdout=subprocess.PIPE, stderr=subprocess.STDOUT, text=True)
    tail = p.stdout.strip().split('\n')[-1][:160]
    try:
        data = json.load(open(cov))
    except Exception:
        data = {}
    return prop, p.returncode, tail, data


def main(argv):
    tier = 'quick'
    j = 4
    want = []
    real_ev = False
    i = 1
    while i < len(argv):
        if argv[i] == '--tier': tier = argv[i + 1]; i += 2
        elif argv[i] == '-j': j = int(argv[i + 1]); i += 2
        elif argv[i] == '--real-evidence': real_ev = True; i += 1
        else: want.append(argv[i].upper()); i += 1
    props = want or PROPS
    scratch = tempfile.mkdtemp(prefix='pv-cover-')
    try:
        with ThreadPoolExecutor(j) as ex:
            results = list(ex.map(lambda p: run_one(p, tier, scratch, real_ev), props))
    finally:
        pass
    hit = {}        # file -> line -> set(props)
    runs = []
    for prop, rc, tail, data in results:
        runs.append({'property': prop, 'exit': rc, 'tail': tail, 'files': len(data)})
        print(prop, rc, tail)
        for f, lines in data.items():
            for l in lines:
                hit.setdefault(f, {}).setdefault(l, set()).add(prop)
    shutil.rmtree(scratch, ignore_errors=True)
    t1 = t1_mentions()
    rows = []
    pc = os.path.join(REPO, 'prometheus_client')
    for dirpath, _, files in sorted(os.walk(pc)):
        for fn in sorted(files):
            if not fn.endswith('.py'):
                continue
            path = os.path.join(dirpath, fn)
            rel = os.path.relpath(path, REPO)
            funcs = code_lines(path)
            for qual, (first, lines) in sorted(funcs.items(), key=lambda kv: kv[1][0]):
                if not lines:
                    continue
                hl = hit.get(rel, {})
                ex = {l for l in lines if l in hl}
                by = sorted({p for l in ex for p in hl[l]})
                short = qual.split('.<locals>.')[-1].split('.')[-1]
                names = t1.get(rel, {}).get('words', set())
                is_t1 = short in names and not short.startswith('__') or (short.startswith('__') and qual.split('.')[0] in names and short in names)
                status = ('T1+T2' if is_t1 and ex else 'T2' if ex else 'T1' if is_t1 else 'outside')
                rows.append({'file': rel, 'function': qual, 'line': first, 'lines': len(lines), 'executed': len(ex), 'missing': sorted(lines - ex),
                             'properties': by, 't1': bool(is_t1), 'status': status})
    os.makedirs(os.path.join(VERIF, 'coverage'), exist_ok=True)
    head = subprocess.run('git -C %s rev-parse --short HEAD' % REPO, shell=True, stdout=subprocess.PIPE, text=True).stdout.strip()
    json.dump({'repo_head': head, 'tier': tier, 'runs': runs, 'functions': rows},
              open(os.path.join(VERIF, 'coverage', 'coverage.json'), 'w'), indent=1)
    tot = sum(r['lines'] for r in rows); exe = sum(r['executed'] for r in rows)
    with open(os.path.join(VERIF, 'coverage', 'COVERAGE.md'), 'w') as o:
        o.write('# Which library code the two ties reach (generated by harness/coverage_map.py — a measurement, not evidence)\n\n')
        o.write('/repo HEAD %s, tier %s. %d functions, %d executable lines inside functions, %d (%.1f%%) executed by the '
                'correspondence / oracle runs of the 19 checks in the harness process (forked and helper processes are not '
                'traced, so multiprocess / crash scenarios are under-counted).\n\n' % (head, tier, len(rows), tot, exe, 100.0 * exe / max(tot, 1)))
        o.write('Status: `T1+T2` = read by an extractor site and executed; `T2` = executed only; `T1` = extracted only; '
                '`outside` = neither (no tie reaches it: nothing in this framework says anything about that function).\n\n')
        outside = [r for r in rows if r['status'] == 'outside']
        o.write('## Functions no tie reaches (%d)\n\n' % len(outside))
        for r in outside:
            o.write('* `%s:%d` `%s` (%d lines)\n' % (r['file'], r['line'], r['function'], r['lines']))
        part = [r for r in rows if r['status'] != 'outside' and r['missing']]
        o.write('\n## Functions a check runs only in part (%d) — the lines never executed\n\n' % len(part))
        for r in part:
            o.write('* `%s` `%s`: %d/%d, never run: %s\n' % (r['file'], r['function'], r['executed'], r['lines'], ', '.join(map(str, r['missing']))))
        o.write('\n## Per function\n\n| file | function | lines run | status | properties |\n|---|---|---|---|---|\n')
        for r in rows:
            o.write('| %s | `%s` | %d/%d | %s | %s |\n' % (r['file'].replace('prometheus_client/', ''), r['function'], r['executed'], r['lines'],
                                                          r['status'], ' '.join(r['properties'])))
    print('functions %d, lines %d, executed %d, outside %d' % (len(rows), tot, exe, len([r for r in rows if r['status'] == 'outside'])))
    return 0


if __name__ == '__main__':
    sys.exit(main(sys.argv))
