"""Grammar-based generator of valid OpenMetrics documents (structure first, text second).

    gen_document(rng) -> (text, families_description)      # the clean API (C04 / C14 / C15 all use it)
    gen_doc(rng)      -> Doc                                # the structure, for transformations (C15)
    Doc.render()      -> text;   Doc.describe() -> families_description (JSON-serialisable)

A Doc is a list of Fam; a Fam has metadata lines (TYPE / HELP / UNIT in a chosen order) and groups; a Group is one label
set with its sample lines, all carrying a timestamp of one form or none.  Every generated document is accepted by
`openmetrics.parser` (the checks assert that), covers every family type, several groups per family, exemplars, the
three timestamp forms, units, `_created`, UTF-8 quoted names, escapes in label values and HELP text.
"""
import copy

TYPES = ['counter', 'gauge', 'summary', 'histogram', 'gaugehistogram', 'info', 'stateset', 'unknown']
UNITS = ['seconds', 'bytes', 'ratio', 'total_x']
LEGACY_PARTS = ['http', 'req', 'mem', 'cpu', 'x', 'q9', 'A', 'node:load', 'z_z']
UTF8_NAMES = ['my.metric', 'métrique', 'a b', 'with"quote', 'back\\slash', 'new\nline', '温度', 'dash-ed', '😀x']
LABEL_NAMES = ['a', 'b_1', 'job', 'instance', 'code', 'l9', '_x']
UTF8_LABEL_NAMES = ['la.bel', 'é', 'a b', 'q"q', 'b\\s']
LABEL_VALUES = ['', 'x', 'GET', '200', 'a b', 'a,b', 'a=b', '{x}', 'é', '😀', 'q"uote', 'back\\slash', 'new\nline', ' # ', '#', '}',
                '\\n', 'tab\tx', '\xa0']
HELP_TEXTS = ['', 'help', 'some help text', 'with "quotes"', 'back\\slash', 'new\nline', ' lead', 'trail ', 'é😀', '# EOF', '\\n',
              'a  b']
GAUGE_VALUES = ['0', '1', '-1', '1.5', '-2.5e3', '1e3', '+Inf', '-Inf', 'NaN', '0.0', '17', '123456789', '1.0e-3', '+1', '0.1']
POS_VALUES = ['0', '1', '1.5', '2.5e3', '1e3', '+Inf', '0.0', '17', '123456789', '1.0e-3', '+1', '0.25']
QUANTILES = ['0', '0.5', '0.9', '0.99', '1', '1.0', '0.0', '1e-1']
STATES = ['on', 'off', 'a b', 'é', 'st"q']


def esc(v):
    return v.replace('\\', '\\\\').replace('\n', '\\n').replace('"', '\\"')


def is_legacy(name):
    import re
    return re.fullmatch(r'[a-zA-Z_:][a-zA-Z0-9_:]*', name) is not None


def is_legacy_label(name):
    import re
    return re.fullmatch(r'[a-zA-Z_][a-zA-Z0-9_]*', name) is not None and not name.startswith('__')


class RawKey(str):
    """a label name with a prescribed spelling of its name token (`raw`), e.g. a legacy name written quoted"""
    def __new__(cls, name, raw):
        o = str.__new__(cls, name)
        o.raw = raw
        return o

    def __deepcopy__(self, memo):
        return RawKey(str(self), self.raw)


def key_token(k):
    if isinstance(k, RawKey):
        return k.raw
    return k if is_legacy_label(k) else '"%s"' % esc(k)


class SampleLine:
    def __init__(self, name, labels, value, ts=None, exemplar=None):
        self.name = name            # full sample name (family name + suffix)
        self.labels = labels        # ordered list of (k, v)
        self.value = value          # text
        self.ts = ts                # text or None
        self.exemplar = exemplar    # (labels list, value text, ts text | None) or None

    def render(self):
        items = []
        if not is_legacy(self.name):
            items.append('"%s"' % esc(self.name))
        for k, v in self.labels:
            items.append('%s="%s"' % (key_token(k), esc(v)))
        head = self.name if is_legacy(self.name) else ''
        if items:
            head += '{' + ','.join(items) + '}'
        out = head + ' ' + self.value
        if self.ts is not None:
            out += ' ' + self.ts
        if self.exemplar is not None:
            ls, v, t = self.exemplar
            out += ' # {' + ','.join('%s="%s"' % (key_token(k), esc(x)) for k, x in ls) + '} ' + v
            if t is not None:
                out += ' ' + t
        return out

    def describe(self):
        return {'name': self.name, 'labels': dict(self.labels), 'value': self.value, 'timestamp': self.ts,
                'exemplar': None if self.exemplar is None else
                {'labels': dict(self.exemplar[0]), 'value': self.exemplar[1], 'timestamp': self.exemplar[2]}}


class Group:
    def __init__(self, labels, samples):
        self.labels = labels        # the group's own labels (without le / quantile / state label)
        self.samples = samples      # SampleLine list, in document order


class Fam:
    def __init__(self, name, typ, unit, help_, meta, groups):
        self.name = name
        self.typ = typ              # one of TYPES
        self.unit = unit            # '' or a unit the name ends with
        self.help = help_           # None = no HELP line
        self.meta = meta            # order of metadata lines, subset of ['TYPE', 'HELP', 'UNIT']
        self.groups = groups

    def mname(self):
        return self.name if is_legacy(self.name) else '"%s"' % esc(self.name)

    def meta_lines(self):
        out = []
        for m in self.meta:
            if m == 'TYPE':
                out.append('# TYPE %s %s' % (self.mname(), self.typ))
            elif m == 'HELP':
                out.append('# HELP %s %s' % (self.mname(), esc(self.help).replace('\\"', '"') if self.help is not None else ''))
            elif m == 'UNIT':
                out.append('# UNIT %s %s' % (self.mname(), self.unit))
        return out

    def sample_lines(self):
        return [s for g in self.groups for s in g.samples]

    def describe(self):
        typed = 'TYPE' in self.meta
        return {'name': self.name, 'type': self.typ if typed else 'unknown', 'unit': self.unit if 'UNIT' in self.meta else '',
                'help': self.help if 'HELP' in self.meta else '', 'samples': [s.describe() for s in self.sample_lines()]}


class Doc:
    def __init__(self, fams, eof_newline=True):
        self.fams = fams
        self.eof_newline = eof_newline

    def lines(self):
        out = []
        for f in self.fams:
            out += f.meta_lines()
            out += [s.render() for s in f.sample_lines()]
        out.append('# EOF')
        return out

    def render(self):
        ls = self.lines()
        return '\n'.join(ls) + ('\n' if self.eof_newline else '')

    def describe(self):
        return [f.describe() for f in self.fams]

    def copy(self):
        return copy.deepcopy(self)


# ------------------------------------------------------------------------------------------------- pieces
def gen_ts_maker(rng):
    """one timestamp form for a whole group; returns f(k) giving the k-th non-decreasing timestamp text, or None"""
    form = rng.choice(['none', 'none', 'int', 'frac', 'float', 'negint'])
    base = rng.choice([0, 1, 17, 1520879607, 123456])
    step = rng.choice([0, 1, 5])
    if form == 'none':
        return None, form
    if form == 'int':
        return (lambda k: str(base + step * k)), form
    if form == 'negint':
        return (lambda k: str(-1000 + step * k)), form
    if form == 'frac':
        frac = rng.choice(['0', '5', '789', '000000001', '123456789', '9999999999'])
        return (lambda k: '%d.%s' % (base + step * k, frac)), form
    # float form: exponent spelling, never parseable by the first two forms
    return (lambda k: '%de0' % (base + step * k)) if rng.random() < 0.5 else (lambda k: '%d.5e1' % (base + step * k)), form


def gen_labels(rng, forbidden=()):
    n = rng.choice([0, 0, 1, 1, 2, 3])
    names = []
    pool = LABEL_NAMES + (UTF8_LABEL_NAMES if rng.random() < 0.3 else [])
    for _ in range(n):
        k = rng.choice(pool)
        if k not in names and k not in forbidden:
            names.append(k)
    return [(k, rng.choice(LABEL_VALUES)) for k in names]


def gen_exemplar(rng):
    if rng.random() < 0.5:
        ls = []
    else:
        ls = [(k, rng.choice(['abc', 'x', '', 'a b', 'é', 'q\\q', 'n\nl', 'q"q', '"', 'b\\"', '}', '{', ' # {'])) for k in rng.sample(['trace_id', 'span_id', 'a', 'é.x'], rng.choice([1, 2]))]
    v = rng.choice(['1', '0.5', '-1', '1e3', 'NaN', '+Inf', '67'])
    t = rng.choice([None, None, '123', '123.456', '1e3'])
    return (ls, v, t)


def place_label(rng, labels, extra):
    """put the special label (le / quantile / state) at a random position among the group's labels"""
    ls = list(labels)
    ls.insert(rng.randrange(0, len(ls) + 1), extra)
    return ls


def gen_group_sets(rng, forbidden=()):
    """distinct label sets for the groups of one family"""
    n = rng.choice([1, 1, 2, 3])
    out, seen = [], set()
    for _ in range(n * 3):
        ls = gen_labels(rng, forbidden)
        key = tuple(sorted(ls))
        if key not in seen:
            seen.add(key)
            out.append(ls)
        if len(out) == n:
            break
    return out


def int_text(rng, n):
    return rng.choice([str(n), str(n), '%d.0' % n, '%de0' % n]) if n >= 0 else str(n)


def gen_family(rng, name, typ, unit):
    groups = []
    if typ == 'info':
        # the parser cannot tell info groups apart: every sample is group ()
        for ls in gen_group_sets(rng):
            groups.append(Group(ls, [SampleLine(name + '_info', ls, rng.choice(['1', '1.0', '1e0']))]))
        mk, _ = gen_ts_maker(rng)
        if mk and rng.random() < 0.5:
            k = 0
            for g in groups:
                for s in g.samples:
                    s.ts = mk(k); k += 1
    else:
        forbidden = {'counter': (), 'gauge': (), 'unknown': (), 'summary': ('quantile',), 'histogram': ('le',),
                     'gaugehistogram': ('le',), 'stateset': (name,)}[typ]
        for ls in gen_group_sets(rng, forbidden):
            mk, form = gen_ts_maker(rng)
            samples = []
            if typ == 'counter':
                for _ in range(rng.choice([1, 1, 2])):
                    samples.append(SampleLine(name + '_total', ls, rng.choice(POS_VALUES)))
                if rng.random() < 0.4:
                    samples.append(SampleLine(name + '_created', ls, rng.choice(['1520430000.123', '0', '1.5e9'])))
                if rng.random() < 0.3:
                    samples[0].exemplar = gen_exemplar(rng)
            elif typ in ('gauge', 'unknown'):
                for _ in range(rng.choice([1, 1, 2])):
                    samples.append(SampleLine(name, ls, rng.choice(GAUGE_VALUES)))
            elif typ == 'summary':
                order = rng.sample(['q', 'count', 'sum', 'created'], 4)
                for part in order:
                    if part == 'q':
                        qs = rng.sample(QUANTILES, rng.choice([0, 1, 2, 3]))
                        for q in qs:
                            samples.append(SampleLine(name, place_label(rng, ls, ('quantile', q)), rng.choice(POS_VALUES + ['NaN'])))
                    elif part == 'count' and rng.random() < 0.8:
                        samples.append(SampleLine(name + '_count', ls, int_text(rng, rng.randrange(0, 50))))
                    elif part == 'sum' and rng.random() < 0.8:
                        samples.append(SampleLine(name + '_sum', ls, rng.choice(POS_VALUES)))
                    elif part == 'created' and rng.random() < 0.3:
                        samples.append(SampleLine(name + '_created', ls, '1520430000.123'))
                if not samples:
                    samples.append(SampleLine(name + '_count', ls, '0'))
            elif typ in ('histogram', 'gaugehistogram'):
                neg = rng.random() < 0.2
                nb = rng.choice([0, 1, 2, 4])
                bounds = sorted(rng.sample([-5.0, -1.0, -0.5] if neg else [], rng.choice([1, 2]) if neg else 0) +
                                rng.sample([0.0, 0.005, 0.1, 1.0, 2.5, 10.0, 1000.0, 1e6], nb))
                texts = []
                for b in bounds:
                    t = repr(b)
                    if b == int(b) and rng.random() < 0.5:
                        t = str(int(b))
                    if b == 1e6:
                        t = rng.choice(['1e6', '1000000', '1e+06', '1000000.0'])
                    texts.append(t)
                texts.append('+Inf')
                cum, c = [], 0
                for _ in texts:
                    c += rng.choice([0, 0, 1, 3, 10])
                    cum.append(c)
                for t, c in zip(texts, cum):
                    s = SampleLine(name + '_bucket', place_label(rng, ls, ('le', t)), int_text(rng, c))
                    if rng.random() < 0.25:
                        s.exemplar = gen_exemplar(rng)
                    samples.append(s)
                cs, ss = ('_count', '_sum') if typ == 'histogram' else ('_gcount', '_gsum')
                has_neg = any(b < 0 for b in bounds)
                if typ == 'histogram':
                    if not has_neg and rng.random() < 0.8:
                        samples.append(SampleLine(name + cs, ls, int_text(rng, cum[-1])))
                        samples.append(SampleLine(name + ss, ls, rng.choice(POS_VALUES)))
                    if rng.random() < 0.3:
                        samples.append(SampleLine(name + '_created', ls, '1520430000.123'))
                else:
                    if rng.random() < 0.8:
                        samples.append(SampleLine(name + cs, ls, int_text(rng, cum[-1])))
                        samples.append(SampleLine(name + ss, ls, rng.choice(POS_VALUES + (['-3', '-0.5'] if has_neg else []))))
            elif typ == 'stateset':
                for st in rng.sample(STATES, rng.choice([1, 2, 3])):
                    samples.append(SampleLine(name, place_label(rng, ls, (name, st)), rng.choice(['0', '1', '1.0', '0.0'])))
            if mk:
                for k, s in enumerate(samples):
                    # _check_histogram treats a change of timestamp as a new group: one timestamp per histogram group
                    s.ts = mk(0 if typ in ('histogram', 'gaugehistogram') else k)
            groups.append(Group(ls, samples))
    help_ = rng.choice(HELP_TEXTS)
    meta = ['TYPE']
    if rng.random() < 0.7:
        meta.append('HELP')
    if unit:
        meta.append('UNIT')
    rng.shuffle(meta)
    if typ == 'unknown' and not unit and rng.random() < 0.4:
        meta = [m for m in meta if m != 'TYPE']        # an untyped family: samples only, or HELP only
        if rng.random() < 0.5 and is_legacy(name):
            meta = []                                  # (a bare UTF-8 sample name without metadata is rejected)
        if not meta and not is_legacy(name):
            meta = ['HELP']
    return Fam(name, typ, unit, help_, meta, groups)


def gen_names(rng, n):
    """n family names that cannot clash through any type suffix"""
    out = []
    used = set()
    while len(out) < n:
        if rng.random() < 0.2:
            base = rng.choice(UTF8_NAMES) + str(len(out))
        else:
            base = '_'.join(rng.sample(LEGACY_PARTS, rng.choice([1, 2]))) + str(len(out))
        if base in used:
            continue
        used.add(base)
        out.append(base)
    return out


def gen_doc(rng, types=None, nfam=None):
    n = nfam if nfam is not None else rng.choice([1, 2, 3, 4])
    names = gen_names(rng, n)
    fams = []
    for i, base in enumerate(names):
        typ = types[i % len(types)] if types else rng.choice(TYPES)
        unit = ''
        if typ not in ('info', 'stateset') and rng.random() < 0.3:
            unit = rng.choice(UNITS)
            base = base + '_' + unit
        fams.append(gen_family(rng, base, typ, unit))
    return Doc(fams, eof_newline=rng.random() < 0.8)


def gen_document(rng):
    d = gen_doc(rng)
    return d.render(), d.describe()


# ------------------------------------------------------------------------------------------------- quoted tokens in every region
# (C14) A sample line is a sequence of REGIONS; the scanners of both parsers (`_next_unquoted_char`, `parse_labels`,
# the OpenMetrics sample-tail state machine) track quotes and backslashes in ALL of them, although the grammar allows a quoted
# token only in the first three and in the exemplar labels.  `quoted_region_lines` puts a quoted token into each region in turn
# (instead of / glued before / glued behind / as an extra word next to the region's own token); `open_quote_endings` then ends
# the line at every position inside that token, followed by 0..3 backslashes (odd and even runs inside the open quote).
REGIONS = ['name', 'label-name', 'label-value', 'value', 'timestamp', 'exemplar-label-name', 'exemplar-label-value',
           'exemplar-value', 'exemplar-timestamp', 'trailing']
# bodies in wire form (between the quotes): plain, escaped quote, escaped backslash, escaped newline, the separators every scanner looks for
QUOTE_BODIES = ['', 'x', 'x\\"y', 'q\\\\', 'z\\n', '\\\\\\"', 'a b', ' # {t="q"} 1', '}', '{', ',', '=', '#', 'é', '\\', '1', '1.5']
PLACEMENTS = ['instead', 'before', 'behind', 'word-before', 'word-behind']


def _place(own, q, placement):
    """(text before the quoted token, text after it) when q is placed relative to the region's own token"""
    return {'instead': ('', ''), 'before': ('', own), 'behind': (own, ''), 'word-before': ('', ' ' + own),
            'word-behind': (own + ' ', '')}[placement]


def quoted_region_line(rng, region, placement, body=None):
    """one sample line with a quoted token in `region`: returns (prefix, token, suffix); prefix + token + suffix is the line and
    token == '"' + body + '"'.  The rest of the line is well formed (random choice of: legacy name or name in braces, labels,
    timestamp, exemplar with / without labels and timestamp), so every scanner in front of the token is passed normally."""
    body = rng.choice(QUOTE_BODIES) if body is None else body
    q = '"' + body + '"'
    after_ex = region.startswith('exemplar') or (region == 'trailing' and rng.random() < 0.6)
    name = rng.choice(['a_total', 'a_total', 'a', 'g', 'a_bucket', ''])
    lname, lval = rng.choice(['l', 'le', 'b_1', '"l.m"']), rng.choice(['v', 'c\\"d', '+Inf', 'x\\\\', ''])
    with_labels = region in ('name', 'label-name', 'label-value') or not name or rng.random() < 0.5
    value = rng.choice(['1', '1', '0.5', '+Inf', 'NaN'])
    ts = rng.choice(['2', '1.5', '1e3']) if region == 'timestamp' or rng.random() < 0.5 else None
    with_ex = after_ex or rng.random() < 0.3
    exl = rng.choice([[('t', 'q')], [('t', 'q')], [], [('t', 'q\\\\'), ('"s.p"', 'a\\"b')]])
    if region in ('exemplar-label-name', 'exemplar-label-value') and not exl:
        exl = [('t', 'q')]
    exv = rng.choice(['1', '0.5', '+Inf'])
    ext = rng.choice(['3', '1.5', '1e3']) if region == 'exemplar-timestamp' or rng.random() < 0.5 else None
    parts = []          # the line as (text, region or None)
    if region == 'name':
        b, a = _place(name or 'a', q, placement)
        parts.append((b, None)); parts.append((q, 'Q')); parts.append((a, None))
        if placement == 'instead' or rng.random() < 0.5:        # the grammatical place of a quoted name: first item in the braces
            parts = [('{', None), (q, 'Q'), (rng.choice(['', ',l="v"']) + '}', None)]
            with_labels = False
    else:
        parts.append((name, None))
    if with_labels:
        items = []
        if not name and region != 'name':
            items.append([('"a_total"', None)])
        if region == 'label-name':
            b, a = _place(lname, q, placement)
            items.append([(b, None), (q, 'Q'), (a + '="' + lval + '"', None)])
        elif region == 'label-value':
            b, a = _place('"' + lval + '"', q, placement)
            items.append([(lname + '=' + b, None), (q, 'Q'), (a, None)])
        else:
            items.append([(lname + '="' + lval + '"', None)])
        if rng.random() < 0.4:
            items.insert(rng.randrange(len(items) + 1), [('job="j"', None)])
        parts.append(('{', None))
        for i, it in enumerate(items):
            if i:
                parts.append((',', None))
            parts += it
        parts.append(('}', None))
    parts.append((' ', None))
    if region == 'value':
        b, a = _place(value, q, placement)
        parts += [(b, None), (q, 'Q'), (a, None)]
    else:
        parts.append((value, None))
    if region == 'timestamp':
        b, a = _place(ts, q, placement)
        parts += [(' ' + b, None), (q, 'Q'), (a, None)]
    elif ts is not None:
        parts.append((' ' + ts, None))
    if with_ex:
        parts.append((' # {', None))
        for i, (k, v) in enumerate(exl):
            if i:
                parts.append((',', None))
            if i == 0 and region == 'exemplar-label-name':
                b, a = _place(k, q, placement)
                parts += [(b, None), (q, 'Q'), (a + '="' + v + '"', None)]
            elif i == 0 and region == 'exemplar-label-value':
                b, a = _place('"' + v + '"', q, placement)
                parts += [(k + '=' + b, None), (q, 'Q'), (a, None)]
            else:
                parts.append((k + '="' + v + '"', None))
        parts.append(('} ', None))
        if region == 'exemplar-value':
            b, a = _place(exv, q, placement)
            parts += [(b, None), (q, 'Q'), (a, None)]
        else:
            parts.append((exv, None))
        if region == 'exemplar-timestamp':
            b, a = _place(ext, q, placement)
            parts += [(' ' + b, None), (q, 'Q'), (a, None)]
        elif ext is not None:
            parts.append((' ' + ext, None))
    if region == 'trailing':
        sep = {'instead': ' ', 'before': ' ', 'behind': '', 'word-before': ' ', 'word-behind': '  '}[placement]
        junk = {'instead': '', 'before': 'x', 'behind': '', 'word-before': ' 4', 'word-behind': ''}[placement]
        parts += [(sep, None), (q, 'Q'), (junk, None)]
    k = [i for i, p in enumerate(parts) if p[1] == 'Q'][0]
    return ''.join(p[0] for p in parts[:k]), q, ''.join(p[0] for p in parts[k + 1:])


def open_quote_endings(prefix, token, suffix, max_backslashes=3):
    """the lines that END inside (or right behind) the quoted token: prefix + token[:k] + j backslashes for every k >= 1 and
    j = 0..max (k = len(token): the closed token followed by a backslash run); and the lines where the token loses its closing
    quote / gains a backslash in front of it while the rest of the line stays (the quote swallows the suffix)."""
    out = []
    for k in range(1, len(token) + 1):
        for j in range(max_backslashes + 1):
            out.append(('end-in-quote' if k < len(token) else 'end-behind-quote', prefix + token[:k] + '\\' * j))
    out.append(('whole', prefix + token + suffix))
    if suffix:
        out.append(('unclosed', prefix + token[:-1] + suffix))
        out.append(('unclosed', prefix + token[:-1] + '\\"' + suffix))
        out.append(('unclosed', prefix + token[:-1] + '\\\\"' + suffix))
    return out


def quoted_region_lines(rng, per_region=1, regions=None):
    """for every region × placement, `per_region` lines with their open-quote endings: yields (region, placement, kind, line)"""
    for region in (regions or REGIONS):
        for placement in PLACEMENTS:
            for _ in range(per_region):
                p, q, s = quoted_region_line(rng, region, placement)
                for kind, line in open_quote_endings(p, q, s):
                    yield region, placement, kind, line


if __name__ == '__main__':
    import random
    import sys
    r = random.Random(int(sys.argv[1]) if len(sys.argv) > 1 else 0)
    sys.stdout.write(gen_doc(r).render())
