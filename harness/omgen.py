"""Grammar-based generator of valid OpenMetrics documents (structure first, text second).

    gen_document(rng) -> (text, families_description)      # the clean API (C04 / C14 / C15 all use it)
    gen_doc(rng)      -> Doc                                # the structure, for transformations (C15)
    Doc.render()      -> text;   Doc.describe() -> families_description (JSON-serialisable)

A Doc is a list of Fam; a Fam has metadata lines (TYPE / HELP / UNIT in a chosen order) and groups; a Group is one label
set with its sample lines, all carrying a timestamp of one form or none.  Every generated document is accepted by
`openmetrics.parser` (the checks assert that), covers every family type, several groups per family, exemplars, the
three timestamp forms, units, `_created`, UTF-8 quoted names, escapes in label values and HELP text.
"""
import copy

TYPES = ['counter', 'gauge', 'summary', 'histogram', 'gaugehistogram', 'info', 'stateset', 'unknown']
UNITS = ['seconds', 'bytes', 'ratio', 'total_x']
LEGACY_PARTS = ['http', 'req', 'mem', 'cpu', 'x', 'q9', 'A', 'node:load', 'z_z']
UTF8_NAMES = ['my.metric', 'métrique', 'a b', 'with"quote', 'back\\slash', 'new\nline', '温度', 'dash-ed', '😀x']
LABEL_NAMES = ['a', 'b_1', 'job', 'instance', 'code', 'l9', '_x']
UTF8_LABEL_NAMES = ['la.bel', 'é', 'a b', 'q"q', 'b\\s']
LABEL_VALUES = ['', 'x', 'GET', '200', 'a b', 'a,b', 'a=b', '{x}', 'é', '😀', 'q"uote', 'back\\slash', 'new\nline', ' # ', '#', '}',
                '\\n', 'tab\tx', '\xa0']
HELP_TEXTS = ['', 'help', 'some help text', 'with "quotes"', 'back\\slash', 'new\nline', ' lead', 'trail ', 'é😀', '# EOF', '\\n',
              'a  b']
GAUGE_VALUES = ['0', '1', '-1', '1.5', '-2.5e3', '1e3', '+Inf', '-Inf', 'NaN', '0.0', '17', '123456789', '1.0e-3', '+1', '0.1']
POS_VALUES = ['0', '1', '1.5', '2.5e3', '1e3', '+Inf', '0.0', '17', '123456789', '1.0e-3', '+1', '0.25']
QUANTILES = ['0', '0.5', '0.9', '0.99', '1', '1.0', '0.0', '1e-1']
STATES = ['on', 'off', 'a b', 'é', 'st"q']


def esc(v):
    return v.replace('\\', '\\\\').replace('\n', '\\n').replace('"', '\\"')


def is_legacy(name):
    import re
    return re.fullmatch(r'[a-zA-Z_:][a-zA-Z0-9_:]*', name) is not None


def is_legacy_label(name):
    import re
    return re.fullmatch(r'[a-zA-Z_][a-zA-Z0-9_]*', name) is not None and not name.startswith('__')


class RawKey(str):
    """a label name with a prescribed spelling of its name token (`raw`), e.g. a legacy name written quoted"""
    def __new__(cls, name, raw):
        o = str.__new__(cls, name)
        o.raw = raw
        return o

    def __deepcopy__(self, memo):
        return RawKey(str(self), self.raw)


def key_token(k):
    if isinstance(k, RawKey):
        return k.raw
    return k if is_legacy_label(k) else '"%s"' % esc(k)


class SampleLine:
    def __init__(self, name, labels, value, ts=None, exemplar=None):
        self.name = name            # full sample name (family name + suffix)
        self.labels = labels        # ordered list of (k, v)
        self.value = value          # text
        self.ts = ts                # text or None
        self.exemplar = exemplar    # (labels list, value text, ts text | None) or None

    def render(self):
        items = []
        if not is_legacy(self.name):
            items.append('"%s"' % esc(self.name))
        for k, v in self.labels:
            items.append('%s="%s"' % (key_token(k), esc(v)))
        head = self.name if is_legacy(self.name) else ''
        if items:
            head += '{' + ','.join(items) + '}'
        out = head + ' ' + self.value
        if self.ts is not None:
            out += ' ' + self.ts
        if self.exemplar is not None:
            ls, v, t = self.exemplar
            out += ' # {' + ','.join('%s="%s"' % (key_token(k), esc(x)) for k, x in ls) + '} ' + v
            if t is not None:
                out += ' ' + t
        return out

    def describe(self):
        return {'name': self.name, 'labels': dict(self.labels), 'value': self.value, 'timestamp': self.ts,
                'exemplar': None if self.exemplar is None else
                {'labels': dict(self.exemplar[0]), 'value': self.exemplar[1], 'timestamp': self.exemplar[2]}}


class Group:
    def __init__(self, labels, samples):
        self.labels = labels        # the group's own labels (without le / quantile / state label)
        self.samples = samples      # SampleLine list, in document order


class Fam:
    def __init__(self, name, typ, unit, help_, meta, groups):
        self.name = name
        self.typ = typ              # one of TYPES
        self.unit = unit            # '' or a unit the name ends with
        self.help = help_           # None = no HELP line
        self.meta = meta            # order of metadata lines, subset of ['TYPE', 'HELP', 'UNIT']
        self.groups = groups

    def mname(self):
        return self.name if is_legacy(self.name) else '"%s"' % esc(self.name)

    def meta_lines(self):
        out = []
        for m in self.meta:
            if m == 'TYPE':
                out.append('# TYPE %s %s' % (self.mname(), self.typ))
            elif m == 'HELP':
                out.append('# HELP %s %s' % (self.mname(), esc(self.help).replace('\\"', '"') if self.help is not None else ''))
            elif m == 'UNIT':
                out.append('# UNIT %s %s' % (self.mname(), self.unit))
        return out

    def sample_lines(self):
        return [s for g in self.groups for s in g.samples]

    def describe(self):
        typed = 'TYPE' in self.meta
        return {'name': self.name, 'type': self.typ if typed else 'unknown', 'unit': self.unit if 'UNIT' in self.meta else '',
                'help': self.help if 'HELP' in self.meta else '', 'samples': [s.describe() for s in self.sample_lines()]}


class Doc:
    def __init__(self, fams, eof_newline=True):
        self.fams = fams
        self.eof_newline = eof_newline

    def lines(self):
        out = []
        for f in self.fams:
            out += f.meta_lines()
            out += [s.render() for s in f.sample_lines()]
        out.append('# EOF')
        return out

    def render(self):
        ls = self.lines()
        return '\n'.join(ls) + ('\n' if self.eof_newline else '')

    def describe(self):
        return [f.describe() for f in self.fams]

    def copy(self):
        return copy.deepcopy(self)


# ------------------------------------------------------------------------------------------------- pieces
def gen_ts_maker(rng):
    """one timestamp form for a whole group; returns f(k) giving the k-th non-decreasing timestamp text, or None"""
    form = rng.choice(['none', 'none', 'int', 'frac', 'float', 'negint'])
    base = rng.choice([0, 1, 17, 1520879607, 123456])
    step = rng.choice([0, 1, 5])
    if form == 'none':
        return None, form
    if form == 'int':
        return (lambda k: str(base + step * k)), form
    if form == 'negint':
        return (lambda k: str(-1000 + step * k)), form
    if form == 'frac':
        frac = rng.choice(['0', '5', '789', '000000001', '123456789', '9999999999'])
        return (lambda k: '%d.%s' % (base + step * k, frac)), form
    # float form: exponent spelling, never parseable by the first two forms
    return (lambda k: '%de0' % (base + step * k)) if rng.random() < 0.5 else (lambda k: '%d.5e1' % (base + step * k)), form


def gen_labels(rng, forbidden=()):
    n = rng.choice([0, 0, 1, 1, 2, 3])
    names = []
    pool = LABEL_NAMES + (UTF8_LABEL_NAMES if rng.random() < 0.3 else [])
    for _ in range(n):
        k = rng.choice(pool)
        if k not in names and k not in forbidden:
            names.append(k)
    return [(k, rng.choice(LABEL_VALUES)) for k in names]


def gen_exemplar(rng):
    if rng.random() < 0.5:
        ls = []
    else:
        ls = [(k, rng.choice(['abc', 'x', '', 'a b', 'é', 'q\\q', 'n\nl', 'q"q', '"', 'b\\"', '}', '{', ' # {'])) for k in rng.sample(['trace_id', 'span_id', 'a', 'é.x'], rng.choice([1, 2]))]
    v = rng.choice(['1', '0.5', '-1', '1e3', 'NaN', '+Inf', '67'])
    t = rng.choice([None, None, '123', '123.456', '1e3'])
    return (ls, v, t)


def place_label(rng, labels, extra):
    """put the special label (le / quantile / state) at a random position among the group's labels"""
    ls = list(labels)
    ls.insert(rng.randrange(0, len(ls) + 1), extra)
    return ls


def gen_group_sets(rng, forbidden=()):
    """distinct label sets for the groups of one family"""
    n = rng.choice([1, 1, 2, 3])
    out, seen = [], set()
    for _ in range(n * 3):
        ls = gen_labels(rng, forbidden)
        key = tuple(sorted(ls))
        if key not in seen:
            seen.add(key)
            out.append(ls)
        if len(out) == n:
            break
    return out


def int_text(rng, n):
    return rng.choice([str(n), str(n), '%d.0' % n, '%de0' % n]) if n >= 0 else str(n)


def gen_family(rng, name, typ, unit):
    groups = []
    if typ == 'info':
        # the parser cannot tell info groups apart: every sample is group ()
        for ls in gen_group_sets(rng):
            groups.append(Group(ls, [SampleLine(name + '_info', ls, rng.choice(['1', '1.0', '1e0']))]))
        mk, _ = gen_ts_maker(rng)
        if mk and rng.random() < 0.5:
            k = 0
            for g in groups:
                for s in g.samples:
                    s.ts = mk(k); k += 1
    else:
        forbidden = {'counter': (), 'gauge': (), 'unknown': (), 'summary': ('quantile',), 'histogram': ('le',),
                     'gaugehistogram': ('le',), 'stateset': (name,)}[typ]
        for ls in gen_group_sets(rng, forbidden):
            mk, form = gen_ts_maker(rng)
            samples = []
            if typ == 'counter':
                for _ in range(rng.choice([1, 1, 2])):
                    samples.append(SampleLine(name + '_total', ls, rng.choice(POS_VALUES)))
                if rng.random() < 0.4:
                    samples.append(SampleLine(name + '_created', ls, rng.choice(['1520430000.123', '0', '1.5e9'])))
                if rng.random() < 0.3:
                    samples[0].exemplar = gen_exemplar(rng)
            elif typ in ('gauge', 'unknown'):
                for _ in range(rng.choice([1, 1, 2])):
                    samples.append(SampleLine(name, ls, rng.choice(GAUGE_VALUES)))
            elif typ == 'summary':
                order = rng.sample(['q', 'count', 'sum', 'created'], 4)
                for part in order:
                    if part == 'q':
                        qs = rng.sample(QUANTILES, rng.choice([0, 1, 2, 3]))
                        for q in qs:
                            samples.append(SampleLine(name, place_label(rng, ls, ('quantile', q)), rng.choice(POS_VALUES + ['NaN'])))
                    elif part == 'count' and rng.random() < 0.8:
                        samples.append(SampleLine(name + '_count', ls, int_text(rng, rng.randrange(0, 50))))
                    elif part == 'sum' and rng.random() < 0.8:
                        samples.append(SampleLine(name + '_sum', ls, rng.choice(POS_VALUES)))
                    elif part == 'created' and rng.random() < 0.3:
                        samples.append(SampleLine(name + '_created', ls, '1520430000.123'))
                if not samples:
                    samples.append(SampleLine(name + '_count', ls, '0'))
            elif typ in ('histogram', 'gaugehistogram'):
                neg = rng.random() < 0.2
                nb = rng.choice([0, 1, 2, 4])
                bounds = sorted(rng.sample([-5.0, -1.0, -0.5] if neg else [], rng.choice([1, 2]) if neg else 0) +
                                rng.sample([0.0, 0.005, 0.1, 1.0, 2.5, 10.0, 1000.0, 1e6], nb))
                texts = []
                for b in bounds:
                    t = repr(b)
                    if b == int(b) and rng.random() < 0.5:
                        t = str(int(b))
                    if b == 1e6:
                        t = rng.choice(['1e6', '1000000', '1e+06', '1000000.0'])
                    texts.append(t)
                texts.append('+Inf')
                cum, c = [], 0
                for _ in texts:
                    c += rng.choice([0, 0, 1, 3, 10])
                    cum.append(c)
                for t, c in zip(texts, cum):
                    s = SampleLine(name + '_bucket', place_label(rng, ls, ('le', t)), int_text(rng, c))
                    if rng.random() < 0.25:
                        s.exemplar = gen_exemplar(rng)
                    samples.append(s)
                cs, ss = ('_count', '_sum') if typ == 'histogram' else ('_gcount', '_gsum')
                has_neg = any(b < 0 for b in bounds)
                if typ == 'histogram':
                    if not has_neg and rng.random() < 0.8:
                        samples.append(SampleLine(name + cs, ls, int_text(rng, cum[-1])))
                        samples.append(SampleLine(name + ss, ls, rng.choice(POS_VALUES)))
                    if rng.random() < 0.3:
                        samples.append(SampleLine(name + '_created', ls, '1520430000.123'))
                else:
                    if rng.random() < 0.8:
                        samples.append(SampleLine(name + cs, ls, int_text(rng, cum[-1])))
                        samples.append(SampleLine(name + ss, ls, rng.choice(POS_VALUES + (['-3', '-0.5'] if has_neg else []))))
            elif typ == 'stateset':
                for st in rng.sample(STATES, rng.choice([1, 2, 3])):
                    samples.append(SampleLine(name, place_label(rng, ls, (name, st)), rng.choice(['0', '1', '1.0', '0.0'])))
            if mk:
                for k, s in enumerate(samples):
                    # _check_histogram treats a change of timestamp as a new group: one timestamp per histogram group
                    s.ts = mk(0 if typ in ('histogram', 'gaugehistogram') else k)
            groups.append(Group(ls, samples))
    help_ = rng.choice(HELP_TEXTS)
    meta = ['TYPE']
    if rng.random() < 0.7:
        meta.append('HELP')
    if unit:
        meta.append('UNIT')
    rng.shuffle(meta)
    if typ == 'unknown' and not unit and rng.random() < 0.4:
        meta = [m for m in meta if m != 'TYPE']        # an untyped family: samples only, or HELP only
        if rng.random() < 0.5 and is_legacy(name):
            meta = []                                  # (a bare UTF-8 sample name without metadata is rejected)
        if not meta and not is_legacy(name):
            meta = ['HELP']
    return Fam(name, typ, unit, help_, meta, groups)


def gen_names(rng, n):
    """n family names that cannot clash through any type suffix"""
    out = []
    used = set()
    while len(out) < n:
        if rng.random() < 0.2:
            base = rng.choice(UTF8_NAMES) + str(len(out))
        else:
            base = '_'.join(rng.sample(LEGACY_PARTS, rng.choice([1, 2]))) + str(len(out))
        if base in used:
            continue
        used.add(base)
        out.append(base)
    return out


def gen_doc(rng, types=None, nfam=None):
    n = nfam if nfam is not None else rng.choice([1, 2, 3, 4])
    names = gen_names(rng, n)
    fams = []
    for i, base in enumerate(names):
        typ = types[i % len(types)] if types else rng.choice(TYPES)
        unit = ''
        if typ not in ('info', 'stateset') and rng.random() < 0.3:
            unit = rng.choice(UNITS)
            base = base + '_' + unit
        fams.append(gen_family(rng, base, typ, unit))
    return Doc(fams, eof_newline=rng.random() < 0.8)


def gen_document(rng):
    d = gen_doc(rng)
    return d.render(), d.describe()


# ------------------------------------------------------------------------------------------------- quoted tokens in every region
# (C14) A sample line is a sequence of REGIONS; the scanners of both parsers (`_next_unquoted_char`, `parse_labels`,
# the OpenMetrics sample-tail state machine) track quotes and backslashes in ALL of them, although the grammar allows a quoted
# token only in the first three and in the exemplar labels.  `quoted_region_lines` puts a quoted token into each region in turn
# (instead of / glued before / glued behind / as an extra word next to the region's own token); `open_quote_endings` then ends
# the line at every position inside that token, followed by 0..3 backslashes (odd and even runs inside the open quote).
REGIONS = ['name', 'label-name', 'label-value', 'value', 'timestamp', 'exemplar-label-name', 'exemplar-label-value',
           'exemplar-value', 'exemplar-timestamp', 'trailing']
# bodies in wire form (between the quotes): plain, escaped quote, escaped backslash, escaped newline, the separators every scanner looks for
QUOTE_BODIES = ['', 'x', 'x\\"y', 'q\\\\', 'z\\n', '\\\\\\"', 'a b', ' # {t="q"} 1', '}', '{', ',', '=', '#', 'é', '\\', '1', '1.5']
PLACEMENTS = ['instead', 'before', 'behind', 'word-before', 'word-behind']


def _place(own, q, placement):
    """(text before the quoted token, text after it) when q is placed relative to the region's own token"""
    return {'instead': ('', ''), 'before': ('', own), 'behind': (own, ''), 'word-before': ('', ' ' + own),
            'word-behind': (own + ' ', '')}[placement]


def quoted_region_line(rng, region, placement, body=None):
    """one sample line with a quoted token in `region`: returns (prefix, token, suffix); prefix + token + suffix is the line and
    token == '"' + body + '"'.  The rest of the line is well formed (random choice of: legacy name or name in braces, labels,
    timestamp, exemplar with / without labels and timestamp), so every scanner in front of the token is passed normally."""
    body = rng.choice(QUOTE_BODIES) if body is None else body
    q = '"' + body + '"'
    after_ex = region.startswith('exemplar') or (region == 'trailing' and rng.random() < 0.6)
    name = rng.choice(['a_total', 'a_total', 'a', 'g', 'a_bucket', ''])
    lname, lval = rng.choice(['l', 'le', 'b_1', '"l.m"']), rng.choice(['v', 'c\\"d', '+Inf', 'x\\\\', ''])
    with_labels = region in ('name', 'label-name', 'label-value') or not name or rng.random() < 0.5
    value = rng.choice(['1', '1', '0.5', '+Inf', 'NaN'])
    ts = rng.choice(['2', '1.5', '1e3']) if region == 'timestamp' or rng.random() < 0.5 else None
    with_ex = after_ex or rng.random() < 0.3
    exl = rng.choice([[('t', 'q')], [('t', 'q')], [], [('t', 'q\\\\'), ('"s.p"', 'a\\"b')]])
    if region in ('exemplar-label-name', 'exemplar-label-value') and not exl:
        exl = [('t', 'q')]
    exv = rng.choice(['1', '0.5', '+Inf'])
    ext = rng.choice(['3', '1.5', '1e3']) if region == 'exemplar-timestamp' or rng.random() < 0.5 else None
    parts = []          # the line as (text, region or None)
    if region == 'name':
        b, a = _place(name or 'a', q, placement)
        parts.append((b, None)); parts.append((q, 'Q')); parts.append((a, None))
        if placement == 'instead' or rng.random() < 0.5:        # the grammatical place of a quoted name: first item in the braces
            parts = [('{', None), (q, 'Q'), (rng.choice(['', ',l="v"']) + '}', None)]
            with_labels = False
    else:
        parts.append((name, None))
    if with_labels:
        items = []
        if not name and region != 'name':
            items.append([('"a_total"', None)])
        if region == 'label-name':
            b, a = _place(lname, q, placement)
            items.append([(b, None), (q, 'Q'), (a + '="' + lval + '"', None)])
        elif region == 'label-value':
            b, a = _place('"' + lval + '"', q, placement)
            items.append([(lname + '=' + b, None), (q, 'Q'), (a, None)])
        else:
            items.append([(lname + '="' + lval + '"', None)])
        if rng.random() < 0.4:
            items.insert(rng.randrange(len(items) + 1), [('job="j"', None)])
        parts.append(('{', None))
        for i, it in enumerate(items):
            if i:
                parts.append((',', None))
            parts += it
        parts.append(('}', None))
    parts.append((' ', None))
    if region == 'value':
        b, a = _place(value, q, placement)
        parts += [(b, None), (q, 'Q'), (a, None)]
    else:
        parts.append((value, None))
    if region == 'timestamp':
        b, a = _place(ts, q, placement)
        parts += [(' ' + b, None), (q, 'Q'), (a, None)]
    elif ts is not None:
        parts.append((' ' + ts, None))
    if with_ex:
        parts.append((' # {', None))
        for i, (k, v) in enumerate(exl):
            if i:
                parts.append((',', None))
            if i == 0 and region == 'exemplar-label-name':
                b, a = _place(k, q, placement)
                parts += [(b, None), (q, 'Q'), (a + '="' + v + '"', None)]
            elif i == 0 and region == 'exemplar-label-value':
                b, a = _place('"' + v + '"', q, placement)
                parts += [(k + '=' + b, None), (q, 'Q'), (a, None)]
            else:
                parts.append((k + '="' + v + '"', None))
        parts.append(('} ', None))
        if region == 'exemplar-value':
            b, a = _place(exv, q, placement)
            parts += [(b, None), (q, 'Q'), (a, None)]
        else:
            parts.append((exv, None))
        if region == 'exemplar-timestamp':
            b, a = _place(ext, q, placement)
            parts += [(' ' + b, None), (q, 'Q'), (a, None)]
        elif ext is not None:
            parts.append((' ' + ext, None))
    if region == 'trailing':
        sep = {'instead': ' ', 'before': ' ', 'behind': '', 'word-before': ' ', 'word-behind': '  '}[placement]
        junk = {'instead': '', 'before': 'x', 'behind': '', 'word-before': ' 4', 'word-behind': ''}[placement]
        parts += [(sep, None), (q, 'Q'), (junk, None)]
    k = [i for i, p in enumerate(parts) if p[1] == 'Q'][0]
    return ''.join(p[0] for p in parts[:k]), q, ''.join(p[0] for p in parts[k + 1:])


def open_quote_endings(prefix, token, suffix, max_backslashes=3):
    """the lines that END inside (or right behind) the quoted token: prefix + token[:k] + j backslashes for every k >= 1 and
    j = 0..max (k = len(token): the closed token followed by a backslash run); and the lines where the token loses its closing
    quote / gains a backslash in front of it while the rest of the line stays (the quote swallows the suffix)."""
    out = []
    for k in range(1, len(token) + 1):
        for j in range(max_backslashes + 1):
            out.append(('end-in-quote' if k < len(token) else 'end-behind-quote', prefix + token[:k] + '\\' * j))
    out.append(('whole', prefix + token + suffix))
    if suffix:
        out.append(('unclosed', prefix + token[:-1] + suffix))
        out.append(('unclosed', prefix + token[:-1] + '\\"' + suffix))
        out.append(('unclosed', prefix + token[:-1] + '\\\\"' + suffix))
    return out


def quoted_region_lines(rng, per_region=1, regions=None):
    """for every region × placement, `per_region` lines with their open-quote endings: yields (region, placement, kind, line)"""
    for region in (regions or REGIONS):
        for placement in PLACEMENTS:
            for _ in range(per_region):
                p, q, s = quoted_region_line(rng, region, placement)
                for kind, line in open_quote_endings(p, q, s):
                    yield region, placement, kind, line


# ------------------------------------------------------------------------------------------------- pathological repetition
# (C14, "parsing terminates") Every list- / sequence-like syntactic REGION that the parsers scan with a regular expression or a
# character loop gets a long run (30, 60, 200, 2000) of one repeated ITEM, followed by each kind of WRONG TERMINATOR (nothing, a
# decimal point, ';', a letter, a blank, a stray comma / minus / quote / backslash), and then each combination of the region's own
# closing token (`]`, `"`, …) and the enclosing one (`}`, the rest of the line) present or lost.  A regular expression with a
# nested or optional-separator quantifier, or a scanner that restarts from the left, needs time exponential / cubic in the run on
# exactly these inputs: the list does not close where the scanner expects, so every split of the run is tried.
PATHO_LENGTHS = (30, 60, 200, 2000)
WRONG_TERMINATORS = [('nothing', ''), ('decimal-point', '.'), ('decimal-fraction', '.5'), ('semicolon', ';'), ('letter', 'x'),
                     ('blank', ' '), ('comma', ','), ('minus', '-'), ('quote', '"'), ('backslash', '\\')]
_NH_BASE = 'count:24,sum:100,schema:0,zero_threshold:0.001,zero_count:4'
_NH_REST = ',sum:100,schema:0,zero_threshold:0.001,zero_count:4'
_NUM_ITEMS = ['1', '0', '9', '.', 'e', 'E', '-', '+', ' ', '_', '1e', '1.', '.1', 'n', '\t', '1 ']
_LABEL_LIST_ITEMS = ['l="v",', 'l="v"', 'l="v" ,', 'l=', 'l', 'l,', '"', '""', '\\', ',', ' ', '=', '"x",', '{', 'l="\\"",', 'l="\\\\",',
                     lambda k: ''.join('l%d="v",' % i for i in range(k)), lambda k: ''.join('"l.%d"="v",' % i for i in range(k))]
_LABEL_VALUE_ITEMS = ['x', '\\\\', '\\"', '\\n', '\\', ' ', ',', '=', '}', '{', '#', 'é', '\\x', '",', '"']
_DELTA_ITEMS = ['1', '9', '-1', '1,', '-1,', '1, ', ' 1,', '1 ,', ' ', ',', '-', '1 ', ' 1', ', ', '1,,', '٣', '٣,']
_SPAN_ITEMS = ['1', '0:1,', '0:1', '0:', '1:', ':', ',', ' ', '0:1, ', '0: 1,', '1,', '0:1,,', '٣:٣,']


def _region(name, head, pre, items, inner, outer, tail='', om_only=False):
    return {'name': name, 'head': head, 'pre': pre, 'items': items, 'inner': inner, 'outer': outer, 'tail': tail, 'om_only': om_only}


def patho_regions():
    """the regions: name, lines before, text of the line before the run, the items to repeat, the region's own closing token
    (`inner`), the enclosing closing token (`outer`), the rest of the line"""
    H = '# TYPE nh histogram\n'
    C = '# TYPE a counter\n'
    out = []
    for key, items in (('positive_deltas', _DELTA_ITEMS), ('negative_deltas', _DELTA_ITEMS),
                       ('positive_spans', _SPAN_ITEMS), ('negative_spans', _SPAN_ITEMS)):
        other = {'positive_deltas': 'positive_spans:[0:2,1:2],', 'negative_deltas': 'negative_spans:[0:2,1:2],',
                 'positive_spans': '', 'negative_spans': ''}[key]
        # the list alone, behind a few well-formed elements, and in a labelled sample
        out.append(_region('nh-' + key, H, 'nh {' + _NH_BASE + ',' + other + key + ':[', items, ']', '}', om_only=True))
        first = '2,1,-1,' if 'deltas' in key else '0:2,1:2,'
        out.append(_region('nh-' + key + '-after-elements', H, 'nh{a="b"} {' + _NH_BASE + ',' + other + key + ':[' + first, items, ']', '}',
                           om_only=True))
        out.append(_region('nh-' + key + '-then-fields', H, 'nh {' + key + ':[', items, ']', ',' + _NH_BASE + '}', om_only=True))
    out.append(_region('nh-span-length', H, 'nh {' + _NH_BASE + ',positive_spans:[0:', _SPAN_ITEMS[:3] + ['9'], ']', '}', om_only=True))
    out.append(_region('nh-int-field', H, 'nh {count:', ['1', '9', ' ', '1 ', ':', '-', '_', '1_', '٣', 'count:'], _NH_REST, '}', om_only=True))
    out.append(_region('nh-float-field', H, 'nh {count:24,sum:100,schema:0,zero_count:4,zero_threshold:', _NUM_ITEMS, '', '}', om_only=True))
    out.append(_region('nh-fields', H, 'nh {' + _NH_BASE + ',',
                       ['a', 'a:1,', 'count:1,', ':', ',', ' ', '[', ']', '{', 'positive_deltas:[1],', 'positive_spans:[0:1],', 'a:', ':1,',
                        'positive_deltas:[', 'positive_spans:[', '[1,', '[0:1,', lambda k: ''.join('f%d:1,' % i for i in range(k))],
                       '', '}', om_only=True))
    out.append(_region('nh-before-struct', H, 'nh', [' ', '\t', '#', ' #', '{', '"', '\\'], ' {' + _NH_BASE, '}', om_only=True))
    out.append(_region('nh-after-struct', H, 'nh {' + _NH_BASE + '}', [' ', '}', '#', ' 1', ' # {a="b"} 1', ']'], '', '', om_only=True))
    for nm, head, pre, tail in (('label', '', 'a', ' 1'), ('exemplar-label', C, 'a_total 1 # ', ' 1 2')):
        out.append(_region(nm + '-list', head, pre + '{', _LABEL_LIST_ITEMS, '', '}', tail))
        out.append(_region(nm + '-list-after-label', head, pre + '{job="j",', _LABEL_LIST_ITEMS, '', '}', tail))
        out.append(_region(nm + '-value', head, pre + '{l="', _LABEL_VALUE_ITEMS, '"', '}', tail))
        out.append(_region(nm + '-name', head, pre + '{', ['l', '_', ' ', '"', '\\', 'é', '\\"'], '="v"', '}', tail))
        out.append(_region(nm + '-quoted-name', head, pre + '{"', ['a', '\\\\', '\\"', '\\n', '.', ' ', '=', ',', '\\'], '"', '="v"}', tail))
    out.append(_region('name-in-braces', '', '{"', ['a', '\\\\', '\\"', '\\n', '.', ' ', '=', ',', '}', '\\'], '"', '}', ' 1'))
    out.append(_region('metric-name', '', '', ['a', ':', '_', ' ', '{', '}', '#', '"', '\\', 'é', '{}', '{"a"}'], '', ' 1'))
    out.append(_region('name-value-gap', '', 'a', [' ', '\t', '\xa0', '#', ' #'], '', '1'))
    out.append(_region('value', '', 'a ', _NUM_ITEMS, '', '', ' 2'))
    out.append(_region('labelled-value', '', 'a{l="v"} ', _NUM_ITEMS, '', ''))
    out.append(_region('timestamp', '', 'a 1 ', _NUM_ITEMS, '', ''))
    out.append(_region('exemplar-gap', C, 'a_total 1', [' ', '#', ' #', '# ', '\t', '# {', ' # {}', ' # {a="b"} 1'], '', ' # {t="q"} 1'))
    out.append(_region('exemplar-value', C, 'a_total 1 # {t="q"} ', _NUM_ITEMS, '', '', ' 2'))
    out.append(_region('exemplar-timestamp', C, 'a_total 1 # {t="q"} 1 ', _NUM_ITEMS, '', ''))
    out.append(_region('help-text', '', '# HELP a ', ['\\', '\\\\', '\\n', '\\"', ' ', 'x', '"', '#', '\\x', 'é'], '', '', '\na 1'))
    out.append(_region('metadata-name', '', '# TYPE ', ['a', ' ', '"', '\\', '\\"', '#', '\\\\', ':'], '', ' gauge'))
    out.append(_region('metadata-quoted-name', '', '# TYPE "', ['a', ' ', '\\', '\\"', '\\\\', '\\n', '.'], '"', ' gauge'))
    out.append(_region('metadata-kind', '', '# TYPE a ', ['gauge', 'g', ' ', 'gauge ', '#'], '', ''))
    out.append(_region('unit', '', '# TYPE a_x gauge\n# UNIT a_x ', ['x', ' ', '_', '\\'], '', ''))
    out.append(_region('comment', '', '', ['#', '# ', ' ', '\t', '#\t', '# #'], '', '', ' a 1'))
    out.append(_region('lines', '', '', ['\n', 'a 1\n', '# HELP a x\n', '#\n', ' \n', '# TYPE a gauge\n', 'a{l="v"} 1\n', '\r\n', '\r', '# EOF\n',
                                         lambda k: ''.join('a{l="%d"} 1\n' % i for i in range(k)),
                                         lambda k: ''.join('# TYPE a%d gauge\na%d 1\n' % (i, i) for i in range(k))], '', ''))
    return out


def patho_documents(rng, lengths=PATHO_LENGTHS, full_lengths=(30, 60), sample_per_item=1):
    """yields (parser, description, document), shortest runs first.  For run lengths in `full_lengths` the whole product region ×
    item × wrong terminator × closing-token combination is enumerated; for the other lengths every (region, item) gets
    `sample_per_item` random (terminator, closing) choices (None = the whole product as well).  Documents that coincide are
    yielded once.  OpenMetrics documents end in '# EOF'; the text parser gets the same lines without it (native-histogram regions
    only go to the OpenMetrics parser: the text format has no such syntax and sees them through the label-list regions)."""
    seen = set()
    regions = patho_regions()
    for k in sorted(lengths):
        for reg in regions:
            closers = []
            for cname, ctext in (('closed', reg['inner'] + reg['outer']), ('own-closing-token-lost', reg['outer']),
                                 ('enclosing-closing-token-lost', reg['inner']), ('both-lost', '')):
                if ctext not in [c[1] for c in closers]:
                    closers.append((cname, ctext))
            for it_no, item in enumerate(reg['items']):
                run = item(k) if callable(item) else item * k
                shown = ('generated item #%d' % it_no) if callable(item) else repr(item)
                combos = [(t, c) for t in WRONG_TERMINATORS for c in closers]
                if k not in full_lengths and sample_per_item is not None:
                    combos = rng.sample(combos, min(sample_per_item, len(combos)))
                for (tname, ttext), (cname, ctext) in combos:
                    body = reg['head'] + reg['pre'] + run + ttext + ctext + reg['tail'] + '\n'
                    desc = {'region': reg['name'], 'item': shown, 'run': k, 'terminator': tname, 'closing': cname}
                    for which in (('om',) if reg['om_only'] else ('om', 'text')):
                        doc = body + ('# EOF\n' if which == 'om' else '')
                        if (which, doc) in seen:
                            continue
                        seen.add((which, doc))
                        yield which, desc, doc


if __name__ == '__main__':
    import random
    import sys
    r = random.Random(int(sys.argv[1]) if len(sys.argv) > 1 else 0)
    sys.stdout.write(gen_doc(r).render())


# ------------------------------------------------------------------------------------------------- history and position (C15)
# What a rule-enforcing parser decides about a document must not depend on what it parsed before (earlier calls in the same
# process, earlier families of the same document).  The pieces below give the C15 check the material to vary that history:
#   EXPOSED_SUFFIXES      the sample names a family of each type exposes (from the OpenMetrics wording, suffix '' = the bare name);
#                         every OTHER name a family reserves is not a legal sample of it anywhere
#   gen_warmup_docs       valid documents that together contain families of every type (parsed before the document under test)
#   gen_preceded_docs     for every type t a valid document whose families are [t, another type, t] (+ optionally more): a
#                         transformation applied to the LAST family is preceded in the same document by a valid family of the
#                         same type and by one of another type; applied to the first it is the first of its type
EXPOSED_SUFFIXES = {'counter': ['_total', '_created'], 'summary': ['', '_count', '_sum', '_created'],
                    'histogram': ['_count', '_sum', '_bucket', '_created'], 'gaugehistogram': ['_gcount', '_gsum', '_bucket'],
                    'info': ['_info'], 'gauge': [''], 'stateset': [''], 'unknown': ['']}


def gen_warmup_docs(rng, n=2):
    """n valid documents, each with one family of every type (in a rotated order)"""
    out = []
    for i in range(n):
        k = rng.randrange(len(TYPES))
        out.append(gen_doc(rng, types=TYPES[k:] + TYPES[:k], nfam=len(TYPES)))
    return out


def gen_preceded_docs(rng, types=None):
    """[(t, Doc)]: for every type t a document with families of types [t, o, t] (o another type, drawn)"""
    out = []
    for t in (types or TYPES):
        o = rng.choice([x for x in TYPES if x != t])
        out.append((t, gen_doc(rng, types=[t, o, t], nfam=3)))
    return out


def stray_sample_line(name, value='1'):
    """a sample line without labels under `name` (quoted form when the name is not a legacy name)"""
    return ('%s %s' % (name, value)) if is_legacy(name) else ('{"%s"} %s' % (esc(name), value))
