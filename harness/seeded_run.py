#!/usr/bin/env python3
"""Run the registered checks against the seeded changes in /verif/seeded/<id>/ (patch.diff + meta.json).

For each seeded change: verify /repo is clean, `git -C /repo apply patch.diff`, run `harness/check.py <property> --tier quick`
(plus any `also_check` properties in meta.json), record exit code and the VIOLATION line, then `git -C /repo checkout -- .`.
Writes seeded/RESULTS.json and prints a table.  Never leaves /repo modified.

usage: harness/seeded_run.py [id-prefix …] [--tier quick|thorough]
"""
import json
import os
import subprocess
import sys

VERIF = os.path.dirname(os.path.dirname(os.path.abspath(__file__)))
REPO = '/repo'


def sh(cmd, **kw):
    return subprocess.run(cmd, shell=True, stdout=subprocess.PIPE, stderr=subprocess.STDOUT, text=True, **kw)


def main(argv):
    tier = 'quick'
    want = []
    i = 1
    while i < len(argv):
        if argv[i] == '--tier': tier = argv[i + 1]; i += 2
        else: want.append(argv[i]); i += 1
    if sh('git -C %s status --porcelain --untracked-files=no' % REPO).stdout.strip():
        print('refusing: /repo has local modifications'); return 2
    sd = os.path.join(VERIF, 'seeded')
    results_path = os.path.join(sd, 'RESULTS.json')
    results = json.load(open(results_path)) if os.path.exists(results_path) else {}
    for name in sorted(os.listdir(sd)):
        d = os.path.join(sd, name)
        if not os.path.isdir(d) or (want and not any(name.startswith(w) for w in want)):
            continue
        meta = json.load(open(os.path.join(d, 'meta.json')))
        props = [meta['property']] + meta.get('also_check', [])
        r = sh('git -C %s apply %s' % (REPO, os.path.join(d, 'patch.diff')))
        if r.returncode != 0:
            results[name] = {'error': 'patch does not apply: ' + r.stdout[-300:]}
            print('%-12s patch does not apply' % name)
            continue
        try:
            res = {}
            for p in props:
                c = sh('cd %s && harness/check.py %s --tier %s' % (VERIF, p, tier), timeout=3600)
                vio = [l for l in c.stdout.split('\n') if l.startswith('VIOLATION')]
                res[p] = {'exit': c.returncode, 'violation': vio[0] if vio else None,
                          'no_failing_input': bool(vio and vio[0].rstrip().endswith('no-failing-input-found'))}
                what = ''
                if vio:
                    rp = vio[0].split('replay=')[1].split()[0]
                    try:
                        what = json.load(open(rp)).get('what') or str(json.load(open(rp)).get('no_longer_checks'))[:200]
                    except Exception:
                        pass
                res[p]['what'] = what
                print('%-12s %s exit=%d %s %s' % (name, p, c.returncode, 'CAUGHT' if c.returncode == 1 else 'MISSED' if c.returncode == 0 else 'INFRA',
                                                  (what or '')[:110]))
            results[name] = {'tier': tier, 'checks': res, 'title': meta.get('title')}
        finally:
            sh('git -C %s checkout -- .' % REPO)
    with open(results_path, 'w') as f:
        json.dump(results, f, indent=1, sort_keys=True)
    return 0


if __name__ == '__main__':
    sys.exit(main(sys.argv))
