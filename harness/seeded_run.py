#!/usr/bin/env python3
"""Run the registered checks against the seeded changes in /verif/seeded/<id>/ (patch.diff + meta.json).

For each seeded change: verify /repo is clean, `git -C /repo apply patch.diff`, run `harness/check.py <property> --tier quick`
(plus any `also_check` properties in meta.json), record exit code and the VIOLATION line, then `git -C /repo checkout -- .`.
Writes seeded/RESULTS.json and prints a table.  Never leaves /repo modified.

With `--scratch [-j N]` the change is applied to a scratch worktree of /repo's HEAD under /tmp instead (removed afterwards), the
checks run with VERIF_REPO pointing at it and write their evidence/replays under /tmp too (the replay's content is copied into
RESULTS.json), N changes in parallel; /repo itself is then never touched, so this mode can run while other work reads /repo.

usage: harness/seeded_run.py [id-prefix …] [--tier quick|thorough] [--scratch] [-j N]
"""
import json
import os
import subprocess
import sys

VERIF = os.path.dirname(os.path.dirname(os.path.abspath(__file__)))
REPO = '/repo'


def sh(cmd, **kw):
    return subprocess.run(cmd, shell=True, stdout=subprocess.PIPE, stderr=subprocess.STDOUT, text=True, **kw)


def run_scratch(name, slot, tier):
    d = os.path.join(VERIF, 'seeded', name)
    meta = json.load(open(os.path.join(d, 'meta.json')))
    props = [meta['property']] + meta.get('also_check', [])
    wt, ev = '/tmp/pv-seed-%d' % slot, '/tmp/pv-seed-ev-%d' % slot
    sh('git -C %s worktree remove --force %s' % (REPO, wt))
    sh('rm -rf %s %s' % (wt, ev))
    if sh('git -C %s worktree add -q --detach %s HEAD' % (REPO, wt)).returncode:
        return name, {'error': 'worktree'}
    try:
        r = sh('git -C %s apply %s' % (wt, os.path.join(d, 'patch.diff')))
        if r.returncode != 0:
            return name, {'error': 'patch does not apply: ' + r.stdout[-300:]}
        res = {}
        for p in props:
            c = sh('cd %s && VERIF_REPO=%s VERIF_EVIDENCE_DIR=%s harness/check.py %s --tier %s' % (VERIF, wt, ev, p, tier), timeout=3600)
            vio = [l for l in c.stdout.split('\n') if l.startswith('VIOLATION')]
            res[p] = {'exit': c.returncode, 'violation': vio[0].replace(ev, 'evidence') if vio else None,
                      'no_failing_input': bool(vio and vio[0].rstrip().endswith('no-failing-input-found'))}
            what = ''
            if vio:
                rp = vio[0].split('replay=')[1].split()[0]
                try:
                    what = json.load(open(rp)).get('what') or str(json.load(open(rp)).get('no_longer_checks'))[:200]
                except Exception:
                    pass
            res[p]['what'] = what
            print('%-12s %s exit=%d %s %s' % (name, p, c.returncode, 'CAUGHT' if c.returncode == 1 else 'MISSED' if c.returncode == 0 else 'INFRA',
                                              (what or '')[:110]), flush=True)
        return name, {'tier': tier, 'checks': res, 'title': meta.get('title'), 'mode': 'scratch-worktree'}
    finally:
        sh('git -C %s worktree remove --force %s' % (REPO, wt))
        sh('rm -rf %s %s' % (wt, ev))


def main(argv):
    tier = 'quick'
    want = []
    scratch, jobs = False, 1
    i = 1
    while i < len(argv):
        if argv[i] == '--tier': tier = argv[i + 1]; i += 2
        elif argv[i] == '--scratch': scratch = True; i += 1
        elif argv[i] == '-j': jobs = int(argv[i + 1]); i += 2
        else: want.append(argv[i]); i += 1
    if scratch:
        from concurrent.futures import ThreadPoolExecutor
        import queue
        sd = os.path.join(VERIF, 'seeded')
        results_path = os.path.join(sd, 'RESULTS.json')
        names = [n for n in sorted(os.listdir(sd)) if os.path.isdir(os.path.join(sd, n)) and (not want or any(n == w or n.startswith(w) for w in want))]
        slots = queue.Queue()
        for k in range(jobs):
            slots.put(k)

        def job(n):
            k = slots.get()
            try:
                return run_scratch(n, k, tier)
            finally:
                slots.put(k)
        with ThreadPoolExecutor(jobs) as ex:
            out = list(ex.map(job, names))
        results = json.load(open(results_path)) if os.path.exists(results_path) else {}
        results.update(dict(out))
        with open(results_path, 'w') as f:
            json.dump(results, f, indent=1, sort_keys=True)
        return 0
    if sh('git -C %s status --porcelain --untracked-files=no' % REPO).stdout.strip():
        print('refusing: /repo has local modifications'); return 2
    sd = os.path.join(VERIF, 'seeded')
    results_path = os.path.join(sd, 'RESULTS.json')
    results = json.load(open(results_path)) if os.path.exists(results_path) else {}
    for name in sorted(os.listdir(sd)):
        d = os.path.join(sd, name)
        if not os.path.isdir(d) or (want and not any(name.startswith(w) for w in want)):
            continue
        meta = json.load(open(os.path.join(d, 'meta.json')))
        props = [meta['property']] + meta.get('also_check', [])
        r = sh('git -C %s apply %s' % (REPO, os.path.join(d, 'patch.diff')))
        if r.returncode != 0:
            results[name] = {'error': 'patch does not apply: ' + r.stdout[-300:]}
            print('%-12s patch does not apply' % name)
            continue
        try:
            res = {}
            for p in props:
                c = sh('cd %s && harness/check.py %s --tier %s' % (VERIF, p, tier), timeout=3600)
                vio = [l for l in c.stdout.split('\n') if l.startswith('VIOLATION')]
                res[p] = {'exit': c.returncode, 'violation': vio[0] if vio else None,
                          'no_failing_input': bool(vio and vio[0].rstrip().endswith('no-failing-input-found'))}
                what = ''
                if vio:
                    rp = vio[0].split('replay=')[1].split()[0]
                    try:
                        what = json.load(open(rp)).get('what') or str(json.load(open(rp)).get('no_longer_checks'))[:200]
                    except Exception:
                        pass
                res[p]['what'] = what
                print('%-12s %s exit=%d %s %s' % (name, p, c.returncode, 'CAUGHT' if c.returncode == 1 else 'MISSED' if c.returncode == 0 else 'INFRA',
                                                  (what or '')[:110]))
            results[name] = {'tier': tier, 'checks': res, 'title': meta.get('title')}
        finally:
            sh('git -C %s checkout -- .' % REPO)
    with open(results_path, 'w') as f:
        json.dump(results, f, indent=1, sort_keys=True)
    return 0


if __name__ == '__main__':
    sys.exit(main(sys.argv))
