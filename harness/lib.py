"""Shared machinery of the checks: T1 extraction, Lean build + axiom audit, the model driver, verdicts, evidence.

Verdict rules (DESIGN.md 2.4):
  * property oracle fails on the real code at a concrete input  -> VIOLATION … replay=<input>   (exit 1)
    unless the input's signature is listed in known_findings.json -> KNOWN-FINDING line          (exit 0)
  * a proof obligation no longer checks, or model and implementation diverge, and the search found no failing
    input                                                        -> VIOLATION … no-failing-input-found (exit 1)
  * infrastructure trouble (tool missing, time-out)              -> exit 2, never 1
"""
import fcntl
import json
import os
import random
import re
import struct
import subprocess
import sys
import time

VERIF = os.path.dirname(os.path.dirname(os.path.abspath(__file__)))
REPO = os.environ.get('VERIF_REPO', '/repo')
LEAN = os.path.join(VERIF, 'lean')
# evidence of a run against a scratch copy (seeded-change trials) goes elsewhere, so the committed evidence always describes /repo
EVIDENCE_DIR = os.environ.get('VERIF_EVIDENCE_DIR') or os.path.join(VERIF, 'evidence')
DRIVER = os.path.join(LEAN, '.lake', 'build', 'bin', 'pvdriver')
ALLOWED_AXIOMS = {'propext', 'Classical.choice', 'Quot.sound'}
FORBIDDEN = re.compile(r'\bsorry\b|\badmit\b|^\s*axiom\s|native_decide|bv_decide|implemented_by|\bunsafe\s|maxHeartbeats\s+0', re.M)

CANON_NAN = 0x7ff8000000000000


# ----------------------------------------------------------------------------------------------- T2 line coverage
def start_cover(path):
    """VERIF_COVER=<file>: record which lines of REPO/prometheus_client the correspondence run executes in this process
    (sys.monitoring, each location reported once), dumped as {file: [lines]} at exit.  Used by harness/coverage_map.py
    to state, per library function, whether the checks ever run it.  Costs nothing when the variable is unset."""
    import atexit
    mon = getattr(sys, 'monitoring', None)
    if mon is None:
        return
    root = os.path.realpath(os.path.join(REPO, 'prometheus_client')) + os.sep
    seen = {}
    tool = mon.COVERAGE_ID
    try:
        mon.use_tool_id(tool, 'verif-cover')
    except ValueError:
        return

    def on_line(code, line):
        fn = code.co_filename
        if fn.startswith(root) or os.path.realpath(fn).startswith(root):
            seen.setdefault(os.path.relpath(os.path.realpath(fn), os.path.dirname(root.rstrip(os.sep))), set()).add(line)
        return mon.DISABLE

    mon.register_callback(tool, mon.events.LINE, on_line)
    mon.set_events(tool, mon.events.LINE)

    def dump():
        try:
            old = json.load(open(path)) if os.path.exists(path) else {}
        except Exception:
            old = {}
        for k, v in seen.items():
            old[k] = sorted(set(old.get(k, [])) | v)
        json.dump(old, open(path, 'w'))
    atexit.register(dump)


# ----------------------------------------------------------------------------------------------- wire codecs
def hx(s):
    return 'h:' + s.encode('utf-8').hex()


def unhx(f):
    assert f.startswith('h:'), f
    return bytes.fromhex(f[2:]).decode('utf-8')


def xb(b):
    return 'x:' + bytes(b).hex()


def unxb(f):
    assert f.startswith('x:'), f
    return bytes.fromhex(f[2:])


def fbits(x):
    x = float(x)
    if x != x:
        return 'b:%d' % CANON_NAN
    return 'b:%d' % struct.unpack('<Q', struct.pack('<d', x))[0]


def bits_of(x):
    x = float(x)
    if x != x:
        return CANON_NAN
    return struct.unpack('<Q', struct.pack('<d', x))[0]


def from_bits(n):
    return struct.unpack('<d', struct.pack('<Q', n))[0]


def unfbits(f):
    assert f.startswith('b:'), f
    return from_bits(int(f[2:]))


def enc_list(xs):
    return ';'.join(xs) if xs else '.'


# ----------------------------------------------------------------------------------------------- lean side
class LeanLock:
    def __enter__(self):
        os.makedirs(os.path.join(LEAN, '.lake'), exist_ok=True)
        self.f = open(os.path.join(LEAN, '.lake', 'pv.lock'), 'w')
        fcntl.flock(self.f, fcntl.LOCK_EX)
        return self

    def __exit__(self, *a):
        fcntl.flock(self.f, fcntl.LOCK_UN)
        self.f.close()


def run_cmd(cmd, cwd=None, timeout=1800, env=None):
    try:
        p = subprocess.run(cmd, cwd=cwd, stdout=subprocess.PIPE, stderr=subprocess.STDOUT, timeout=timeout, env=env)
        return p.returncode, p.stdout.decode('utf-8', 'replace')
    except subprocess.TimeoutExpired as e:
        return 124, (e.stdout or b'').decode('utf-8', 'replace') + '\nTIMEOUT'
    except FileNotFoundError as e:
        return 127, str(e)


def extract():
    """T1: regenerate Generated/*.lean from REPO.  Returns (fails, text)."""
    env = dict(os.environ, VERIF_REPO=REPO)
    rc, out = run_cmd([sys.executable, os.path.join(VERIF, 'extract', 'extract.py'), '--repo', REPO], env=env)
    if rc != 0:
        raise Infra('extractor failed: ' + out[-2000:])
    m = re.search(r'fails=(\S+)', out)
    fails = [] if not m or m.group(1) == '-' else m.group(1).split(',')
    return fails, out.strip()


class Infra(Exception):
    pass


def lake_build(targets, timeout=3000):
    rc, out = run_cmd(['lake', 'build'] + list(targets), cwd=LEAN, timeout=timeout)
    if rc in (124, 127):
        raise Infra('lake build: ' + out[-2000:])
    return rc == 0, out


def strip_comments(src):
    src = re.sub(r'/-.*?-/', '', src, flags=re.S)
    src = re.sub(r'--[^\n]*', '', src)
    return src


def forbidden_tokens(modules=None):
    """grep the Lean sources (comments removed) for sorry/axiom/native_decide/…; returns list of (file, token).
    `modules`: restrict to these module names (a property's import closure); None = the whole tree."""
    hits = []
    paths = []
    if modules is None:
        for root, _, files in os.walk(LEAN):
            if '.lake' in root or '.audit' in root:
                continue
            paths += [os.path.join(root, fn) for fn in files if fn.endswith('.lean')]
    else:
        for m in modules:
            p = os.path.join(LEAN, *m.split('.')) + '.lean'
            if os.path.exists(p):
                paths.append(p)
    for p in paths:
        src = strip_comments(open(p, encoding='utf-8').read())
        for m in FORBIDDEN.finditer(src):
            hits.append((os.path.relpath(p, LEAN), m.group(0).strip()))
    return hits


def audit(prop, theorems, extra_modules=()):
    """`#print axioms` for every listed theorem. Returns {theorem: sorted axiom list | None if missing/erroneous}."""
    d = os.path.join(LEAN, '.audit')
    os.makedirs(d, exist_ok=True)
    path = os.path.join(d, prop + '.lean')
    mods = sorted({'PromVerif.Props.' + prop} | set(extra_modules))
    with open(path, 'w') as f:
        for m in mods:
            f.write('import %s\n' % m)
        for t in theorems:
            f.write('#print axioms %s\n' % t)
    rc, out = run_cmd(['lake', 'env', 'lean', path], cwd=LEAN, timeout=600)
    res = {t: None for t in theorems}
    for m in re.finditer(r"'([^']+)' depends on axioms: \[([^\]]*)\]", out):
        res[m.group(1)] = sorted(a.strip() for a in m.group(2).replace('\n', ' ').split(',') if a.strip())
    for m in re.finditer(r"'([^']+)' does not depend on any axioms", out):
        res[m.group(1)] = []
    return res, out


def import_closure(roots):
    seen, todo = set(), list(roots)
    while todo:
        m = todo.pop()
        if m in seen:
            continue
        seen.add(m)
        path = os.path.join(LEAN, *m.split('.')) + '.lean'
        if not os.path.exists(path):
            continue
        for line in open(path, encoding='utf-8'):
            mm = re.match(r'\s*import\s+(PromVerif\.[A-Za-z0-9_.]+)', line)
            if mm:
                todo.append(mm.group(1))
    return seen


def relevant_generated(prop):
    """Generated/<X>.lean modules that Props/<prop>.lean — and the extra modules its obligations name — import transitively
    (so an extraction failure elsewhere is not this property's broken obligation)."""
    seen, gen, todo = set(), set(), ['PromVerif.Props.' + prop]
    try:
        todo += list(load_obligations(prop).get('extra_modules', ()))
    except Exception:
        pass
    while todo:
        m = todo.pop()
        if m in seen:
            continue
        seen.add(m)
        path = os.path.join(LEAN, *m.split('.')) + '.lean'
        if not os.path.exists(path):
            continue
        for line in open(path, encoding='utf-8'):
            mm = re.match(r'\s*import\s+(PromVerif\.[A-Za-z0-9_.]+)', line)
            if mm:
                if mm.group(1).startswith('PromVerif.Generated.'):
                    gen.add(mm.group(1).split('.')[-1])
                todo.append(mm.group(1))
    return gen


class Driver:
    """Batch interface to the native model driver: send request lines, get reply lines."""

    def __init__(self):
        self.ok = os.path.exists(DRIVER)
        self.path = DRIVER

    def snapshot(self):
        """take a private copy of the freshly built binary (called under the build lock), so that a concurrent check
        rebuilding the shared tree cannot swap the model under this run"""
        import atexit
        import shutil
        import tempfile
        if not os.path.exists(DRIVER):
            self.ok = False
            return
        d = os.path.join(LEAN, '.lake', 'drv')
        os.makedirs(d, exist_ok=True)
        fd, p = tempfile.mkstemp(prefix='pvdriver-', dir=d)
        os.close(fd)
        shutil.copy2(DRIVER, p)
        os.chmod(p, 0o755)
        self.path = p
        self.ok = True
        atexit.register(lambda: os.path.exists(p) and os.remove(p))

    def run(self, lines, timeout=600):
        if not self.ok:
            return None
        if not lines:
            return []
        data = ('\n'.join(lines) + '\n').encode('utf-8')
        try:
            p = subprocess.run([self.path], input=data, stdout=subprocess.PIPE, stderr=subprocess.PIPE, timeout=timeout)
        except subprocess.TimeoutExpired:
            raise Infra('driver timeout')
        out = p.stdout.decode('utf-8').split('\n')
        if out and out[-1] == '':
            out.pop()
        if len(out) != len(lines):
            raise Infra('driver returned %d replies for %d requests (rc=%s, stderr=%s)' % (
                len(out), len(lines), p.returncode, p.stderr.decode('utf-8', 'replace')[-500:]))
        return out


# ----------------------------------------------------------------------------------------------- context
class Ctx:
    def __init__(self, prop, tier, seed):
        self.prop = prop
        self.tier = tier
        self.seed = seed
        self.rng = random.Random((seed * 1000003) ^ hash_str(prop))
        self.t0 = time.time()
        self.evaluations = 0
        self.nontrivial = set()
        self.traces = 0
        self.samples = []
        self.dist = {}
        self.divergences = []      # model != implementation (T2 broke)
        self.failures = []         # property oracle failed on the real code: dict(sig, what, case)
        self.broken = []           # proof obligations / extraction that no longer check
        self.theorems = {}
        self.obligations = 0
        self.discharged = 0
        self.notes = []
        self.assumptions = []
        self.trusted = []
        self.rule = ''
        self.exhaustive = False
        self.extra = {}
        self.driver = Driver()
        self.build_log = ''
        self.deadline = None

    # -- bookkeeping used by the property modules
    def count(self, key, n=1):
        self.dist[key] = self.dist.get(key, 0) + n

    def case(self, nontrivial_key=None, sample=None):
        self.evaluations += 1
        if nontrivial_key is not None:
            self.nontrivial.add(nontrivial_key)
        if sample is not None and len(self.samples) < 6:
            self.samples.append(sample)

    def diverge(self, what, case):
        if len(self.divergences) < 50:
            self.divergences.append({'what': what, 'case': case})

    def fail(self, sig, what, case):
        """the property's own oracle failed on the real code at a concrete input"""
        if len(self.failures) < 200:
            self.failures.append({'sig': sig, 'what': what, 'case': case})

    def time_left(self):
        return None if self.deadline is None else self.deadline - time.time()

    # -- build + audit
    def build(self, theorems, extra_targets=()):
        """T1 + proof obligations.  Never raises on a *failed proof*; raises Infra on tool trouble."""
        with LeanLock():
            fails, txt = extract()
            self.notes.append(txt)
            rel = relevant_generated(self.prop)
            for f in fails:
                if f not in rel:
                    self.notes.append('extraction site %s failed but is not imported by Props.%s' % (f, self.prop))
                    continue
                self.broken.append('extraction site failed: Generated/%s.lean (see EXTRACT-FAIL comment)' % f)
            ok_drv, out_drv = lake_build(['pvdriver'])
            if not ok_drv:
                # which modules failed?  only those this property's theorems or driver module depend on are its concern
                failed = set()
                for ln in out_drv.split('\n'):
                    if 'error' in ln:
                        failed.update(re.findall(r'PromVerif/([A-Za-z0-9_/]+)\.lean:\d+:\d+', ln))
                failed.update(re.findall(r'✖ \[\d+/\d+\] Building PromVerif\.([A-Za-z0-9_.]+)', out_drv))
                failed = {f.replace('.', '/') for f in failed}
                failed = {'PromVerif.' + f.replace('/', '.') for f in failed}
                mine = import_closure(['PromVerif.Props.' + self.prop, 'PromVerif.Drv.' + self.prop])
                if not failed or failed & mine:
                    self.broken.append('model/driver no longer builds against the regenerated definitions: %s' % sorted(failed & mine or failed))
                else:
                    self.notes.append('driver unavailable (modules outside this property failed to build: %s); correspondence skipped, oracle still run' % sorted(failed))
                    self.extra['driver_unavailable'] = sorted(failed)
                self.build_log += out_drv[-4000:]
                self.driver.ok = False
            else:
                self.driver.snapshot()
            ok, out = lake_build(['PromVerif.Props.' + self.prop] + list(extra_targets))
            self.obligations = len(theorems)
            if not ok:
                errs = [l for l in out.split('\n') if 'error' in l][:12]
                self.broken.append('lake build PromVerif.Props.%s failed: %s' % (self.prop, ' | '.join(errs)))
                self.build_log += out[-6000:]
                self.theorems = {t: None for t in theorems}
            else:
                res, aout = audit(self.prop, theorems, extra_targets)
                self.theorems = res
                for t, ax in res.items():
                    if ax is None:
                        self.broken.append('theorem %s missing or does not check' % t)
                    elif not set(ax) <= ALLOWED_AXIOMS:
                        self.broken.append('theorem %s depends on axioms %s' % (t, ax))
                    else:
                        self.discharged += 1
            hits = forbidden_tokens(import_closure(['PromVerif.Props.' + self.prop, 'PromVerif.Drv.' + self.prop] + list(extra_targets)))
            if hits:
                self.broken.append('forbidden tokens in Lean sources: %s' % hits[:5])
                self.discharged = 0

    def leanchecker(self):
        """thorough tier: independent re-check of the property module's .olean"""
        with LeanLock():
            rc, out = run_cmd(['lake', 'env', 'leanchecker', 'PromVerif.Props.' + self.prop], cwd=LEAN, timeout=1500)
        self.extra['leanchecker'] = 'ok' if rc == 0 else 'rc=%d %s' % (rc, out[-300:])
        if rc not in (0, 124, 127):
            self.broken.append('leanchecker rejected PromVerif.Props.%s: %s' % (self.prop, out[-400:]))

    # -- verdict
    def finish(self):
        known = load_known()
        replay_dir = os.path.join(EVIDENCE_DIR, 'replays')
        os.makedirs(replay_dir, exist_ok=True)
        lines = []
        violations = 0
        seen_known = set()
        unlisted = []
        for f in self.failures:
            k = match_known(known, self.prop, f['sig'])
            if k is not None:
                if k['id'] not in seen_known:
                    seen_known.add(k['id'])
                    lines.append('KNOWN-FINDING: property=%s %s (%s)' % (self.prop, k['what'], k['id']))
            else:
                unlisted.append(f)
        if unlisted:
            f = unlisted[0]
            path = os.path.join(replay_dir, '%s_%s_%d.json' % (self.prop, self.tier, self.seed))
            with open(path, 'w') as fp:
                json.dump({'property': self.prop, 'kind': 'failing-input', 'sig': f['sig'], 'what': f['what'],
                           'case': f['case'], 'others': [g['what'] for g in unlisted[1:10]],
                           'broken_obligations': self.broken, 'divergences': self.divergences[:5]}, fp, indent=1, default=str)
            lines.append('VIOLATION property=%s replay=%s' % (self.prop, path))
            violations = len(unlisted)
        elif self.broken or self.divergences:
            path = os.path.join(replay_dir, '%s_%s_%d.json' % (self.prop, self.tier, self.seed))
            with open(path, 'w') as fp:
                json.dump({'property': self.prop, 'kind': 'no-failing-input-found',
                           'no_longer_checks': self.broken, 'divergences': self.divergences[:10],
                           'searched': {'evaluations': self.evaluations, 'rule': self.rule, 'distribution': self.dist},
                           'build_log_tail': self.build_log[-3000:]}, fp, indent=1, default=str)
            lines.append('VIOLATION property=%s replay=%s no-failing-input-found' % (self.prop, path))
            violations = 1
        self.write_evidence(violations)
        for l in lines:
            print(l)
        print('%s %s: obligations %d/%d, evaluations %d, nontrivial %d, divergences %d, oracle failures %d, %.1fs' % (
            self.prop, self.tier, self.discharged, self.obligations, self.evaluations, len(self.nontrivial),
            len(self.divergences), len(self.failures), time.time() - self.t0))
        return 1 if violations else 0

    def write_evidence(self, violations):
        cov = {
            'obligations': max(self.obligations, 1),
            'discharged': self.discharged,
            'checker_cmd': 'cd lean && lake build PromVerif.Props.%s && lake env lean .audit/%s.lean  (#print axioms per theorem)' % (self.prop, self.prop),
            'trusted_base': ['Lean 4.33 kernel', 'axioms ⊆ {propext, Classical.choice, Quot.sound}',
                             'extract/extract.py (T1)', 'harness correspondence (T2, sampling)'] + self.trusted,
            'theorems': {t: ('NOT CHECKED' if a is None else a) for t, a in self.theorems.items()},
            'evaluations': self.evaluations,
            'distinct_nontrivial': len(self.nontrivial),
            'rule': self.rule,
            'samples': self.samples or ['(no correspondence cases were run)'],
            'traces_validated_against_impl': self.traces,
            'distribution': self.dist,
            'exhaustive': self.exhaustive,
            'broken': self.broken,
            'divergences': len(self.divergences),
            'notes': self.notes,
        }
        cov.update(self.extra)
        if self.discharged == 0:
            # schema: a proof-level coverage block needs discharged >= 1; with nothing discharged the run is reported
            # through the generic counts instead (the VIOLATION line and `broken` say why)
            cov['discharged_none'] = True
            del cov['discharged']
        ev = {
            'property_id': self.prop, 'tier': self.tier, 'seed': self.seed, 'level': 'proof', 'coverage': cov,
            'assumptions': self.assumptions, 'wall_s': round(time.time() - self.t0, 2), 'violations': violations,
        }
        os.makedirs(EVIDENCE_DIR, exist_ok=True)
        with open(os.path.join(EVIDENCE_DIR, self.prop + '.json'), 'w') as fp:
            json.dump(ev, fp, indent=1, default=str, sort_keys=True)


def hash_str(s):
    h = 0
    for c in s:
        h = (h * 131 + ord(c)) & 0xffffffff
    return h


def load_known():
    p = os.path.join(VERIF, 'known_findings.json')
    if not os.path.exists(p):
        return {'findings': [], 'fixed': []}
    return json.load(open(p))


def match_known(known, prop, sig):
    for k in known.get('findings', []):
        if k['property'] != prop:
            continue
        if k.get('signature') == sig or sig in k.get('signatures', []):
            return k
        if k.get('signature_prefix') and sig.startswith(k['signature_prefix']):
            return k
    return None


def load_obligations(prop):
    p = os.path.join(VERIF, 'harness', 'obligations', prop + '.json')
    return json.load(open(p))


def shrink_list(xs, still_fails, max_rounds=200):
    """delta-debugging style minimisation of a list-shaped case"""
    xs = list(xs)
    n = 2
    rounds = 0
    while len(xs) >= 2 and rounds < max_rounds:
        rounds += 1
        chunk = max(1, len(xs) // n)
        reduced = False
        for i in range(0, len(xs), chunk):
            cand = xs[:i] + xs[i + chunk:]
            if cand and still_fails(cand):
                xs = cand
                n = max(n - 1, 2)
                reduced = True
                break
        if not reduced:
            if chunk == 1:
                break
            n = min(len(xs), n * 2)
    return xs
