"""exposition.choose_encoder / gzip_accepted / _bake_output / make_wsgi_app / MetricsHandler.do_GET and asgi.make_asgi_app:
the literals, the comparison operators and the call chains of the two token-matching sites, the encoder/content-type
pairing, the compression condition, the WSGI method dispatch table, and the typing of the ASGI query string.

Every site is matched against the one shape the model understands; a different shape gives EXTRACT-FAIL (broken
obligation), a changed literal / operator / chain gives a changed definition (a theorem of Props/C17 then fails).
"""
import ast
from leanlit import *

TARGET = 'Http'
SOURCES = ['prometheus_client/exposition.py', 'prometheus_client/asgi.py', 'prometheus_client/openmetrics/exposition.py']

# comparison operator codes (Model.Http.applyOp):  0 `x == lit`   1 `x.startswith(lit)`   2 `lit in x`
#                                                  3 `x.endswith(lit)`   4 `x in lit`
# chain step codes (Model.Http.applyChain), in application order:  0 `.split(sep)[0]`   1 `.strip()`   2 `.lower()`

DEFAULTS = dict(
    acceptSplitChar=',', omParamSep=';', omChain=[], omMatchOp=0, omMediaType='',
    matchEncoderOM=False, matchContentTypeOM=False, elseEncoderOM=False, elseContentTypeOM=False,
    codingSplitChar=',', gzipParamSep=';', gzipChain=[], gzipMatchOp=0, gzipCoding='',
    gzipMatchReturns=False, gzipElseReturns=False,
    contentTypeText='', contentTypeOM='',
    nameKey='', nameValueSplit='', nameValueDropEmpty=False, contentTypeHeader='', contentEncodingHeader=('', ''), bakeStatus='',
    compressNeedsEnabled=False, compressNeedsAccepted=False,
    wsgiOptionsMethod='', wsgiOptionsStatus='', wsgiOptionsHeaders=[], wsgiGetMethods=[],
    wsgi405Status='', wsgi405Headers=[], faviconPath='', faviconStatus='', faviconHeaders=[],
    asgiAcceptName='', asgiAcceptEncodingName='', asgiJoin='', asgiNameLowered=False, asgiQueryDecoded=False,
    asgiQueryCodec='', asgiHeaderCodec='', asgiParseEncoding='', asgiParseErrors='', asgiParseDefault=False,
    handlerAcceptName='', handlerAcceptEncodingName='', handlerDisableCompression=False,
)


def _b(x):
    return 'true' if x else 'false'


def _pairs(ps):
    return '[' + ', '.join('(%s, %s)' % (chars(a), chars(b)) for a, b in ps) + ']'


def _emit(v, fails):
    out = header(TARGET, SOURCES)
    for site, why in fails:
        out += '-- EXTRACT-FAIL %s: %s\n' % (site, why)
    out += 'def extractOk : Bool := %s\n' % _b(not fails)
    out += '-- operator codes: 0 `x == lit`, 1 `x.startswith(lit)`, 2 `lit in x`, 3 `x.endswith(lit)`, 4 `x in lit`\n'
    out += '-- chain steps, in application order: 0 `.split(sep)[0]`, 1 `.strip()`, 2 `.lower()`\n'
    out += '-- choose_encoder\n'
    out += 'def acceptSplitChar : Char := %s\n' % ch(v['acceptSplitChar'])
    out += 'def omParamSep : Char := %s\n' % ch(v['omParamSep'])
    out += 'def omChain : List Nat := %s\n' % v['omChain']
    out += 'def omMatchOp : Nat := %d\n' % v['omMatchOp']
    out += 'def omMediaType : List Char := %s\n' % chars(v['omMediaType'])
    out += 'def matchEncoderOM : Bool := %s\n' % _b(v['matchEncoderOM'])
    out += 'def matchContentTypeOM : Bool := %s\n' % _b(v['matchContentTypeOM'])
    out += 'def elseEncoderOM : Bool := %s\n' % _b(v['elseEncoderOM'])
    out += 'def elseContentTypeOM : Bool := %s\n' % _b(v['elseContentTypeOM'])
    out += '-- gzip_accepted\n'
    out += 'def codingSplitChar : Char := %s\n' % ch(v['codingSplitChar'])
    out += 'def gzipParamSep : Char := %s\n' % ch(v['gzipParamSep'])
    out += 'def gzipChain : List Nat := %s\n' % v['gzipChain']
    out += 'def gzipMatchOp : Nat := %d\n' % v['gzipMatchOp']
    out += 'def gzipCoding : List Char := %s\n' % chars(v['gzipCoding'])
    out += 'def gzipMatchReturns : Bool := %s\n' % _b(v['gzipMatchReturns'])
    out += 'def gzipElseReturns : Bool := %s\n' % _b(v['gzipElseReturns'])
    out += '-- CONTENT_TYPE_LATEST (exposition.py) and openmetrics.exposition.CONTENT_TYPE_LATEST\n'
    out += 'def contentTypeText : List Char := %s\n' % chars(v['contentTypeText'])
    out += 'def contentTypeOM : List Char := %s\n' % chars(v['contentTypeOM'])
    out += '-- _bake_output\n'
    out += 'def nameKey : List Char := %s\n' % chars(v['nameKey'])
    out += '-- [] = the values of name[] are passed on as they are; [c] = every value is first split on c (empty pieces dropped iff nameValueDropEmpty)\n'
    out += 'def nameValueSplit : List Char := %s\n' % chars(v['nameValueSplit'])
    out += 'def nameValueDropEmpty : Bool := %s\n' % _b(v['nameValueDropEmpty'])
    out += 'def contentTypeHeader : List Char := %s\n' % chars(v['contentTypeHeader'])
    out += 'def contentEncodingHeader : List Char × List Char := (%s, %s)\n' % (
        chars(v['contentEncodingHeader'][0]), chars(v['contentEncodingHeader'][1]))
    out += 'def bakeStatus : List Char := %s\n' % chars(v['bakeStatus'])
    out += 'def compressNeedsEnabled : Bool := %s\n' % _b(v['compressNeedsEnabled'])
    out += 'def compressNeedsAccepted : Bool := %s\n' % _b(v['compressNeedsAccepted'])
    out += '-- make_wsgi_app.prometheus_app method dispatch\n'
    out += 'def wsgiOptionsMethod : List Char := %s\n' % chars(v['wsgiOptionsMethod'])
    out += 'def wsgiOptionsStatus : List Char := %s\n' % chars(v['wsgiOptionsStatus'])
    out += 'def wsgiOptionsHeaders : List (List Char × List Char) := %s\n' % _pairs(v['wsgiOptionsHeaders'])
    out += 'def wsgiGetMethods : List (List Char) := %s\n' % strlist(v['wsgiGetMethods'])
    out += 'def wsgi405Status : List Char := %s\n' % chars(v['wsgi405Status'])
    out += 'def wsgi405Headers : List (List Char × List Char) := %s\n' % _pairs(v['wsgi405Headers'])
    out += 'def faviconPath : List Char := %s\n' % chars(v['faviconPath'])
    out += 'def faviconStatus : List Char := %s\n' % chars(v['faviconStatus'])
    out += 'def faviconHeaders : List (List Char × List Char) := %s\n' % _pairs(v['faviconHeaders'])
    out += '-- asgi.make_asgi_app.prometheus_app\n'
    out += 'def asgiAcceptName : List Char := %s\n' % chars(v['asgiAcceptName'])
    out += 'def asgiAcceptEncodingName : List Char := %s\n' % chars(v['asgiAcceptEncodingName'])
    out += 'def asgiJoin : List Char := %s\n' % chars(v['asgiJoin'])
    out += 'def asgiNameLowered : Bool := %s\n' % _b(v['asgiNameLowered'])
    out += 'def asgiQueryDecoded : Bool := %s\n' % _b(v['asgiQueryDecoded'])
    out += '-- codecs: canonical names "utf-8" | "latin-1"; query codec is "" when the query string is not decoded\n'
    out += 'def asgiQueryCodec : List Char := %s\n' % chars(v['asgiQueryCodec'])
    out += 'def asgiHeaderCodec : List Char := %s\n' % chars(v['asgiHeaderCodec'])
    out += '-- parse_qs(…, encoding=E, errors=R) in asgi.py: "" = argument absent; asgiParseDefault = both absent or the defaults utf-8 / replace\n'
    out += 'def asgiParseEncoding : List Char := %s\n' % chars(v['asgiParseEncoding'])
    out += 'def asgiParseErrors : List Char := %s\n' % chars(v['asgiParseErrors'])
    out += 'def asgiParseDefault : Bool := %s\n' % _b(v['asgiParseDefault'])
    out += '-- MetricsHandler.do_GET\n'
    out += 'def handlerAcceptName : List Char := %s\n' % chars(v['handlerAcceptName'])
    out += 'def handlerAcceptEncodingName : List Char := %s\n' % chars(v['handlerAcceptEncodingName'])
    out += 'def handlerDisableCompression : Bool := %s\n' % _b(v['handlerDisableCompression'])
    return out + footer(TARGET)


def _chain(node, var):
    """`var.split(SEP)[0].strip().lower()` -> ([0, 1, 2], SEP); steps in application order"""
    steps, sep = [], None
    while True:
        if isinstance(node, ast.Name) and node.id == var:
            break
        if (isinstance(node, ast.Call) and isinstance(node.func, ast.Attribute) and node.func.attr in ('strip', 'lower')
                and not node.args and not node.keywords):
            steps.append(1 if node.func.attr == 'strip' else 2)
            node = node.func.value
            continue
        if (isinstance(node, ast.Subscript) and isinstance(node.slice, ast.Constant) and node.slice.value == 0
                and isinstance(node.value, ast.Call) and isinstance(node.value.func, ast.Attribute)
                and node.value.func.attr == 'split' and len(node.value.args) == 1 and not node.value.keywords):
            s = const(node.value.args[0], str)
            if len(s) != 1: raise Fail('split separator %r is not one character' % s)
            if sep is not None and sep != s: raise Fail('two different split separators in one chain')
            sep = s
            steps.append(0)
            node = node.value.func.value
            continue
        raise Fail('token expression not understood: %s' % ast.unparse(node))
    steps.reverse()
    return steps, sep


def _match_test(test, var):
    """the `if` test of a matching loop -> (chain, sep, op code, literal)"""
    if isinstance(test, ast.Compare) and len(test.ops) == 1:
        l, r, op = test.left, test.comparators[0], test.ops[0]
        if isinstance(op, ast.Eq):
            if isinstance(r, ast.Constant): x, lit = l, r
            elif isinstance(l, ast.Constant): x, lit = r, l
            else: raise Fail('== without a literal operand')
            code = 0
        elif isinstance(op, ast.In):
            if isinstance(l, ast.Constant): x, lit, code = r, l, 2
            elif isinstance(r, ast.Constant): x, lit, code = l, r, 4
            else: raise Fail('`in` without a literal operand')
        else:
            raise Fail('comparison operator %s' % type(op).__name__)
    elif (isinstance(test, ast.Call) and isinstance(test.func, ast.Attribute) and test.func.attr in ('startswith', 'endswith')
          and len(test.args) == 1 and not test.keywords):
        x, lit, code = test.func.value, test.args[0], (1 if test.func.attr == 'startswith' else 3)
    else:
        raise Fail('matching test not understood: %s' % ast.unparse(test))
    steps, sep = _chain(x, var)
    return steps, sep, code, const(lit, str)


def _match_loop(f, param):
    """shape:  P = P or '';  for a in P.split(C): if <test>: return R1;  return R2   -> (C, test parts, R1, R2)"""
    body = [n for n in f.body if not (isinstance(n, ast.Expr) and isinstance(n.value, ast.Constant))]
    if len(body) != 3: raise Fail('expected 3 statements, got %d' % len(body))
    if ast.unparse(body[0]) != "%s = %s or ''" % (param, param): raise Fail("`%s = %s or ''` expected" % (param, param))
    loop = body[1]
    if not (isinstance(loop, ast.For) and isinstance(loop.target, ast.Name) and not loop.orelse): raise Fail('for loop expected')
    it = loop.iter
    if not (isinstance(it, ast.Call) and isinstance(it.func, ast.Attribute) and it.func.attr == 'split'
            and ast.unparse(it.func.value) == param and len(it.args) == 1 and not it.keywords):
        raise Fail('loop over %s.split(C) expected' % param)
    c = const(it.args[0], str)
    if len(c) != 1: raise Fail('list separator is not one character')
    if not (len(loop.body) == 1 and isinstance(loop.body[0], ast.If) and not loop.body[0].orelse
            and len(loop.body[0].body) == 1 and isinstance(loop.body[0].body[0], ast.Return)):
        raise Fail('loop body is not `if <test>: return …`')
    if not isinstance(body[2], ast.Return): raise Fail('final return expected')
    return c, _match_test(loop.body[0].test, loop.target.id), loop.body[0].body[0].value, body[2].value


def _enc_pair(node):
    if not (isinstance(node, ast.Tuple) and len(node.elts) == 2): raise Fail('(encoder, content type) tuple expected')
    e, c = (ast.unparse(x) for x in node.elts)
    encs = {'openmetrics.generate_latest': True, 'generate_latest': False}
    cts = {'openmetrics.CONTENT_TYPE_LATEST': True, 'CONTENT_TYPE_LATEST': False}
    if e not in encs: raise Fail('encoder %s' % e)
    if c not in cts: raise Fail('content type %s' % c)
    return encs[e], cts[c]


def _hdr_list(node):
    if not isinstance(node, ast.List): raise Fail('header list literal expected')
    out = []
    for t in node.elts:
        if not (isinstance(t, ast.Tuple) and len(t.elts) == 2): raise Fail('header pair expected')
        out.append((const(t.elts[0], str), const(t.elts[1], str)))
    return out


def _assigns(body):
    """{target text: value node} for simple assignments of a statement list"""
    d = {}
    for n in body:
        if isinstance(n, ast.Assign) and len(n.targets) == 1:
            d[ast.unparse(n.targets[0])] = n.value
    return d


def _site_choose(tree, v):
    f = find_func(tree, 'choose_encoder')
    c, (steps, sep, code, lit), r1, r2 = _match_loop(f, f.args.args[0].arg)
    v['acceptSplitChar'] = c
    v['omChain'], v['omMatchOp'], v['omMediaType'] = steps, code, lit
    if sep is not None: v['omParamSep'] = sep
    v['matchEncoderOM'], v['matchContentTypeOM'] = _enc_pair(r1)
    v['elseEncoderOM'], v['elseContentTypeOM'] = _enc_pair(r2)


def _site_gzip(tree, v):
    f = find_func(tree, 'gzip_accepted')
    c, (steps, sep, code, lit), r1, r2 = _match_loop(f, f.args.args[0].arg)
    v['codingSplitChar'] = c
    v['gzipChain'], v['gzipMatchOp'], v['gzipCoding'] = steps, code, lit
    if sep is not None: v['gzipParamSep'] = sep
    v['gzipMatchReturns'] = const(r1, bool)
    v['gzipElseReturns'] = const(r2, bool)


def _site_ct(tree, omtree, v):
    for n in omtree.body:
        if isinstance(n, ast.Assign) and ast.unparse(n.targets[0]) == 'CONTENT_TYPE_LATEST':
            v['contentTypeOM'] = const(n.value, str)
            break
    else:
        raise Fail('openmetrics CONTENT_TYPE_LATEST not found')
    # the module-level one of exposition.py, not a nested rebinding
    for n in tree.body:
        if isinstance(n, ast.Assign) and ast.unparse(n.targets[0]) == 'CONTENT_TYPE_LATEST':
            v['contentTypeText'] = const(n.value, str)
            break
    else:
        raise Fail('CONTENT_TYPE_LATEST not found at module level')


def _site_bake(tree, v):
    f = find_func(tree, '_bake_output')
    if [a.arg for a in f.args.args] != ['registry', 'accept_header', 'accept_encoding_header', 'params', 'disable_compression']:
        raise Fail('parameter list changed')
    body = [n for n in f.body if not (isinstance(n, ast.Expr) and isinstance(n.value, ast.Constant))]
    kinds = [type(n).__name__ for n in body]
    if kinds != ['Assign', 'If', 'Assign', 'Assign', 'If', 'Return']: raise Fail('statement shape %s' % kinds)
    if ast.unparse(body[0]) != 'encoder, content_type = choose_encoder(accept_header)': raise Fail('choose_encoder call changed')
    t = body[1].test
    if not (isinstance(t, ast.Compare) and len(t.ops) == 1 and isinstance(t.ops[0], ast.In)
            and ast.unparse(t.comparators[0]) == 'params' and not body[1].orelse and len(body[1].body) in (1, 2)):
        raise Fail("`if KEY in params:` expected")
    key = const(t.left, str)
    rb = body[1].body
    if len(rb) == 1:
        if ast.unparse(rb[0]) != 'registry = registry.restricted_registry(params[%r])' % key:
            raise Fail('restriction statement changed: %s' % ast.unparse(rb[0]))
    else:
        # variant: every value is split on a one-character separator before the restriction
        #   X = [n for value in params[KEY] for n in value.split(SEP) (if n)];  registry = registry.restricted_registry(X)
        a0 = rb[0]
        if not (isinstance(a0, ast.Assign) and len(a0.targets) == 1 and isinstance(a0.targets[0], ast.Name)
                and isinstance(a0.value, ast.ListComp) and len(a0.value.generators) == 2):
            raise Fail('restriction statements changed: %s' % ast.unparse(a0))
        lc, (g1, g2) = a0.value, a0.value.generators
        if not (isinstance(lc.elt, ast.Name) and isinstance(g2.target, ast.Name) and lc.elt.id == g2.target.id
                and isinstance(g1.target, ast.Name) and ast.unparse(g1.iter) == 'params[%r]' % key and not g1.ifs
                and isinstance(g2.iter, ast.Call) and isinstance(g2.iter.func, ast.Attribute) and g2.iter.func.attr == 'split'
                and ast.unparse(g2.iter.func.value) == g1.target.id and len(g2.iter.args) == 1 and not g2.iter.keywords):
            raise Fail('restriction comprehension not understood: %s' % ast.unparse(a0))
        sep = const(g2.iter.args[0], str)
        if len(sep) != 1: raise Fail('name[] value separator %r is not one character' % sep)
        if g2.ifs == []:
            v['nameValueDropEmpty'] = False
        elif len(g2.ifs) == 1 and ast.unparse(g2.ifs[0]) == g2.target.id:
            v['nameValueDropEmpty'] = True
        else:
            raise Fail('restriction comprehension filter not understood: %s' % ast.unparse(a0))
        if ast.unparse(rb[1]) != 'registry = registry.restricted_registry(%s)' % a0.targets[0].id:
            raise Fail('restriction statement changed: %s' % ast.unparse(rb[1]))
        v['nameValueSplit'] = sep
    v['nameKey'] = key
    if ast.unparse(body[2]) != 'output = encoder(registry)': raise Fail('output = encoder(registry) expected')
    hv = body[3].value
    if not (ast.unparse(body[3].targets[0]) == 'headers' and isinstance(hv, ast.List) and len(hv.elts) == 1
            and isinstance(hv.elts[0], ast.Tuple) and len(hv.elts[0].elts) == 2
            and ast.unparse(hv.elts[0].elts[1]) == 'content_type'):
        raise Fail('headers = [(NAME, content_type)] expected')
    v['contentTypeHeader'] = const(hv.elts[0].elts[0], str)
    # compression condition
    c = body[4]
    conj = c.test.values if isinstance(c.test, ast.BoolOp) and isinstance(c.test.op, ast.And) else [c.test]
    en = acc = False
    for x in conj:
        if ast.unparse(x) == 'not disable_compression': en = True
        elif ast.unparse(x) == 'gzip_accepted(accept_encoding_header)': acc = True
        else: raise Fail('compression condition conjunct %s' % ast.unparse(x))
    if c.orelse: raise Fail('compression `if` has an else')
    v['compressNeedsEnabled'], v['compressNeedsAccepted'] = en, acc
    if len(c.body) != 2 or ast.unparse(c.body[0]) != 'output = gzip.compress(output)': raise Fail('compression body changed')
    ap = c.body[1]
    if not (isinstance(ap, ast.Expr) and isinstance(ap.value, ast.Call) and ast.unparse(ap.value.func) == 'headers.append'
            and len(ap.value.args) == 1 and isinstance(ap.value.args[0], ast.Tuple) and len(ap.value.args[0].elts) == 2):
        raise Fail('headers.append((NAME, VALUE)) expected')
    v['contentEncodingHeader'] = tuple(const(e, str) for e in ap.value.args[0].elts)
    r = body[5].value
    if not (isinstance(r, ast.Tuple) and len(r.elts) == 3 and ast.unparse(r.elts[1]) == 'headers' and ast.unparse(r.elts[2]) == 'output'):
        raise Fail('return STATUS, headers, output expected')
    v['bakeStatus'] = const(r.elts[0], str)


def _site_wsgi(tree, v):
    outer = find_func(tree, 'make_wsgi_app')
    f = find_func(ast.Module(body=outer.body, type_ignores=[]), 'prometheus_app')
    a = _assigns(f.body)
    want = {'accept_header': "environ.get('HTTP_ACCEPT')", 'accept_encoding_header': "environ.get('HTTP_ACCEPT_ENCODING')",
            'params': "parse_qs(environ.get('QUERY_STRING', ''))", 'method': "environ['REQUEST_METHOD']"}
    for k, w in want.items():
        if k not in a or ast.unparse(a[k]) != w: raise Fail('%s = %s expected' % (k, w))
    ifs = [n for n in f.body if isinstance(n, ast.If)]
    if len(ifs) != 1: raise Fail('one dispatch chain expected')
    n1 = ifs[0]
    def eq_lit(t, left):
        if not (isinstance(t, ast.Compare) and len(t.ops) == 1 and isinstance(t.ops[0], ast.Eq) and ast.unparse(t.left) == left):
            raise Fail('`%s == LIT` expected, got %s' % (left, ast.unparse(t)))
        return const(t.comparators[0], str)
    def branch(body):
        b = _assigns(body)
        if set(b) != {'status', 'headers', 'output'}: raise Fail('branch assigns %s' % sorted(b))
        return const(b['status'], str), _hdr_list(b['headers']), b['output']
    v['wsgiOptionsMethod'] = eq_lit(n1.test, 'method')
    st, hs, out = branch(n1.body)
    if not (isinstance(out, ast.Constant) and out.value == b''): raise Fail("OPTIONS body is not b''")
    v['wsgiOptionsStatus'], v['wsgiOptionsHeaders'] = st, hs
    if not (len(n1.orelse) == 1 and isinstance(n1.orelse[0], ast.If)): raise Fail('elif chain expected')
    n2 = n1.orelse[0]
    t = n2.test
    if isinstance(t, ast.Compare) and len(t.ops) == 1 and ast.unparse(t.left) == 'method' and isinstance(t.ops[0], ast.NotEq):
        gets = [const(t.comparators[0], str)]
    elif (isinstance(t, ast.Compare) and len(t.ops) == 1 and ast.unparse(t.left) == 'method' and isinstance(t.ops[0], ast.NotIn)
          and isinstance(t.comparators[0], (ast.Tuple, ast.List, ast.Set))):
        gets = [const(e, str) for e in t.comparators[0].elts]
    elif isinstance(t, ast.BoolOp) and isinstance(t.op, ast.And) and all(
            isinstance(x, ast.Compare) and len(x.ops) == 1 and isinstance(x.ops[0], ast.NotEq) and ast.unparse(x.left) == 'method'
            for x in t.values):
        gets = [const(x.comparators[0], str) for x in t.values]
    else:
        raise Fail('second dispatch test not understood: %s' % ast.unparse(t))
    v['wsgiGetMethods'] = gets
    b = _assigns(n2.body)
    if set(b) != {'status', 'headers', 'output'}: raise Fail('405 branch assigns %s' % sorted(b))
    v['wsgi405Status'], v['wsgi405Headers'] = const(b['status'], str), _hdr_list(b['headers'])
    if not (len(n2.orelse) == 1 and isinstance(n2.orelse[0], ast.If)): raise Fail('favicon elif expected')
    n3 = n2.orelse[0]
    v['faviconPath'] = eq_lit(n3.test, "environ['PATH_INFO']")
    st, hs, out = branch(n3.body)
    if not (isinstance(out, ast.Constant) and out.value == b''): raise Fail("favicon body is not b''")
    v['faviconStatus'], v['faviconHeaders'] = st, hs
    els = [n for n in n3.orelse if not (isinstance(n, ast.Expr) and isinstance(n.value, ast.Constant))]
    if not (len(els) == 1 and ast.unparse(els[0]) ==
            'status, headers, output = _bake_output(registry, accept_header, accept_encoding_header, params, disable_compression)'):
        raise Fail('else branch is not the _bake_output call')
    tail = [ast.unparse(n) for n in f.body[f.body.index(n1) + 1:]]
    if tail != ['start_response(status, headers)', 'return [output]']: raise Fail('tail changed: %s' % tail)


_CODECS = {'utf8': 'utf-8', 'utf-8': 'utf-8', 'utf_8': 'utf-8', 'latin-1': 'latin-1', 'latin1': 'latin-1', 'latin_1': 'latin-1',
           'iso-8859-1': 'latin-1', 'iso8859-1': 'latin-1', 'l1': 'latin-1'}


def _decode_call(node, var):
    """`VAR.decode(CODEC)` / `VAR.decode()` -> canonical codec name ('utf-8' | 'latin-1'); None when `node` is not such a call"""
    if not (isinstance(node, ast.Call) and isinstance(node.func, ast.Attribute) and node.func.attr == 'decode'
            and ast.unparse(node.func.value) == var and not node.keywords and len(node.args) <= 1):
        return None
    if not node.args:
        return 'utf-8'
    c = const(node.args[0], str).lower()
    if c not in _CODECS: raise Fail('codec %r not understood' % c)
    return _CODECS[c]


def _site_asgi(tree, v):
    outer = find_func(tree, 'make_asgi_app')
    f = find_func(ast.Module(body=outer.body, type_ignores=[]), 'prometheus_app')
    a = _assigns(f.body)
    pn = a.get('params')
    if not (isinstance(pn, ast.Call) and ast.unparse(pn.func) == 'parse_qs' and len(pn.args) == 1):
        raise Fail('params = parse_qs(…) expected')
    # percent-decoding arguments of parse_qs are data: encoding= / errors= (defaults 'utf-8' / 'replace')
    for kw in pn.keywords:
        if kw.arg == 'encoding':
            e = const(kw.value, str).lower()
            v['asgiParseEncoding'] = _CODECS.get(e, e)
        elif kw.arg == 'errors':
            v['asgiParseErrors'] = const(kw.value, str)
        else:
            raise Fail('parse_qs keyword %s not understood' % kw.arg)
    v['asgiParseDefault'] = v['asgiParseEncoding'] in ('', 'utf-8') and v['asgiParseErrors'] in ('', 'replace')
    qarg = pn.args[0]
    if ast.unparse(qarg) == "scope.get('query_string', b'')":
        v['asgiQueryDecoded'] = False
    else:
        c = _decode_call(qarg, "scope.get('query_string', b'')")
        if c is None: raise Fail('params = %s' % ast.unparse(pn))
        v['asgiQueryDecoded'], v['asgiQueryCodec'] = True, c
    def joined(name):
        n = a.get(name)
        if not (isinstance(n, ast.Call) and isinstance(n.func, ast.Attribute) and n.func.attr == 'join'
                and len(n.args) == 1 and isinstance(n.args[0], ast.ListComp)):
            raise Fail('%s = SEP.join([…]) expected' % name)
        sep = const(n.func.value, str)
        lc = n.args[0]
        g = lc.generators[0]
        vc = _decode_call(lc.elt, 'value')
        if not (vc is not None and ast.unparse(g.target) == '(name, value)' and ast.unparse(g.iter) == "scope.get('headers')"
                and len(g.ifs) == 1 and len(lc.generators) == 1):
            raise Fail('%s comprehension changed' % name)
        t = g.ifs[0]
        if not (isinstance(t, ast.Compare) and len(t.ops) == 1 and isinstance(t.ops[0], ast.Eq)):
            raise Fail('%s header-name test is not ==' % name)
        l = t.left
        if (isinstance(l, ast.Call) and isinstance(l.func, ast.Attribute) and l.func.attr == 'lower' and not l.args
                and not l.keywords):
            low, l = True, l.func.value
        else:
            low = False
        nc = _decode_call(l, 'name')
        if nc is None: raise Fail('%s header-name expression %s' % (name, ast.unparse(t.left)))
        if nc != vc: raise Fail('%s decodes names as %s and values as %s' % (name, nc, vc))
        return sep, low, const(t.comparators[0], str), vc
    s1, l1, n1, c1 = joined('accept_header')
    s2, l2, n2, c2 = joined('accept_encoding_header')
    if s1 != s2 or l1 != l2 or c1 != c2: raise Fail('the two header joins differ in separator, case folding or codec')
    v['asgiJoin'], v['asgiNameLowered'], v['asgiAcceptName'], v['asgiAcceptEncodingName'] = s1, l1, n1, n2
    v['asgiHeaderCodec'] = c1
    calls = [ast.unparse(n) for n in f.body if isinstance(n, ast.Assign) and 'bake_output' in ast.unparse(n)]
    if calls != ['status, headers, output = _bake_output(registry, accept_header, accept_encoding_header, params, disable_compression)']:
        raise Fail('_bake_output call changed: %s' % calls)


def _site_handler(tree, v):
    f = find_func(tree, 'do_GET', cls='MetricsHandler')
    a = _assigns(f.body)
    def hget(name):
        n = a.get(name)
        if not (isinstance(n, ast.Call) and ast.unparse(n.func) == 'self.headers.get' and len(n.args) == 1 and not n.keywords):
            raise Fail('%s = self.headers.get(NAME) expected' % name)
        return const(n.args[0], str)
    v['handlerAcceptName'] = hget('accept_header')
    v['handlerAcceptEncodingName'] = hget('accept_encoding_header')
    if ast.unparse(a.get('params', ast.Constant(None))) != 'parse_qs(urlparse(self.path).query)':
        raise Fail('params = parse_qs(urlparse(self.path).query) expected')
    if ast.unparse(a.get('registry', ast.Constant(None))) != 'self.registry': raise Fail('registry = self.registry expected')
    call = a.get('(status, headers, output)') or a.get('status, headers, output')
    if call is None:
        for n in f.body:
            if isinstance(n, ast.Assign) and 'bake_output' in ast.unparse(n): call = n.value
    if not (isinstance(call, ast.Call) and ast.unparse(call.func) == '_bake_output' and len(call.args) == 5 and not call.keywords
            and [ast.unparse(x) for x in call.args[:4]] == ['registry', 'accept_header', 'accept_encoding_header', 'params']):
        raise Fail('_bake_output call changed')
    v['handlerDisableCompression'] = const(call.args[4], bool)


def generate(repo):
    v = dict(DEFAULTS)
    fails = []
    try:
        tree = parse(repo, SOURCES[0])
        atree = parse(repo, SOURCES[1])
        omtree = parse(repo, SOURCES[2])
    except (Fail, OSError, SyntaxError) as e:
        return _emit(v, [('parse', str(e))])
    for site, fn in (('exposition.choose_encoder', lambda: _site_choose(tree, v)),
                     ('exposition.gzip_accepted', lambda: _site_gzip(tree, v)),
                     ('CONTENT_TYPE_LATEST', lambda: _site_ct(tree, omtree, v)),
                     ('exposition._bake_output', lambda: _site_bake(tree, v)),
                     ('exposition.make_wsgi_app', lambda: _site_wsgi(tree, v)),
                     ('asgi.make_asgi_app', lambda: _site_asgi(atree, v)),
                     ('exposition.MetricsHandler.do_GET', lambda: _site_handler(tree, v))):
        try:
            fn()
        except Fail as e:
            fails.append((site, str(e).replace('\n', ' ')))
        except (AttributeError, IndexError, KeyError, TypeError, ValueError) as e:
            fails.append((site, 'unexpected shape (%s: %s)' % (type(e).__name__, str(e).replace('\n', ' '))))
    return _emit(v, fails)
