"""openmetrics/parser.py: the declarative part of the OpenMetrics parser.

  * `type_suffixes` (dict literal in `text_fd_to_metric_families`) and the three places it is applied
  * the suffix lists of the NaN / negative-value per-sample checks
  * the comparison operators (and operand order) of `_check_histogram`
  * the exemplar length limit (operator + constant) in `_parse_remaining_text`
  * the metadata keywords of the `parts[1] == …` chain
  * `!= 1` of the info check, `[0, 1]` of the stateset check, the unit-forbidden types, the type exempted from the
    timestamp-order check, `METRIC_TYPES` (metrics_core.py, enforced by `Metric.__init__` inside `build_metric`)
  * the guards that keep other exception classes from escaping, each as a Bool the model branches on (true = guard
    present): KeyError→ValueError around the field look-ups of `_parse_nh_struct`; `if is_nh: …; continue` before the
    per-sample checks; the second suffix test of `_parse_nh_sample` (name taken from the braces); the `isinstance`
    coercion in `Timestamp.__gt__/__lt__` (samples.py); `isinstance(sample.value, float)` in the NaN test; the numeric
    NaN test of the `le` label
  * the regular-expression classes `\\w`, `\\s`, `\\d` of `_parse_nh_struct` as code point ranges of the running
    interpreter (an interpreter fact, like Generated/Unicode.lean)
"""
import ast
import re

from leanlit import *

TARGET = 'OMParse'
SOURCES = ['prometheus_client/openmetrics/parser.py', 'prometheus_client/metrics_core.py', 'prometheus_client/samples.py']

OPS = {ast.Lt: 'lt', ast.LtE: 'le', ast.Gt: 'gt', ast.GtE: 'ge', ast.Eq: 'eq', ast.NotEq: 'ne'}
PYOP = {'lt': '<', 'le': '<=', 'gt': '>', 'ge': '>=', 'eq': '==', 'ne': '!='}


def _ranges(pred):
    out, start = [], None
    for cp in range(0x110000):
        ok = False if 0xD800 <= cp <= 0xDFFF else pred(chr(cp))
        if ok and start is None:
            start = cp
        if not ok and start is not None:
            out.append((start, cp - 1)); start = None
    if start is not None:
        out.append((start, 0x10FFFF))
    return out


def _rangelit(rs):
    return '[' + ', '.join('(%d, %d)' % r for r in rs) + ']'


def _str_list(node, what):
    if not isinstance(node, (ast.List, ast.Tuple)):
        raise Fail('%s is not a list literal: %s' % (what, ast.unparse(node)[:80]))
    return [const(e, str) for e in node.elts]


def _find_compare(func, left, right, what):
    """the unique Compare node `left OP right` (single operator) inside func -> op name"""
    hits = []
    for n in ast.walk(func):
        if (isinstance(n, ast.Compare) and len(n.ops) == 1 and ast.unparse(n.left) == left
                and ast.unparse(n.comparators[0]) == right):
            hits.append(n)
    if len(hits) != 1:
        raise Fail('%s: expected exactly one comparison `%s ? %s`, found %d' % (what, left, right, len(hits)))
    op = OPS.get(type(hits[0].ops[0]))
    if op is None:
        raise Fail('%s: operator %s not understood' % (what, type(hits[0].ops[0]).__name__))
    return op


def _ifs(func):
    return [n for n in ast.walk(func) if isinstance(n, ast.If)]


def _raise_msg(body):
    """first string literal of `raise ValueError("…" + …)` as the body's only statement, else None"""
    if len(body) != 1 or not isinstance(body[0], ast.Raise) or body[0].exc is None:
        return None
    for n in ast.walk(body[0].exc):
        if isinstance(n, ast.Constant) and isinstance(n.value, str):
            return n.value
    return ''


def _if_raising(func, prefix):
    hits = [n for n in _ifs(func) if (_raise_msg(n.body) or '').startswith(prefix) and not n.orelse]
    if len(hits) != 1:
        raise Fail('expected exactly one `if …: raise ValueError(%r…)`, found %d' % (prefix, len(hits)))
    return hits[0]


DEFAULT = dict(
    typeSuffixes=[], nanSuffixes=[], negSuffixes=[], bucketOrderCmp='le', bucketValueCmp='lt', countCmp='ne',
    negBucketCmp='lt', gsumNegCmp='lt', exemplarMaxLen=0, exemplarLenCmp='gt', kwHelp='', kwType='', kwUnit='',
    infoCmp='ne', infoValue=0, statesetValues=[], unitForbidden=[], tsOrderExempt=[], metricTypes=[],
    histTypes=[], untyped='', summaryNegCmp='lt', nhStructCatchesKeyError=False, nhSkipsChecks=False,
    nhSuffixRecheck=False, tsCoerce=False, nanGuardsFloat=False, leNaNNumeric=False, tsOverflowFallback=False,
    histSkipsNh=False, tsFracStrict=False, remEscapeAware=False, tsCompareViaFloat=False, unitDupByNone=False)


def _emit(ok, v, whys):
    out = header(TARGET, SOURCES)
    for w in whys:
        out += '-- EXTRACT-FAIL openmetrics.parser: %s\n' % w.replace('\n', ' ')
    out += 'inductive CmpOp | lt | le | gt | ge | eq | ne\nderiving Repr, DecidableEq\n'
    out += 'def extractOk : Bool := %s\n' % ('true' if ok else 'false')
    out += '/-- `type_suffixes` in `text_fd_to_metric_families`, in source order -/\n'
    out += 'def typeSuffixes : List (List Char × List (List Char)) := [\n'
    out += ',\n'.join('  (%s, %s)' % (chars(k), strlist(s)) for k, s in v['typeSuffixes']) + ']\n'
    out += '/-- `sample.name[len(name):] in [...] and math.isnan(sample.value)` -/\n'
    out += 'def nanSuffixes : List (List Char) := %s\n' % strlist(v['nanSuffixes'])
    out += '/-- `sample.name[len(name):] in [...] and sample.value < 0` -/\n'
    out += 'def negSuffixes : List (List Char) := %s\n' % strlist(v['negSuffixes'])
    out += '/-- `_check_histogram`: raise when `b OP bucket` (bucket = previous bound) -/\n'
    out += 'def bucketOrderCmp : CmpOp := .%s\n' % v['bucketOrderCmp']
    out += '/-- raise when `s.value OP value` (value = previous cumulative count) -/\n'
    out += 'def bucketValueCmp : CmpOp := .%s\n' % v['bucketValueCmp']
    out += '/-- raise when `count is not None and value OP count` -/\n'
    out += 'def countCmp : CmpOp := .%s\n' % v['countCmp']
    out += '/-- `b OP 0` sets has_negative_buckets; `s.value OP 0` on _gsum sets has_negative_gsum -/\n'
    out += 'def negBucketCmp : CmpOp := .%s\n' % v['negBucketCmp']
    out += 'def gsumNegCmp : CmpOp := .%s\n' % v['gsumNegCmp']
    out += '/-- `exemplar_length OP N` raises -/\n'
    out += 'def exemplarMaxLen : Nat := %d\n' % v['exemplarMaxLen']
    out += 'def exemplarLenCmp : CmpOp := .%s\n' % v['exemplarLenCmp']
    out += '/-- metadata keywords of the `parts[1] == …` chain (documentation / typ / unit branch) -/\n'
    out += 'def kwHelp : List Char := %s\n' % chars(v['kwHelp'])
    out += 'def kwType : List Char := %s\n' % chars(v['kwType'])
    out += 'def kwUnit : List Char := %s\n' % chars(v['kwUnit'])
    out += '/-- the TYPE value rejected on the TYPE line -/\n'
    out += 'def untypedName : List Char := %s\n' % chars(v['untyped'])
    out += "/-- `typ == 'info' and sample.value OP K` raises -/\n"
    out += 'def infoCmp : CmpOp := .%s\n' % v['infoCmp']
    out += 'def infoValue : Int := %d\n' % v['infoValue']
    out += "/-- `typ == 'stateset' and sample.value not in [...]` raises -/\n"
    out += 'def statesetValues : List Int := [%s]\n' % ', '.join(str(x) for x in v['statesetValues'])
    out += "/-- `typ == 'summary' and name == sample.name and sample.value OP 0` raises -/\n"
    out += 'def summaryNegCmp : CmpOp := .%s\n' % v['summaryNegCmp']
    out += '/-- `unit and typ in [...]` raises in build_metric -/\n'
    out += 'def unitForbidden : List (List Char) := %s\n' % strlist(v['unitForbidden'])
    out += '/-- `typ in [...]` runs _check_histogram in build_metric -/\n'
    out += 'def histTypes : List (List Char) := %s\n' % strlist(v['histTypes'])
    out += '/-- types for which `group_timestamp > sample.timestamp` does not raise (`and typ != …`) -/\n'
    out += 'def tsOrderExempt : List (List Char) := %s\n' % strlist(v['tsOrderExempt'])
    out += '/-- `metrics_core.METRIC_TYPES` (`Metric.__init__` raises ValueError for any other type) -/\n'
    out += 'def metricTypes : List (List Char) := %s\n' % strlist(v['metricTypes'])
    out += '-- guards against escaping exception classes (true = present in the source)\n'
    for k, doc in (('nhStructCatchesKeyError', "`try: … items[...] … except KeyError: raise ValueError` in _parse_nh_struct"),
                   ('nhSkipsChecks', "`if is_nh: samples.append(sample); continue` before the per-sample checks"),
                   ('nhSuffixRecheck', "second `if name.endswith(suffixes): raise` after the name is taken from the labels"),
                   ('tsCoerce', "`if not isinstance(other, Timestamp): return float(self) > other` (and `<`) in samples.Timestamp"),
                   ('tsOverflowFallback', "`try: return float(self) > other / except OverflowError: return self.sec > other` (and `<`)"),
                   ('tsCompareViaFloat', "variant: `return float(self) > float(other)` for EVERY operand, also Timestamp against Timestamp (nanoseconds lost)"),
                   ('histSkipsNh', "`if s.native_histogram is not None: continue` as the first statement of the loop of _check_histogram"),
                   ('nanGuardsFloat', "`isinstance(sample.value, float) and math.isnan(sample.value)`"),
                   ('tsFracStrict', "_parse_timestamp, aaaa.bbbb form: `int(parts[1])` on the whole fraction and `-0.x` left to the float form"),
                   ('remEscapeAware', "_parse_remaining_text: the in-quotes flag ignores a backslash-escaped double quote"),
                   ('leNaNNumeric', "`math.isnan(float(sample.labels.get('le', \"NaN\")))` instead of the spelling test `== \"NaN\"`"),
                   ('unitDupByNone', "\"More than one UNIT\" is tested by `unit is not None` (false: by truthiness `if unit:`, which lets a second UNIT line pass after an EMPTY unit)")):
        out += '/-- %s -/\ndef %s : Bool := %s\n' % (doc, k, 'true' if v[k] else 'false')
    out += '/-- `re` classes of the running interpreter for str patterns: \\w, \\s, \\d (inclusive code point ranges) -/\n'
    out += 'def reWordRanges : List (Nat × Nat) := %s\n' % _rangelit(v.get('w', []))
    out += 'def reSpaceRanges : List (Nat × Nat) := %s\n' % _rangelit(v.get('s', []))
    out += 'def reDigitRanges : List (Nat × Nat) := %s\n' % _rangelit(v.get('d', []))
    return out + footer(TARGET)


def generate(repo):
    v = dict(DEFAULT)
    whys = []
    w, s, d = re.compile(r'\w'), re.compile(r'\s'), re.compile(r'\d')
    v['w'] = _ranges(lambda c: w.match(c) is not None)
    v['s'] = _ranges(lambda c: s.match(c) is not None)
    v['d'] = _ranges(lambda c: d.match(c) is not None)

    def site(fn):
        try:
            fn()
        except Fail as e:
            whys.append(str(e))
        except (IndexError, AttributeError, KeyError, TypeError, ValueError) as e:
            whys.append('%s: %s: %s' % (fn.__name__, type(e).__name__, e))

    try:
        tree = parse(repo, SOURCES[0])
        core = parse(repo, SOURCES[1])
        main = find_func(tree, 'text_fd_to_metric_families')
        hist = find_func(tree, '_check_histogram')
        rem = find_func(tree, '_parse_remaining_text')
    except Fail as e:
        return _emit(False, v, [str(e)])

    def type_suffixes():
        dct = find_assign(main, 'type_suffixes')
        if not isinstance(dct, ast.Dict):
            raise Fail('type_suffixes is not a dict literal')
        table, seen = [], set()
        for k, val in zip(dct.keys, dct.values):
            if k is None:
                raise Fail('dict unpacking in type_suffixes')
            key = const(k, str)
            if key in seen:
                raise Fail('repeated key %r in type_suffixes' % key)
            seen.add(key)
            table.append((key, _str_list(val, 'type_suffixes[%r]' % key)))
        v['typeSuffixes'] = table
        # the three uses
        src = ast.unparse(main)
        for want in ("for suffix in set(type_suffixes.get(typ, []) + ['']):",
                     "allowed_names = [name + n for n in type_suffixes.get(typ, [''])]",
                     "sample = _parse_nh_sample(line, tuple(type_suffixes['histogram']))"):
            if want not in src:
                raise Fail('use of type_suffixes changed, missing: %s' % want)

    def suffix_checks():
        n1 = _if_raising(main, 'Counter-like samples cannot be NaN')
        t = n1.test
        rest = [ast.unparse(x) for x in t.values[1:]] if isinstance(t, ast.BoolOp) and isinstance(t.op, ast.And) else None
        if not (rest in (['math.isnan(sample.value)'], ['isinstance(sample.value, float)', 'math.isnan(sample.value)'])
                and isinstance(t.values[0], ast.Compare) and isinstance(t.values[0].ops[0], ast.In)
                and ast.unparse(t.values[0].left) == 'sample.name[len(name):]'):
            raise Fail('NaN check shape changed: %s' % ast.unparse(t))
        v['nanGuardsFloat'] = len(rest) == 2
        v['nanSuffixes'] = _str_list(t.values[0].comparators[0], 'NaN suffix list')
        n2 = _if_raising(main, 'Counter-like samples cannot be negative')
        t = n2.test
        if not (isinstance(t, ast.BoolOp) and isinstance(t.op, ast.And) and len(t.values) == 2
                and isinstance(t.values[0], ast.Compare) and isinstance(t.values[0].ops[0], ast.In)
                and ast.unparse(t.values[0].left) == 'sample.name[len(name):]'
                and ast.unparse(t.values[1]) == 'sample.value < 0'):
            raise Fail('negative-value check shape changed: %s' % ast.unparse(t))
        v['negSuffixes'] = _str_list(t.values[0].comparators[0], 'negative suffix list')

    def hist_ops():
        v['bucketOrderCmp'] = _find_compare(hist, 'b', 'bucket', 'bucket order')
        v['bucketValueCmp'] = _find_compare(hist, 's.value', 'value', 'bucket values')
        v['countCmp'] = _find_compare(hist, 'value', 'count', 'count vs +Inf')
        v['negBucketCmp'] = _find_compare(hist, 'b', '0', 'negative bucket')
        v['gsumNegCmp'] = _find_compare(hist, 's.value', '0', 'negative gsum')
        # the full tests around them (a weakened guard must not pass as the same operator)
        want = {
            'Buckets out of order': 'bucket is not None and b %s bucket' % PYOP[v['bucketOrderCmp']],
            'Bucket values out of order': 's.value %s value' % PYOP[v['bucketValueCmp']],
            'Count does not match': 'count is not None and value %s count' % PYOP[v['countCmp']],
            '+Inf bucket missing': "bucket != float('+Inf')",
            '_count must be present': 'has_sum and count is None',
            '_gcount must be present': 'has_gsum and count is None',
            '_sum/_gsum must be present': 'not (has_sum or has_gsum) and count is not None',
            'Cannot have _sum with negative': 'has_negative_buckets and has_sum',
            'Cannot have negative _gsum': 'not has_negative_buckets and has_negative_gsum',
        }
        for msg, test in want.items():
            n = _if_raising(hist, msg)
            if ast.unparse(n.test) != test:
                raise Fail('_check_histogram test for %r changed: %s' % (msg, ast.unparse(n.test)))
        src = ast.unparse(hist)
        for frag in ("if g != group or s.timestamp != timestamp:", "if suffix == '_bucket':",
                     "elif suffix in ['_count', '_gcount']:", "elif suffix in ['_sum']:", "elif suffix in ['_gsum']:",
                     "g = _group_for_sample(s, name, 'histogram')", "b = float(s.labels['le'])"):
            if frag not in src:
                raise Fail('_check_histogram changed, missing: %s' % frag)

    def exemplar_limit():
        n = _if_raising(rem, 'Exemplar labels are too long')
        t = n.test
        if not (isinstance(t, ast.Compare) and len(t.ops) == 1 and ast.unparse(t.left) == 'exemplar_length'):
            raise Fail('exemplar length test changed: %s' % ast.unparse(t))
        op = OPS.get(type(t.ops[0]))
        if op is None:
            raise Fail('exemplar length operator not understood')
        v['exemplarLenCmp'] = op
        v['exemplarMaxLen'] = const(t.comparators[0], int)
        if 'exemplar_length = sum((len(k) + len(v) for k, v in exemplar_labels.items()))' not in ast.unparse(rem):
            raise Fail('exemplar_length computation changed')

    def keywords():
        # if parts[1] == K1: … documentation = … elif parts[1] == K2: … typ = … elif parts[1] == K3: … unit = … else: raise
        chain = None
        for n in _ifs(main):
            if ast.unparse(n.test).startswith('parts[1] == ') and 'documentation = ' in ast.unparse(n.body[-1]):
                chain = n
        if chain is None:
            raise Fail('metadata keyword chain not found')
        kws = []
        n = chain
        while True:
            t = n.test
            if not (isinstance(t, ast.Compare) and ast.unparse(t.left) == 'parts[1]' and isinstance(t.ops[0], ast.Eq)):
                raise Fail('keyword test shape: %s' % ast.unparse(t))
            kws.append((const(t.comparators[0], str), ast.unparse(n)))
            if len(n.orelse) == 1 and isinstance(n.orelse[0], ast.If):
                n = n.orelse[0]
            else:
                if _raise_msg(n.orelse) is None:
                    raise Fail('keyword chain does not end in raise')
                break
        if len(kws) != 3:
            raise Fail('expected three metadata keywords, got %r' % [k for k, _ in kws])
        for (k, body), assign in zip(kws, ('documentation = _unescape_help(parts[3])', 'typ = parts[3]', 'unit = parts[3]')):
            if assign not in body:
                raise Fail('branch of keyword %r no longer assigns `%s`' % (k, assign))
        v['kwHelp'], v['kwType'], v['kwUnit'] = [k for k, _ in kws]
        # the "More than one …" tests: presence is `is not None` (an empty HELP / UNIT value counts as present)
        for word, var in (('HELP', 'documentation'), ('TYPE', 'typ'), ('UNIT', 'unit')):
            t = ast.unparse(_if_raising(main, 'More than one %s for metric' % word).test)
            if t == '%s is not None' % var:
                if var == 'unit':
                    v['unitDupByNone'] = True
            elif var == 'unit' and t == 'unit':
                v['unitDupByNone'] = False
            else:
                raise Fail('"More than one %s" test changed: %s' % (word, t))
        n = _if_raising(main, 'Invalid TYPE for metric')
        t = n.test
        if not (isinstance(t, ast.Compare) and ast.unparse(t.left) == 'typ' and isinstance(t.ops[0], ast.Eq)):
            raise Fail('untyped test changed')
        v['untyped'] = const(t.comparators[0], str)

    def value_checks():
        n = _if_raising(main, 'Info samples can only have value one')
        t = n.test
        if not (isinstance(t, ast.BoolOp) and isinstance(t.op, ast.And) and len(t.values) == 2
                and ast.unparse(t.values[0]) == "typ == 'info'" and isinstance(t.values[1], ast.Compare)
                and ast.unparse(t.values[1].left) == 'sample.value' and len(t.values[1].ops) == 1):
            raise Fail('info value test changed: %s' % ast.unparse(t))
        op = OPS.get(type(t.values[1].ops[0]))
        if op is None:
            raise Fail('info value operator not understood')
        v['infoCmp'] = op
        v['infoValue'] = const(t.values[1].comparators[0], int)
        n = _if_raising(main, 'Stateset samples can only have values zero and one')
        t = n.test
        if not (isinstance(t, ast.BoolOp) and isinstance(t.op, ast.And) and len(t.values) == 2
                and ast.unparse(t.values[0]) == "typ == 'stateset'" and isinstance(t.values[1], ast.Compare)
                and ast.unparse(t.values[1].left) == 'sample.value' and isinstance(t.values[1].ops[0], ast.NotIn)
                and isinstance(t.values[1].comparators[0], (ast.List, ast.Tuple))):
            raise Fail('stateset value test changed: %s' % ast.unparse(t))
        v['statesetValues'] = [const(e, int) for e in t.values[1].comparators[0].elts]
        n = _if_raising(main, 'Quantile values cannot be negative')
        t = n.test
        if not (isinstance(t, ast.BoolOp) and isinstance(t.op, ast.And) and len(t.values) == 3
                and ast.unparse(t.values[0]) == "typ == 'summary'" and ast.unparse(t.values[1]) == 'name == sample.name'
                and isinstance(t.values[2], ast.Compare) and ast.unparse(t.values[2].left) == 'sample.value'
                and ast.unparse(t.values[2].comparators[0]) == '0'):
            raise Fail('summary negative test changed: %s' % ast.unparse(t))
        v['summaryNegCmp'] = OPS[type(t.values[2].ops[0])]
        n = _if_raising(main, 'Units not allowed for this metric type')
        t = n.test
        if not (isinstance(t, ast.BoolOp) and isinstance(t.op, ast.And) and len(t.values) == 2
                and ast.unparse(t.values[0]) == 'unit' and isinstance(t.values[1], ast.Compare)
                and ast.unparse(t.values[1].left) == 'typ' and isinstance(t.values[1].ops[0], ast.In)):
            raise Fail('unit-forbidden test changed: %s' % ast.unparse(t))
        v['unitForbidden'] = _str_list(t.values[1].comparators[0], 'unit-forbidden types')
        n = _if_raising(main, 'Unit does not match metric name')
        if ast.unparse(n.test) != "unit and (not name.endswith('_' + unit))":
            raise Fail('unit suffix test changed: %s' % ast.unparse(n.test))
        n = _if_raising(main, 'Timestamps went backwards within a group')
        t = n.test
        if not (isinstance(t, ast.BoolOp) and isinstance(t.op, ast.And) and len(t.values) == 3
                and ast.unparse(t.values[0]) == 'group_timestamp is not None'
                and ast.unparse(t.values[1]) == 'group_timestamp > sample.timestamp'
                and isinstance(t.values[2], ast.Compare) and ast.unparse(t.values[2].left) == 'typ'
                and isinstance(t.values[2].ops[0], ast.NotEq)):
            raise Fail('timestamp order test changed: %s' % ast.unparse(t))
        v['tsOrderExempt'] = [const(t.values[2].comparators[0], str)]
        n = _if_raising(main, 'Mix of timestamp presence within a group')
        if ast.unparse(n.test) != '(sample.timestamp is None) != (group_timestamp is None)':
            raise Fail('timestamp presence test changed: %s' % ast.unparse(n.test))
        # histogram types in build_metric
        hits = [x for x in _ifs(main) if len(x.body) == 1 and ast.unparse(x.body[0]) == '_check_histogram(samples, name)']
        if len(hits) != 1 or not (isinstance(hits[0].test, ast.Compare) and ast.unparse(hits[0].test.left) == 'typ'
                                  and isinstance(hits[0].test.ops[0], ast.In)):
            raise Fail('_check_histogram call site changed')
        v['histTypes'] = _str_list(hits[0].test.comparators[0], 'histogram types')

    def eof_and_blank():
        # order and shape of the three line-level tests at the top of the loop
        loops = [n for n in main.body if isinstance(n, ast.For) and ast.unparse(n.target) == 'line']
        if len(loops) != 1:
            raise Fail('main loop not found')
        body = loops[0].body
        want = ["if line[-1] == '\\n':\n    line = line[:-1]",
                "if eof:\n    raise ValueError('Received line after # EOF: ' + line)",
                "if not line:\n    raise ValueError('Received blank line')"]
        got = [ast.unparse(x) for x in body[:3]]
        if got != want:
            raise Fail('head of the line loop changed: %s' % ' / '.join(g.replace('\n', ' ') for g in got))
        if not ast.unparse(body[3]).startswith("if line == '# EOF':\n    eof = True\nelif line.startswith('#'):"):
            raise Fail('EOF / metadata dispatch changed')
        tail = [ast.unparse(x) for x in main.body[-2:]]
        if tail != ["if name is not None:\n    yield build_metric(name, documentation, typ, unit, samples)",
                    "if not eof:\n    raise ValueError('Missing # EOF at end')"]:
            raise Fail('tail of the parser changed: %s' % ' / '.join(g.replace('\n', ' ') for g in tail))

    def guards():
        # _parse_nh_struct: the five look-ups, bare or inside try/except KeyError -> raise ValueError
        st = find_func(tree, '_parse_nh_struct')
        want = ["count_value = int(items['count'])", "sum_value = int(items['sum'])", "schema = int(items['schema'])",
                "zero_threshold = float(items['zero_threshold'])", "zero_count = int(items['zero_count'])"]
        tries = [n for n in st.body if isinstance(n, ast.Try)]
        bare = [ast.unparse(n) for n in st.body if isinstance(n, ast.Assign)]
        if len(tries) == 1 and [ast.unparse(x) for x in tries[0].body] == want:
            hs = tries[0].handlers
            if not (len(hs) == 1 and hs[0].type is not None and ast.unparse(hs[0].type) == 'KeyError'
                    and len(hs[0].body) == 1 and isinstance(hs[0].body[0], ast.Raise)
                    and ast.unparse(hs[0].body[0].exc).startswith('ValueError(') and not tries[0].orelse and not tries[0].finalbody):
                raise Fail('_parse_nh_struct: try/except shape not understood')
            v['nhStructCatchesKeyError'] = True
        elif not tries and all(w in bare for w in want):
            v['nhStructCatchesKeyError'] = False
        else:
            raise Fail('_parse_nh_struct: field look-ups changed')
        # main loop: `if is_nh: samples.append(sample); continue` before the stateset label test
        loop = [n for n in main.body if isinstance(n, ast.For) and ast.unparse(n.target) == 'line'][0]
        branch = loop.body[3]
        while isinstance(branch, ast.If) and branch.orelse and not (len(branch.orelse) == 1 and isinstance(branch.orelse[0], ast.If)):
            break
        # the sample branch is the final else of `if line == '# EOF' … elif line.startswith('#') … else`
        elif_ = branch.orelse[0] if len(branch.orelse) == 1 and isinstance(branch.orelse[0], ast.If) else None
        if elif_ is None:
            raise Fail('sample branch not found')
        body = elif_.orelse
        srcs = [ast.unparse(x) for x in body]
        skip = 'if is_nh:\n    samples.append(sample)\n    continue'
        first_check = [i for i, x in enumerate(srcs) if x.startswith("if typ == 'stateset' and name not in sample.labels:")]
        if len(first_check) != 1:
            raise Fail('stateset label test not found in the sample branch')
        if skip in srcs:
            if srcs.index(skip) != first_check[0] - 1:
                raise Fail('`if is_nh: …; continue` is not directly before the per-sample checks')
            v['nhSkipsChecks'] = True
        else:
            if any(x.startswith('if is_nh') for x in srcs):
                raise Fail('unexpected `if is_nh` statement in the sample branch')
            v['nhSkipsChecks'] = False
        # _parse_nh_sample: suffix test repeated after the name is taken from the labels
        ns = find_func(tree, '_parse_nh_sample')
        blocks = [n for n in ast.walk(ns) if isinstance(n, ast.If) and ast.unparse(n.test) == 'not name']
        if len(blocks) != 1:
            raise Fail('_parse_nh_sample: `if not name:` block not found')
        bs = [ast.unparse(x) for x in blocks[0].body]
        if "del labels['__name__']" not in bs:
            raise Fail("_parse_nh_sample: del labels['__name__'] not found")
        after = bs[bs.index("del labels['__name__']") + 1:]
        v['nhSuffixRecheck'] = bool(after) and after[0].startswith('if name.endswith(suffixes):\n    raise ValueError(')
        if any('endswith' in x for x in after[1:]):
            raise Fail('_parse_nh_sample: unexpected extra suffix test')
        # samples.Timestamp.__gt__ / __lt__
        smp = parse(repo, SOURCES[2])
        res = []
        for meth, op in (('__gt__', '>'), ('__lt__', '<')):
            f = find_func(smp, meth, cls='Timestamp')
            body_ = [ast.unparse(x) for x in f.body]
            last = 'return self.nsec %s other.nsec if self.sec == other.sec else self.sec %s other.sec' % (op, op)
            guard = 'if not isinstance(other, Timestamp):\n    return float(self) %s other' % op
            guard_try = ('if not isinstance(other, Timestamp):\n    try:\n        return float(self) %s other\n'
                         '    except OverflowError:\n        return self.sec %s other' % (op, op))
            via_float = ('try:\n    return float(self) %s float(other)\nexcept OverflowError:\n    return self.sec %s other' % (op, op))
            if body_ == [via_float]:
                res.append((True, True, True))
                continue
            if body_ == [guard_try, last]:
                res.append((True, True, False))
            elif body_ == [guard, last]:
                res.append((True, False, False))
            elif body_ == [last]:
                res.append((False, False, False))
            else:
                raise Fail('Timestamp.%s changed: %s' % (meth, ' / '.join(body_).replace('\n', ' ')))
        if res[0] != res[1]:
            raise Fail('Timestamp.__gt__ and __lt__ differ in their coercion')
        v['tsCoerce'], v['tsOverflowFallback'], v['tsCompareViaFloat'] = res[0]
        # _check_histogram: native histogram samples skipped at the top of the loop
        hloops = [n for n in hist.body if isinstance(n, ast.For) and ast.unparse(n.target) == 's']
        if len(hloops) != 1:
            raise Fail('_check_histogram: sample loop not found')
        first = ast.unparse(hloops[0].body[0])
        if first == 'if s.native_histogram is not None:\n    continue':
            v['histSkipsNh'] = True
        elif first == 'suffix = s.name[len(name):]':
            v['histSkipsNh'] = False
        else:
            raise Fail('_check_histogram: head of the sample loop changed: %s' % first.replace('\n', ' '))
        fl = find_func(smp, '__float__', cls='Timestamp')
        if [ast.unparse(x) for x in fl.body] != ['return float(self.sec) + float(self.nsec) / 1000000000.0']:
            raise Fail('Timestamp.__float__ changed')
        # the le test
        n = _if_raising(main, 'Invalid le label')
        t = ast.unparse(n.test)
        new = "name + '_bucket' == sample.name and (math.isnan(float(sample.labels.get('le', 'NaN'))) or _isUncanonicalNumber(sample.labels['le']))"
        old = "name + '_bucket' == sample.name and (sample.labels.get('le', 'NaN') == 'NaN' or _isUncanonicalNumber(sample.labels['le']))"
        if t == new:
            v['leNaNNumeric'] = True
        elif t == old:
            v['leNaNNumeric'] = False
        else:
            raise Fail('le test changed: %s' % t)

    def line_functions():
        pt = find_func(tree, '_parse_timestamp')
        inner = [n for n in ast.walk(pt) if isinstance(n, ast.Try) and any(ast.unparse(x).startswith('parts = ') for x in n.body)]
        if len(inner) != 1:
            raise Fail('_parse_timestamp: the aaaa.bbbb try block not found')
        body_ = [ast.unparse(x) for x in inner[0].body]
        old = ["parts = timestamp.split('.', 1)", "return Timestamp(int(parts[0]), int(parts[1][:9].ljust(9, '0')))"]
        new = ["parts = timestamp.split('.', 1)", 'sec = int(parts[0])', 'int(parts[1])',
               "if sec == 0 and parts[0].startswith('-'):\n    raise ValueError",
               "return Timestamp(sec, int(parts[1][:9].ljust(9, '0')))"]
        if body_ == new:
            v['tsFracStrict'] = True
        elif body_ == old:
            v['tsFracStrict'] = False
        else:
            raise Fail('_parse_timestamp: aaaa.bbbb branch changed: %s' % ' / '.join(body_).replace('\n', ' '))
        loops = [n for n in rem.body if isinstance(n, ast.For) and ast.unparse(n.target) == 'char']
        if len(loops) != 1:
            raise Fail('_parse_remaining_text: character loop not found')
        head = [ast.unparse(x) for x in loops[0].body[:3]]
        pre = [ast.unparse(x) for x in rem.body]
        if (head[0] == "if char == '\"' and (not escaped):\n    in_quotes = not in_quotes"
                and head[1] == "escaped = char == '\\\\' and (not escaped)" and head[2] == 'if in_quotes:\n    continue'
                and 'escaped = False' in pre):
            v['remEscapeAware'] = True
        elif head[0] == "if char == '\"':\n    in_quotes = not in_quotes" and head[1] == 'if in_quotes:\n    continue':
            v['remEscapeAware'] = False
        else:
            raise Fail('_parse_remaining_text: head of the character loop changed: %s' % ' / '.join(head).replace('\n', ' '))

    def metric_types():
        val = find_assign(core, 'METRIC_TYPES')
        v['metricTypes'] = _str_list(val, 'METRIC_TYPES')

    for fn in (type_suffixes, suffix_checks, hist_ops, exemplar_limit, keywords, value_checks, eof_and_blank, metric_types, guards, line_functions):
        site(fn)
    return _emit(not whys, v, whys)
