"""openmetrics/parser.py: the declarative part of the OpenMetrics parser.

  * `type_suffixes` (dict literal in `text_fd_to_metric_families`) and the three places it is applied
  * the suffix lists of the NaN / negative-value per-sample checks
  * the comparison operators (and operand order) of `_check_histogram`
  * the exemplar length limit (operator + constant) in `_parse_remaining_text`
  * the metadata keywords of the `parts[1] == …` chain
  * `!= 1` of the info check, `[0, 1]` of the stateset check, the unit-forbidden types, the type exempted from the
    timestamp-order check, `METRIC_TYPES` (metrics_core.py, enforced by `Metric.__init__` inside `build_metric`)
  * the regular-expression classes `\\w`, `\\s`, `\\d` of `_parse_nh_struct` as code point ranges of the running
    interpreter (an interpreter fact, like Generated/Unicode.lean)
"""
import ast
import re

from leanlit import *

TARGET = 'OMParse'
SOURCES = ['prometheus_client/openmetrics/parser.py', 'prometheus_client/metrics_core.py']

OPS = {ast.Lt: 'lt', ast.LtE: 'le', ast.Gt: 'gt', ast.GtE: 'ge', ast.Eq: 'eq', ast.NotEq: 'ne'}
PYOP = {'lt': '<', 'le': '<=', 'gt': '>', 'ge': '>=', 'eq': '==', 'ne': '!='}


def _ranges(pred):
    out, start = [], None
    for cp in range(0x110000):
        ok = False if 0xD800 <= cp <= 0xDFFF else pred(chr(cp))
        if ok and start is None:
            start = cp
        if not ok and start is not None:
            out.append((start, cp - 1)); start = None
    if start is not None:
        out.append((start, 0x10FFFF))
    return out


def _rangelit(rs):
    return '[' + ', '.join('(%d, %d)' % r for r in rs) + ']'


def _str_list(node, what):
    if not isinstance(node, (ast.List, ast.Tuple)):
        raise Fail('%s is not a list literal: %s' % (what, ast.unparse(node)[:80]))
    return [const(e, str) for e in node.elts]


def _find_compare(func, left, right, what):
    """the unique Compare node `left OP right` (single operator) inside func -> op name"""
    hits = []
    for n in ast.walk(func):
        if (isinstance(n, ast.Compare) and len(n.ops) == 1 and ast.unparse(n.left) == left
                and ast.unparse(n.comparators[0]) == right):
            hits.append(n)
    if len(hits) != 1:
        raise Fail('%s: expected exactly one comparison `%s ? %s`, found %d' % (what, left, right, len(hits)))
    op = OPS.get(type(hits[0].ops[0]))
    if op is None:
        raise Fail('%s: operator %s not understood' % (what, type(hits[0].ops[0]).__name__))
    return op


def _ifs(func):
    return [n for n in ast.walk(func) if isinstance(n, ast.If)]


def _raise_msg(body):
    """first string literal of `raise ValueError("…" + …)` as the body's only statement, else None"""
    if len(body) != 1 or not isinstance(body[0], ast.Raise) or body[0].exc is None:
        return None
    for n in ast.walk(body[0].exc):
        if isinstance(n, ast.Constant) and isinstance(n.value, str):
            return n.value
    return ''


def _if_raising(func, prefix):
    hits = [n for n in _ifs(func) if (_raise_msg(n.body) or '').startswith(prefix) and not n.orelse]
    if len(hits) != 1:
        raise Fail('expected exactly one `if …: raise ValueError(%r…)`, found %d' % (prefix, len(hits)))
    return hits[0]


DEFAULT = dict(
    typeSuffixes=[], nanSuffixes=[], negSuffixes=[], bucketOrderCmp='le', bucketValueCmp='lt', countCmp='ne',
    negBucketCmp='lt', gsumNegCmp='lt', exemplarMaxLen=0, exemplarLenCmp='gt', kwHelp='', kwType='', kwUnit='',
    infoCmp='ne', infoValue=0, statesetValues=[], unitForbidden=[], tsOrderExempt=[], metricTypes=[],
    histTypes=[], untyped='', summaryNegCmp='lt')


def _emit(ok, v, whys):
    out = header(TARGET, SOURCES)
    for w in whys:
        out += '-- EXTRACT-FAIL openmetrics.parser: %s\n' % w.replace('\n', ' ')
    out += 'inductive CmpOp | lt | le | gt | ge | eq | ne\nderiving Repr, DecidableEq\n'
    out += 'def extractOk : Bool := %s\n' % ('true' if ok else 'false')
    out += '/-- `type_suffixes` in `text_fd_to_metric_families`, in source order -/\n'
    out += 'def typeSuffixes : List (List Char × List (List Char)) := [\n'
    out += ',\n'.join('  (%s, %s)' % (chars(k), strlist(s)) for k, s in v['typeSuffixes']) + ']\n'
    out += '/-- `sample.name[len(name):] in [...] and math.isnan(sample.value)` -/\n'
    out += 'def nanSuffixes : List (List Char) := %s\n' % strlist(v['nanSuffixes'])
    out += '/-- `sample.name[len(name):] in [...] and sample.value < 0` -/\n'
    out += 'def negSuffixes : List (List Char) := %s\n' % strlist(v['negSuffixes'])
    out += '/-- `_check_histogram`: raise when `b OP bucket` (bucket = previous bound) -/\n'
    out += 'def bucketOrderCmp : CmpOp := .%s\n' % v['bucketOrderCmp']
    out += '/-- raise when `s.value OP value` (value = previous cumulative count) -/\n'
    out += 'def bucketValueCmp : CmpOp := .%s\n' % v['bucketValueCmp']
    out += '/-- raise when `count is not None and value OP count` -/\n'
    out += 'def countCmp : CmpOp := .%s\n' % v['countCmp']
    out += '/-- `b OP 0` sets has_negative_buckets; `s.value OP 0` on _gsum sets has_negative_gsum -/\n'
    out += 'def negBucketCmp : CmpOp := .%s\n' % v['negBucketCmp']
    out += 'def gsumNegCmp : CmpOp := .%s\n' % v['gsumNegCmp']
    out += '/-- `exemplar_length OP N` raises -/\n'
    out += 'def exemplarMaxLen : Nat := %d\n' % v['exemplarMaxLen']
    out += 'def exemplarLenCmp : CmpOp := .%s\n' % v['exemplarLenCmp']
    out += '/-- metadata keywords of the `parts[1] == …` chain (documentation / typ / unit branch) -/\n'
    out += 'def kwHelp : List Char := %s\n' % chars(v['kwHelp'])
    out += 'def kwType : List Char := %s\n' % chars(v['kwType'])
    out += 'def kwUnit : List Char := %s\n' % chars(v['kwUnit'])
    out += '/-- the TYPE value rejected on the TYPE line -/\n'
    out += 'def untypedName : List Char := %s\n' % chars(v['untyped'])
    out += "/-- `typ == 'info' and sample.value OP K` raises -/\n"
    out += 'def infoCmp : CmpOp := .%s\n' % v['infoCmp']
    out += 'def infoValue : Int := %d\n' % v['infoValue']
    out += "/-- `typ == 'stateset' and sample.value not in [...]` raises -/\n"
    out += 'def statesetValues : List Int := [%s]\n' % ', '.join(str(x) for x in v['statesetValues'])
    out += "/-- `typ == 'summary' and name == sample.name and sample.value OP 0` raises -/\n"
    out += 'def summaryNegCmp : CmpOp := .%s\n' % v['summaryNegCmp']
    out += '/-- `unit and typ in [...]` raises in build_metric -/\n'
    out += 'def unitForbidden : List (List Char) := %s\n' % strlist(v['unitForbidden'])
    out += '/-- `typ in [...]` runs _check_histogram in build_metric -/\n'
    out += 'def histTypes : List (List Char) := %s\n' % strlist(v['histTypes'])
    out += '/-- types for which `group_timestamp > sample.timestamp` does not raise (`and typ != …`) -/\n'
    out += 'def tsOrderExempt : List (List Char) := %s\n' % strlist(v['tsOrderExempt'])
    out += '/-- `metrics_core.METRIC_TYPES` (`Metric.__init__` raises ValueError for any other type) -/\n'
    out += 'def metricTypes : List (List Char) := %s\n' % strlist(v['metricTypes'])
    out += '/-- `re` classes of the running interpreter for str patterns: \\w, \\s, \\d (inclusive code point ranges) -/\n'
    out += 'def reWordRanges : List (Nat × Nat) := %s\n' % _rangelit(v.get('w', []))
    out += 'def reSpaceRanges : List (Nat × Nat) := %s\n' % _rangelit(v.get('s', []))
    out += 'def reDigitRanges : List (Nat × Nat) := %s\n' % _rangelit(v.get('d', []))
    return out + footer(TARGET)


def generate(repo):
    v = dict(DEFAULT)
    whys = []
    w, s, d = re.compile(r'\w'), re.compile(r'\s'), re.compile(r'\d')
    v['w'] = _ranges(lambda c: w.match(c) is not None)
    v['s'] = _ranges(lambda c: s.match(c) is not None)
    v['d'] = _ranges(lambda c: d.match(c) is not None)

    def site(fn):
        try:
            fn()
        except Fail as e:
            whys.append(str(e))
        except (IndexError, AttributeError, KeyError, TypeError, ValueError) as e:
            whys.append('%s: %s: %s' % (fn.__name__, type(e).__name__, e))

    try:
        tree = parse(repo, SOURCES[0])
        core = parse(repo, SOURCES[1])
        main = find_func(tree, 'text_fd_to_metric_families')
        hist = find_func(tree, '_check_histogram')
        rem = find_func(tree, '_parse_remaining_text')
    except Fail as e:
        return _emit(False, v, [str(e)])

    def type_suffixes():
        dct = find_assign(main, 'type_suffixes')
        if not isinstance(dct, ast.Dict):
            raise Fail('type_suffixes is not a dict literal')
        table, seen = [], set()
        for k, val in zip(dct.keys, dct.values):
            if k is None:
                raise Fail('dict unpacking in type_suffixes')
            key = const(k, str)
            if key in seen:
                raise Fail('repeated key %r in type_suffixes' % key)
            seen.add(key)
            table.append((key, _str_list(val, 'type_suffixes[%r]' % key)))
        v['typeSuffixes'] = table
        # the three uses
        src = ast.unparse(main)
        for want in ("for suffix in set(type_suffixes.get(typ, []) + ['']):",
                     "allowed_names = [name + n for n in type_suffixes.get(typ, [''])]",
                     "sample = _parse_nh_sample(line, tuple(type_suffixes['histogram']))"):
            if want not in src:
                raise Fail('use of type_suffixes changed, missing: %s' % want)

    def suffix_checks():
        n1 = _if_raising(main, 'Counter-like samples cannot be NaN')
        t = n1.test
        if not (isinstance(t, ast.BoolOp) and isinstance(t.op, ast.And) and len(t.values) == 2
                and isinstance(t.values[0], ast.Compare) and isinstance(t.values[0].ops[0], ast.In)
                and ast.unparse(t.values[0].left) == 'sample.name[len(name):]'
                and ast.unparse(t.values[1]) == 'math.isnan(sample.value)'):
            raise Fail('NaN check shape changed: %s' % ast.unparse(t))
        v['nanSuffixes'] = _str_list(t.values[0].comparators[0], 'NaN suffix list')
        n2 = _if_raising(main, 'Counter-like samples cannot be negative')
        t = n2.test
        if not (isinstance(t, ast.BoolOp) and isinstance(t.op, ast.And) and len(t.values) == 2
                and isinstance(t.values[0], ast.Compare) and isinstance(t.values[0].ops[0], ast.In)
                and ast.unparse(t.values[0].left) == 'sample.name[len(name):]'
                and ast.unparse(t.values[1]) == 'sample.value < 0'):
            raise Fail('negative-value check shape changed: %s' % ast.unparse(t))
        v['negSuffixes'] = _str_list(t.values[0].comparators[0], 'negative suffix list')

    def hist_ops():
        v['bucketOrderCmp'] = _find_compare(hist, 'b', 'bucket', 'bucket order')
        v['bucketValueCmp'] = _find_compare(hist, 's.value', 'value', 'bucket values')
        v['countCmp'] = _find_compare(hist, 'value', 'count', 'count vs +Inf')
        v['negBucketCmp'] = _find_compare(hist, 'b', '0', 'negative bucket')
        v['gsumNegCmp'] = _find_compare(hist, 's.value', '0', 'negative gsum')
        # the full tests around them (a weakened guard must not pass as the same operator)
        want = {
            'Buckets out of order': 'bucket is not None and b %s bucket' % PYOP[v['bucketOrderCmp']],
            'Bucket values out of order': 's.value %s value' % PYOP[v['bucketValueCmp']],
            'Count does not match': 'count is not None and value %s count' % PYOP[v['countCmp']],
            '+Inf bucket missing': "bucket != float('+Inf')",
            '_count must be present': 'has_sum and count is None',
            '_gcount must be present': 'has_gsum and count is None',
            '_sum/_gsum must be present': 'not (has_sum or has_gsum) and count is not None',
            'Cannot have _sum with negative': 'has_negative_buckets and has_sum',
            'Cannot have negative _gsum': 'not has_negative_buckets and has_negative_gsum',
        }
        for msg, test in want.items():
            n = _if_raising(hist, msg)
            if ast.unparse(n.test) != test:
                raise Fail('_check_histogram test for %r changed: %s' % (msg, ast.unparse(n.test)))
        src = ast.unparse(hist)
        for frag in ("if g != group or s.timestamp != timestamp:", "if suffix == '_bucket':",
                     "elif suffix in ['_count', '_gcount']:", "elif suffix in ['_sum']:", "elif suffix in ['_gsum']:",
                     "g = _group_for_sample(s, name, 'histogram')", "b = float(s.labels['le'])"):
            if frag not in src:
                raise Fail('_check_histogram changed, missing: %s' % frag)

    def exemplar_limit():
        n = _if_raising(rem, 'Exemplar labels are too long')
        t = n.test
        if not (isinstance(t, ast.Compare) and len(t.ops) == 1 and ast.unparse(t.left) == 'exemplar_length'):
            raise Fail('exemplar length test changed: %s' % ast.unparse(t))
        op = OPS.get(type(t.ops[0]))
        if op is None:
            raise Fail('exemplar length operator not understood')
        v['exemplarLenCmp'] = op
        v['exemplarMaxLen'] = const(t.comparators[0], int)
        if 'exemplar_length = sum((len(k) + len(v) for k, v in exemplar_labels.items()))' not in ast.unparse(rem):
            raise Fail('exemplar_length computation changed')

    def keywords():
        # if parts[1] == K1: … documentation = … elif parts[1] == K2: … typ = … elif parts[1] == K3: … unit = … else: raise
        chain = None
        for n in _ifs(main):
            if ast.unparse(n.test).startswith('parts[1] == ') and 'documentation = ' in ast.unparse(n.body[-1]):
                chain = n
        if chain is None:
            raise Fail('metadata keyword chain not found')
        kws = []
        n = chain
        while True:
            t = n.test
            if not (isinstance(t, ast.Compare) and ast.unparse(t.left) == 'parts[1]' and isinstance(t.ops[0], ast.Eq)):
                raise Fail('keyword test shape: %s' % ast.unparse(t))
            kws.append((const(t.comparators[0], str), ast.unparse(n)))
            if len(n.orelse) == 1 and isinstance(n.orelse[0], ast.If):
                n = n.orelse[0]
            else:
                if _raise_msg(n.orelse) is None:
                    raise Fail('keyword chain does not end in raise')
                break
        if len(kws) != 3:
            raise Fail('expected three metadata keywords, got %r' % [k for k, _ in kws])
        for (k, body), assign in zip(kws, ('documentation = _unescape_help(parts[3])', 'typ = parts[3]', 'unit = parts[3]')):
            if assign not in body:
                raise Fail('branch of keyword %r no longer assigns `%s`' % (k, assign))
        v['kwHelp'], v['kwType'], v['kwUnit'] = [k for k, _ in kws]
        n = _if_raising(main, 'Invalid TYPE for metric')
        t = n.test
        if not (isinstance(t, ast.Compare) and ast.unparse(t.left) == 'typ' and isinstance(t.ops[0], ast.Eq)):
            raise Fail('untyped test changed')
        v['untyped'] = const(t.comparators[0], str)

    def value_checks():
        n = _if_raising(main, 'Info samples can only have value one')
        t = n.test
        if not (isinstance(t, ast.BoolOp) and isinstance(t.op, ast.And) and len(t.values) == 2
                and ast.unparse(t.values[0]) == "typ == 'info'" and isinstance(t.values[1], ast.Compare)
                and ast.unparse(t.values[1].left) == 'sample.value' and len(t.values[1].ops) == 1):
            raise Fail('info value test changed: %s' % ast.unparse(t))
        op = OPS.get(type(t.values[1].ops[0]))
        if op is None:
            raise Fail('info value operator not understood')
        v['infoCmp'] = op
        v['infoValue'] = const(t.values[1].comparators[0], int)
        n = _if_raising(main, 'Stateset samples can only have values zero and one')
        t = n.test
        if not (isinstance(t, ast.BoolOp) and isinstance(t.op, ast.And) and len(t.values) == 2
                and ast.unparse(t.values[0]) == "typ == 'stateset'" and isinstance(t.values[1], ast.Compare)
                and ast.unparse(t.values[1].left) == 'sample.value' and isinstance(t.values[1].ops[0], ast.NotIn)
                and isinstance(t.values[1].comparators[0], (ast.List, ast.Tuple))):
            raise Fail('stateset value test changed: %s' % ast.unparse(t))
        v['statesetValues'] = [const(e, int) for e in t.values[1].comparators[0].elts]
        n = _if_raising(main, 'Quantile values cannot be negative')
        t = n.test
        if not (isinstance(t, ast.BoolOp) and isinstance(t.op, ast.And) and len(t.values) == 3
                and ast.unparse(t.values[0]) == "typ == 'summary'" and ast.unparse(t.values[1]) == 'name == sample.name'
                and isinstance(t.values[2], ast.Compare) and ast.unparse(t.values[2].left) == 'sample.value'
                and ast.unparse(t.values[2].comparators[0]) == '0'):
            raise Fail('summary negative test changed: %s' % ast.unparse(t))
        v['summaryNegCmp'] = OPS[type(t.values[2].ops[0])]
        n = _if_raising(main, 'Units not allowed for this metric type')
        t = n.test
        if not (isinstance(t, ast.BoolOp) and isinstance(t.op, ast.And) and len(t.values) == 2
                and ast.unparse(t.values[0]) == 'unit' and isinstance(t.values[1], ast.Compare)
                and ast.unparse(t.values[1].left) == 'typ' and isinstance(t.values[1].ops[0], ast.In)):
            raise Fail('unit-forbidden test changed: %s' % ast.unparse(t))
        v['unitForbidden'] = _str_list(t.values[1].comparators[0], 'unit-forbidden types')
        n = _if_raising(main, 'Unit does not match metric name')
        if ast.unparse(n.test) != "unit and (not name.endswith('_' + unit))":
            raise Fail('unit suffix test changed: %s' % ast.unparse(n.test))
        n = _if_raising(main, 'Timestamps went backwards within a group')
        t = n.test
        if not (isinstance(t, ast.BoolOp) and isinstance(t.op, ast.And) and len(t.values) == 3
                and ast.unparse(t.values[0]) == 'group_timestamp is not None'
                and ast.unparse(t.values[1]) == 'group_timestamp > sample.timestamp'
                and isinstance(t.values[2], ast.Compare) and ast.unparse(t.values[2].left) == 'typ'
                and isinstance(t.values[2].ops[0], ast.NotEq)):
            raise Fail('timestamp order test changed: %s' % ast.unparse(t))
        v['tsOrderExempt'] = [const(t.values[2].comparators[0], str)]
        n = _if_raising(main, 'Mix of timestamp presence within a group')
        if ast.unparse(n.test) != '(sample.timestamp is None) != (group_timestamp is None)':
            raise Fail('timestamp presence test changed: %s' % ast.unparse(n.test))
        # histogram types in build_metric
        hits = [x for x in _ifs(main) if len(x.body) == 1 and ast.unparse(x.body[0]) == '_check_histogram(samples, name)']
        if len(hits) != 1 or not (isinstance(hits[0].test, ast.Compare) and ast.unparse(hits[0].test.left) == 'typ'
                                  and isinstance(hits[0].test.ops[0], ast.In)):
            raise Fail('_check_histogram call site changed')
        v['histTypes'] = _str_list(hits[0].test.comparators[0], 'histogram types')

    def eof_and_blank():
        # order and shape of the three line-level tests at the top of the loop
        loops = [n for n in main.body if isinstance(n, ast.For) and ast.unparse(n.target) == 'line']
        if len(loops) != 1:
            raise Fail('main loop not found')
        body = loops[0].body
        want = ["if line[-1] == '\\n':\n    line = line[:-1]",
                "if eof:\n    raise ValueError('Received line after # EOF: ' + line)",
                "if not line:\n    raise ValueError('Received blank line')"]
        got = [ast.unparse(x) for x in body[:3]]
        if got != want:
            raise Fail('head of the line loop changed: %s' % ' / '.join(g.replace('\n', ' ') for g in got))
        if not ast.unparse(body[3]).startswith("if line == '# EOF':\n    eof = True\nelif line.startswith('#'):"):
            raise Fail('EOF / metadata dispatch changed')
        tail = [ast.unparse(x) for x in main.body[-2:]]
        if tail != ["if name is not None:\n    yield build_metric(name, documentation, typ, unit, samples)",
                    "if not eof:\n    raise ValueError('Missing # EOF at end')"]:
            raise Fail('tail of the parser changed: %s' % ' / '.join(g.replace('\n', ' ') for g in tail))

    def metric_types():
        val = find_assign(core, 'METRIC_TYPES')
        v['metricTypes'] = _str_list(val, 'METRIC_TYPES')

    for fn in (type_suffixes, suffix_checks, hist_ops, exemplar_limit, keywords, value_checks, eof_and_blank, metric_types):
        site(fn)
    return _emit(not whys, v, whys)
