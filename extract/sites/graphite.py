"""bridge/graphite.py: the `_INVALID_GRAPHITE_CHARS` class, the replacement character, separators and the line format."""
import ast
import re
from leanlit import *

TARGET = 'Graphite'
SOURCES = ['prometheus_client/bridge/graphite.py']

# expressions the model knows how to evaluate inside the line f-string
KNOWN_EXPRS = ('prefixstr', '_sanitize(s.name)', 'labelstr', 'float(s.value)', 'now')


def parse_class(body):
    out = []
    i = 0
    while i < len(body):
        if body[i] == '\\':
            raise Fail('escape in character class')
        if i + 2 < len(body) and body[i + 1] == '-':
            out.append((body[i], body[i + 2])); i += 3
        else:
            out.append((body[i], body[i])); i += 1
    return out


def ranges(rs):
    return '[' + ', '.join('(%s, %s)' % (ch(a), ch(b)) for a, b in rs) + ']'


def fmt_mid(s):
    m = re.fullmatch(r'\{0\}(.*)\{1\}', s, flags=re.S)
    if not m:
        raise Fail('label format %r is not {0}<mid>{1}' % s)
    return m.group(1)


def generate(repo):
    out = header(TARGET, SOURCES)
    ok, why = True, ''
    v = dict(allowed=[], repl='_', prefixSep='', tagsSep='', tagsMid='', plainSep='', plainMid='', fmt=[],
             sanK=False, sanV=False)
    try:
        tree = parse(repo, SOURCES[0])
        c = find_assign(tree, '_INVALID_GRAPHITE_CHARS')
        if not (isinstance(c, ast.Call) and ast.unparse(c.func) == 're.compile' and len(c.args) == 1):
            raise Fail('_INVALID_GRAPHITE_CHARS is not re.compile(<literal>)')
        pat = const(c.args[0], str)
        m = re.fullmatch(r'\[\^([^\]]+)\]', pat)
        if not m:
            raise Fail('pattern %r is not a single negated class' % pat)
        v['allowed'] = parse_class(m.group(1))
        f = find_func(tree, '_sanitize')
        ret = [n for n in f.body if isinstance(n, ast.Return)]
        if len(ret) != 1 or not (isinstance(ret[0].value, ast.Call) and
                                 ast.unparse(ret[0].value.func) == '_INVALID_GRAPHITE_CHARS.sub' and
                                 len(ret[0].value.args) == 2 and ast.unparse(ret[0].value.args[1]) == 's'):
            raise Fail('_sanitize is not _INVALID_GRAPHITE_CHARS.sub(<literal>, s)')
        v['repl'] = const(ret[0].value.args[0], str)
        push = find_func(tree, 'push', cls='GraphiteBridge')
        # prefixstr = prefix + '.'
        pa = None
        for n in ast.walk(push):
            if isinstance(n, ast.Assign) and ast.unparse(n.targets[0]) == 'prefixstr' and isinstance(n.value, ast.BinOp):
                if ast.unparse(n.value.left) != 'prefix' or not isinstance(n.value.op, ast.Add):
                    raise Fail('prefixstr is not prefix + <literal>')
                pa = const(n.value.right, str)
        if pa is None:
            raise Fail('prefixstr = prefix + <literal> not found')
        v['prefixSep'] = pa
        # if self._tags: sep = ';'; fmt = '{0}={1}' else: sep = '.'; fmt = '{0}.{1}'
        tg = None
        for n in ast.walk(push):
            if isinstance(n, ast.If) and ast.unparse(n.test) == 'self._tags':
                tg = n
        if tg is None:
            raise Fail('if self._tags not found')

        def branch(body):
            d = {}
            for st in body:
                if not (isinstance(st, ast.Assign) and isinstance(st.targets[0], ast.Name)):
                    raise Fail('tags branch statement: ' + ast.unparse(st))
                d[st.targets[0].id] = const(st.value, str)
            if set(d) != {'sep', 'fmt'}:
                raise Fail('tags branch assigns %s' % sorted(d))
            return d['sep'], fmt_mid(d['fmt'])
        v['tagsSep'], v['tagsMid'] = branch(tg.body)
        v['plainSep'], v['plainMid'] = branch(tg.orelse)
        # labelstr = sep + sep.join([fmt.format(_sanitize(k), _sanitize(v)) for k, v in sorted(s.labels.items())])
        la = None
        for n in ast.walk(push):
            if isinstance(n, ast.Assign) and ast.unparse(n.targets[0]) == 'labelstr' and isinstance(n.value, ast.BinOp):
                la = n.value
        if la is None or ast.unparse(la.left) != 'sep' or not ast.unparse(la.right).startswith('sep.join('):
            raise Fail('labelstr = sep + sep.join(...) not found')
        fc = [n for n in ast.walk(la) if isinstance(n, ast.Call) and ast.unparse(n.func) == 'fmt.format']
        if len(fc) != 1 or len(fc[0].args) != 2:
            raise Fail('fmt.format(<k>, <v>) not found')
        v['sanK'] = ast.unparse(fc[0].args[0]) == '_sanitize(k)'
        v['sanV'] = ast.unparse(fc[0].args[1]) == '_sanitize(v)'
        if ast.unparse(fc[0].args[0]) not in ('_sanitize(k)', 'k') or ast.unparse(fc[0].args[1]) not in ('_sanitize(v)', 'v'):
            raise Fail('label format arguments: ' + ast.unparse(fc[0]))
        comp = [n for n in ast.walk(la) if isinstance(n, ast.ListComp)]
        if len(comp) != 1 or ast.unparse(comp[0].generators[0].iter) != 'sorted(s.labels.items())':
            raise Fail('labels are not iterated as sorted(s.labels.items())')
        # output.append(f'{prefixstr}{_sanitize(s.name)}{labelstr} {float(s.value)} {now}\n')
        js = None
        for n in ast.walk(push):
            if (isinstance(n, ast.Call) and ast.unparse(n.func) == 'output.append' and len(n.args) == 1
                    and isinstance(n.args[0], ast.JoinedStr)):
                js = n.args[0]
        if js is None:
            raise Fail('output.append(f"...") not found')
        for part in js.values:
            if isinstance(part, ast.Constant):
                v['fmt'].append((True, part.value))
            elif isinstance(part, ast.FormattedValue) and part.format_spec is None and part.conversion == -1:
                src = ast.unparse(part.value)
                if src not in KNOWN_EXPRS:
                    raise Fail('line format expression %r unknown to the model' % src)
                v['fmt'].append((False, src))
            else:
                raise Fail('line format part: ' + ast.dump(part)[:80])
        # now = int(self._timer())
        nw = [n for n in ast.walk(push) if isinstance(n, ast.Assign) and ast.unparse(n.targets[0]) == 'now']
        if len(nw) != 1 or not ast.unparse(nw[0].value).startswith('int('):
            raise Fail('now = int(...) not found')
    except Fail as e:
        ok, why = False, str(e)
        v = dict(allowed=[], repl='_', prefixSep='', tagsSep='', tagsMid='', plainSep='', plainMid='', fmt=[],
                 sanK=False, sanV=False)
    if not ok:
        out += '-- EXTRACT-FAIL graphite: %s\n' % why
    out += 'def extractOk : Bool := %s\n' % ('true' if ok else 'false')
    out += '/-- characters `_INVALID_GRAPHITE_CHARS` does NOT match (the class is negated), as code point ranges -/\n'
    out += 'def allowedClass : List (Char × Char) := %s\n' % ranges(v['allowed'])
    out += '/-- what `_sanitize` substitutes for every other character -/\n'
    out += 'def replacement : List Char := %s\n' % chars(v['repl'])
    out += 'def prefixSep : List Char := %s\n' % chars(v['prefixSep'])
    out += '/-- `sep` and the text between `{0}` and `{1}` of `fmt`, with and without tags -/\n'
    out += 'def tagsSep : List Char := %s\n' % chars(v['tagsSep'])
    out += 'def tagsMid : List Char := %s\n' % chars(v['tagsMid'])
    out += 'def plainSep : List Char := %s\n' % chars(v['plainSep'])
    out += 'def plainMid : List Char := %s\n' % chars(v['plainMid'])
    out += '/-- are label names / label values passed through `_sanitize` -/\n'
    out += 'def sanitizesLabelName : Bool := %s\n' % ('true' if v['sanK'] else 'false')
    out += 'def sanitizesLabelValue : Bool := %s\n' % ('true' if v['sanV'] else 'false')
    out += '/-- the line f-string: (true, literal text) | (false, source of the interpolated expression) -/\n'
    out += 'def lineFormat : List (Bool × List Char) := [%s]\n' % ', '.join(
        '(%s, %s)' % ('true' if lit else 'false', chars(t)) for lit, t in v['fmt'])
    return out + footer(TARGET)
