"""mmap_dict: sizes, struct formats, padding arithmetic (reader and writer separately), scan constants and the ORDER OF
FILE EFFECTS of `MmapedDict.__init__`, `_init_value`, `write_value` and the two `_pack_*` helpers.

Everything here is syntactic, so it reacts to exactly the edits C10/C11's measured mutations make: publishing the header
before the entry changes `initValueEffects`; a different padding expression changes `padCountWriter`/`paddedLenReader`;
`if` for `while` in the growth loop changes `growKind`.
"""
import ast
from leanlit import *

TARGET = 'Mmap'
SOURCES = ['prometheus_client/mmap_dict.py', 'prometheus_client/multiprocess.py']

STRUCT_WIDTH = {'i': 4, 'd': 8}     # native sizes of the two struct codes the module uses (trusted: CPython struct, x86-64/aarch64)

EFF_DECL = '''/-- tags of the file effects (and of the one nested call) in source order -/
inductive Eff
  | openFile | truncateInitial | truncateGrow | remap | growLoop | writeEntry | writeHeader | writeValue | callInitValue
deriving DecidableEq, Repr
/-- how the capacity growth in `_init_value` is iterated -/
inductive GrowKind | whileLoop | ifOnce | absent
deriving DecidableEq, Repr
'''

# On an unexpected shape the site is reported (EXTRACT-FAIL, extractOk := false: the proof obligations count as broken) and
# every definition not yet extracted keeps the value of the reference layout below — NOT zeros: the driver must stay a
# terminating, sensible model (zero skips / growth factor would make its loops spin), so that the correspondence run and the
# independent oracle can still produce the failing input.
DEFAULTS = dict(initialMmapSize=65536, intFmt='i', twoDoublesFmt='dd', intWidth=4, twoDoublesWidth=16,
                readerExpr='((e : Int) + ((8 : Int) - (((e : Int) + (4 : Int)) % (8 : Int))))',
                writerExpr='((8 : Int) - (((e : Int) + (4 : Int)) % (8 : Int)))', padByte=32, scanStart=8, lenFieldSkip=4,
                valueSkip=16, headerPos=0, freshUsed=8, growFactor=2, positionBack=16, growKind='whileLoop',
                ctorEffects=['openFile', 'truncateInitial', 'remap', 'writeHeader'],
                initValueEffects=['growLoop', 'writeEntry', 'writeHeader'], growBody=['truncateGrow', 'remap'],
                writeValueEffects=['callInitValue', 'writeValue'], packIntegerSlice=4, packTwoDoublesSlice=16,
                readerUsesHeaderBound=True, shortFileGuard=4, entryPacksDoubles=True, entryReserve=0,
                vanishCaught='FileNotFoundError', vanishTyp='gauge', vanishModePrefix='live', vanishReraises=True,
                removeTyp='gauge', removeModePrefix='live')


class IntExpr:
    """translate a Python integer expression into a Lean `Int` expression over the single variable `e`"""

    def __init__(self, var_pred):
        self.var_pred = var_pred

    def tr(self, n):
        if isinstance(n, ast.Constant) and isinstance(n.value, int) and not isinstance(n.value, bool):
            return '(%d : Int)' % n.value if n.value >= 0 else '(-%d : Int)' % -n.value
        if self.var_pred(n):
            return '(e : Int)'
        if isinstance(n, ast.BinOp):
            ops = {ast.Add: '+', ast.Sub: '-', ast.Mult: '*', ast.FloorDiv: '/', ast.Mod: '%'}
            if type(n.op) in ops:
                # Lean's Int `/` and `%` are floor division / non-negative remainder for a positive divisor, as Python's
                if isinstance(n.op, (ast.FloorDiv, ast.Mod)):
                    if not (isinstance(n.right, ast.Constant) and isinstance(n.right.value, int) and n.right.value > 0):
                        raise Fail('division by a non-literal or non-positive divisor: %s' % ast.unparse(n))
                return '(%s %s %s)' % (self.tr(n.left), ops[type(n.op)], self.tr(n.right))
            if isinstance(n.op, ast.LShift) and isinstance(n.right, ast.Constant):
                return '(%s * (%d : Int))' % (self.tr(n.left), 2 ** n.right.value)
        if isinstance(n, ast.UnaryOp) and isinstance(n.op, ast.USub):
            return '(- %s)' % self.tr(n.operand)
        raise Fail('integer expression not understood: %s' % ast.unparse(n))


def int_const(n):
    """value of a constant integer expression such as `1 << 16`"""
    if isinstance(n, ast.Constant) and isinstance(n.value, int):
        return n.value
    if isinstance(n, ast.BinOp):
        l, r = int_const(n.left), int_const(n.right)
        if isinstance(n.op, ast.LShift): return l << r
        if isinstance(n.op, ast.Mult): return l * r
        if isinstance(n.op, ast.Add): return l + r
        if isinstance(n.op, ast.Sub): return l - r
        if isinstance(n.op, ast.Pow): return l ** r
    raise Fail('constant integer expected: %s' % ast.unparse(n))


def struct_fmt(tree, name):
    """X = struct.Struct(b'fmt').pack / .unpack_from  ->  'fmt'"""
    v = find_assign(tree, name)
    if not (isinstance(v, ast.Attribute) and isinstance(v.value, ast.Call) and ast.unparse(v.value.func) == 'struct.Struct'
            and len(v.value.args) == 1):
        raise Fail('%s is not struct.Struct(fmt).<method>' % name)
    f = const(v.value.args[0])
    if isinstance(f, bytes): f = f.decode('ascii')
    if not isinstance(f, str) or any(c not in STRUCT_WIDTH for c in f):
        raise Fail('%s: struct format %r not understood' % (name, f))
    return f


def calls_in(node):
    return [n for n in ast.walk(node) if isinstance(n, ast.Call)]


def stmt_effects(st, where):
    """file-effect tags of one statement, in evaluation order (nested blocks handled by the callers)"""
    out = []
    for c in sorted(calls_in(st), key=lambda c: (c.lineno, c.col_offset)):
        fn = ast.unparse(c.func)
        if fn == 'open': out.append('openFile')
        elif fn.endswith('.truncate'): out.append('truncateInitial' if where == 'ctor' else 'truncateGrow')
        elif fn == 'mmap.mmap': out.append('remap')
        elif fn == '_pack_integer':
            if not (len(c.args) == 3 and ast.unparse(c.args[0]) == 'self._m' and int_const(c.args[1]) == 0):
                raise Fail('_pack_integer call is not (self._m, 0, …): %s' % ast.unparse(c))
            out.append('writeHeader')
        elif fn == '_pack_two_doubles':
            if not (len(c.args) == 4 and ast.unparse(c.args[0]) == 'self._m' and ast.unparse(c.args[1]) == 'pos'):
                raise Fail('_pack_two_doubles call is not (self._m, pos, …): %s' % ast.unparse(c))
            out.append('writeValue')
        elif fn == 'self._init_value': out.append('callInitValue')
        elif fn in ('struct.pack_into', 'pack_into') or fn.endswith('.pack_into') or fn.endswith('.write') or fn.endswith('.seek'):
            raise Fail('unexpected file effect %s' % ast.unparse(c))
    # slice stores into the map
    for n in ast.walk(st):
        if isinstance(n, (ast.Assign, ast.AugAssign)):
            tg = n.targets if isinstance(n, ast.Assign) else [n.target]
            for t in tg:
                if isinstance(t, ast.Subscript) and ast.unparse(t.value) == 'self._m':
                    if not (isinstance(t.slice, ast.Slice) and t.slice.lower is not None and ast.unparse(t.slice.lower) == 'self._used'):
                        raise Fail('store into the map at an unexpected position: %s' % ast.unparse(t))
                    out.append('writeEntry')
    return out


def helper_slice_width(tree, name):
    """`def _pack_x(data, pos, …): data[pos:pos + N] = f(…)` -> N; anything else (pack_into, two stores, …) fails"""
    f = find_func(tree, name)
    body = [s for s in f.body if not (isinstance(s, ast.Expr) and isinstance(s.value, ast.Constant))]
    if len(body) != 1 or not isinstance(body[0], ast.Assign) or len(body[0].targets) != 1:
        raise Fail('%s is not a single slice assignment' % name)
    t = body[0].targets[0]
    if not (isinstance(t, ast.Subscript) and ast.unparse(t.value) == 'data' and isinstance(t.slice, ast.Slice)
            and ast.unparse(t.slice.lower) == 'pos' and isinstance(t.slice.upper, ast.BinOp)
            and isinstance(t.slice.upper.op, ast.Add) and ast.unparse(t.slice.upper.left) == 'pos' and t.slice.step is None):
        raise Fail('%s: target is not data[pos:pos + N]' % name)
    return int_const(t.slice.upper.right)


def _emit(ok, v, why=''):
    out = header(TARGET, SOURCES)
    if not ok:
        out += '-- EXTRACT-FAIL mmap_dict: %s\n' % why.replace('\n', ' ')
    out += EFF_DECL
    out += 'def extractOk : Bool := %s\n' % ('true' if ok else 'false')
    for k in ('initialMmapSize', 'intWidth', 'twoDoublesWidth', 'padByte', 'scanStart', 'lenFieldSkip', 'valueSkip',
              'headerPos', 'freshUsed', 'growFactor', 'positionBack', 'packIntegerSlice', 'packTwoDoublesSlice'):
        out += 'def %s : Nat := %d\n' % (k, v[k])
    out += 'def intFmt : List Char := %s\n' % chars(v['intFmt'])
    out += 'def twoDoublesFmt : List Char := %s\n' % chars(v['twoDoublesFmt'])
    out += '/-- `padded_len` in `_read_all_values`, as a function of `encoded_len` -/\n'
    out += 'def paddedLenReader (e : Nat) : Nat := (%s).toNat\n' % v['readerExpr']
    out += '/-- the number of pad bytes `_init_value` appends, as a function of `len(encoded)` -/\n'
    out += 'def padCountWriter (e : Nat) : Nat := (%s).toNat\n' % v['writerExpr']
    out += 'def readerUsesHeaderBound : Bool := %s\n' % ('true' if v['readerUsesHeaderBound'] else 'false')
    out += '/-- `if len(data) < N: return iter(())` before the header is unpacked in `read_all_values_from_file` (none = no such guard) -/\n'
    out += 'def shortFileGuard : Option Nat := %s\n' % ('none' if v['shortFileGuard'] is None else 'some %d' % v['shortFileGuard'])
    out += '/-- `_read_metrics`: `except <vanishCaught>: if typ == <vanishTyp> and parts[1].startswith(<vanishModePrefix>): continue; raise` -/\n'
    for k in ('vanishCaught', 'vanishTyp', 'vanishModePrefix'):
        out += 'def %s : List Char := %s\n' % (k, chars(v[k]))
    out += 'def vanishReraises : Bool := %s\n' % ('true' if v['vanishReraises'] else 'false')
    out += '/-- `mark_process_dead` removes `<removeTyp>_{mode}_{pid}.db` for the modes that start with <removeModePrefix> -/\n'
    for k in ('removeTyp', 'removeModePrefix'):
        out += 'def %s : List Char := %s\n' % (k, chars(v[k]))
    out += '/-- does `_init_value` pack the two zero doubles into the entry it writes (false: it writes length, key and padding only and\n'
    out += 'counts `entryReserve` further bytes as used without writing them) -/\n'
    out += 'def entryPacksDoubles : Bool := %s\n' % ('true' if v['entryPacksDoubles'] else 'false')
    out += 'def entryReserve : Nat := %d\n' % v['entryReserve']
    out += 'def growKind : GrowKind := .%s\n' % v['growKind']
    for k in ('ctorEffects', 'initValueEffects', 'growBody', 'writeValueEffects'):
        out += 'def %s : List Eff := [%s]\n' % (k, ', '.join('.' + t for t in v[k]))
    return out + footer(TARGET)


def generate(repo):
    v = dict(DEFAULTS)
    try:
        tree = parse(repo, SOURCES[0])
        v['initialMmapSize'] = int_const(find_assign(tree, '_INITIAL_MMAP_SIZE'))
        fi, fd = struct_fmt(tree, '_pack_integer_func'), struct_fmt(tree, '_pack_two_doubles_func')
        if struct_fmt(tree, '_unpack_integer') != fi or struct_fmt(tree, '_unpack_two_doubles') != fd:
            raise Fail('pack and unpack formats differ')
        v['intFmt'], v['twoDoublesFmt'] = fi, fd
        v['intWidth'] = sum(STRUCT_WIDTH[c] for c in fi)
        v['twoDoublesWidth'] = sum(STRUCT_WIDTH[c] for c in fd)
        v['packIntegerSlice'] = helper_slice_width(tree, '_pack_integer')
        v['packTwoDoublesSlice'] = helper_slice_width(tree, '_pack_two_doubles')

        # ---- reader: _read_all_values
        rd = find_func(tree, '_read_all_values')
        v['scanStart'] = int_const(find_assign(rd, 'pos'))
        loops = [n for n in rd.body if isinstance(n, ast.While)]
        if len(loops) != 1 or ast.unparse(loops[0].test) != 'pos < used':
            raise Fail('reader loop is not `while pos < used`')
        v['readerUsesHeaderBound'] = True
        hdr = [c for c in calls_in(rd) if ast.unparse(c.func) == '_unpack_integer' and ast.unparse(c.args[0]) == 'data'
               and isinstance(c.args[1], ast.Constant)]
        if len(hdr) != 1: raise Fail('reader: header read _unpack_integer(data, 0) not found')
        v['headerPos'] = int_const(hdr[0].args[1])
        incs = [(n.lineno, n) for n in ast.walk(loops[0]) if isinstance(n, ast.AugAssign) and ast.unparse(n.target) == 'pos'
                and isinstance(n.op, ast.Add)]
        incs = [n for _, n in sorted(incs)]
        if len(incs) != 3 or ast.unparse(incs[1].value) != 'padded_len':
            raise Fail('reader: expected `pos += A`, `pos += padded_len`, `pos += B`')
        v['lenFieldSkip'] = int_const(incs[0].value)
        v['valueSkip'] = int_const(incs[2].value)
        pl = find_assign(loops[0], 'padded_len')
        v['readerExpr'] = IntExpr(lambda n: isinstance(n, ast.Name) and n.id == 'encoded_len').tr(pl)

        # ---- file reader: read_all_values_from_file (first read, optional short-file guard, header, second read, scan)
        ff = find_func(tree, 'read_all_values_from_file', 'MmapedDict')
        withs = [n for n in ff.body if isinstance(n, ast.With)]
        if len(withs) != 1: raise Fail('read_all_values_from_file: one `with open(...)` block expected')
        wb = withs[0].body
        def is_first_read(st): return ast.unparse(st) == 'data = infp.read(mmap.PAGESIZE)'
        def is_header(st): return ast.unparse(st) == 'used = _unpack_integer(data, 0)[0]'
        def is_rest(st):
            return (isinstance(st, ast.If) and ast.unparse(st.test) == 'used > len(data)' and len(st.body) == 1
                    and ast.unparse(st.body[0]) == 'data += infp.read(used - len(data))' and not st.orelse)
        def guard_of(st):
            if not (isinstance(st, ast.If) and not st.orelse and isinstance(st.test, ast.Compare) and len(st.test.ops) == 1
                    and isinstance(st.test.ops[0], ast.Lt) and ast.unparse(st.test.left) == 'len(data)'):
                return None
            body = [b for b in st.body if not (isinstance(b, ast.Expr) and isinstance(b.value, ast.Constant))]
            if len(body) != 1 or not isinstance(body[0], ast.Return) or ast.unparse(body[0].value) not in ('iter(())', 'iter([])', '[]', '()'):
                raise Fail('short-file guard does not return an empty result: %s' % ast.unparse(st))
            return int_const(st.test.comparators[0])
        kinds = []
        for st in wb:
            if is_first_read(st): kinds.append('read')
            elif is_header(st): kinds.append('header')
            elif is_rest(st): kinds.append('rest')
            elif guard_of(st) is not None:
                kinds.append('guard'); v['shortFileGuard'] = guard_of(st)
            else: raise Fail('read_all_values_from_file: statement not understood: %s' % ast.unparse(st)[:80])
        if kinds == ['read', 'header', 'rest']: v['shortFileGuard'] = None
        elif kinds != ['read', 'guard', 'header', 'rest']: raise Fail('read_all_values_from_file: statement order %s' % kinds)
        if ast.unparse(ff.body[-1]) != 'return _read_all_values(data, used)': raise Fail('read_all_values_from_file: final return changed')

        # ---- collector: files that vanish between listing and reading (multiprocess._read_metrics), and who removes files
        mp = parse(repo, SOURCES[1])
        rm = find_func(mp, '_read_metrics', 'MultiProcessCollector')
        loops = [n for n in rm.body if isinstance(n, ast.For) and ast.unparse(n.iter) == 'files']
        if len(loops) != 1: raise Fail('_read_metrics: `for f in files` not found')
        if not any(ast.unparse(st) == "parts = os.path.basename(f).split('_')" for st in loops[0].body) or \
           not any(ast.unparse(st) == 'typ = parts[0]' for st in loops[0].body):
            raise Fail('_read_metrics: file name is not split into parts / typ = parts[0]')
        trys = [n for n in loops[0].body if isinstance(n, ast.Try)]
        if len(trys) != 1 or len(trys[0].body) != 1 or ast.unparse(trys[0].body[0]) != 'file_values = MmapedDict.read_all_values_from_file(f)':
            raise Fail('_read_metrics: try around read_all_values_from_file not found')
        hs = trys[0].handlers
        if len(hs) != 1 or hs[0].type is None or trys[0].orelse or trys[0].finalbody:
            raise Fail('_read_metrics: exactly one except clause expected')
        v['vanishCaught'] = ast.unparse(hs[0].type)
        hb = hs[0].body
        if not (len(hb) == 2 and isinstance(hb[0], ast.If) and not hb[0].orelse and isinstance(hb[1], ast.Raise) and hb[1].exc is None
                and [type(x) for x in hb[0].body if not isinstance(x, ast.Expr)] == [ast.Continue]):
            raise Fail('_read_metrics: handler is not `if …: continue; raise`')
        t = hb[0].test
        if not (isinstance(t, ast.BoolOp) and isinstance(t.op, ast.And) and len(t.values) == 2
                and isinstance(t.values[0], ast.Compare) and ast.unparse(t.values[0].left) == 'typ' and isinstance(t.values[0].ops[0], ast.Eq)
                and isinstance(t.values[1], ast.Call) and ast.unparse(t.values[1].func) == 'parts[1].startswith'):
            raise Fail('_read_metrics: tolerance test changed: %s' % ast.unparse(t))
        v['vanishTyp'] = const(t.values[0].comparators[0], str)
        v['vanishModePrefix'] = const(t.values[1].args[0], str)
        v['vanishReraises'] = True
        md_ = find_func(mp, 'mark_process_dead')
        rms = [c for c in calls_in(md_) if ast.unparse(c.func) == 'os.remove']
        fl = [n for n in ast.walk(md_) if isinstance(n, ast.For) and ast.unparse(n.iter) == '_LIVE_GAUGE_MULTIPROCESS_MODES']
        if len(rms) != 1 or len(fl) != 1: raise Fail('mark_process_dead: one os.remove under `for mode in _LIVE_GAUGE_MULTIPROCESS_MODES` expected')
        js = [n for n in ast.walk(md_) if isinstance(n, ast.JoinedStr)]
        if len(js) != 1 or ast.unparse(js[0]) != "f'gauge_{mode}_{pid}.db'":
            if len(js) != 1 or not (isinstance(js[0].values[0], ast.Constant) and js[0].values[0].value.endswith('_')
                                    and ast.unparse(js[0].values[1].value) == 'mode'):
                raise Fail('mark_process_dead: removal pattern changed')
        v['removeTyp'] = js[0].values[0].value[:-1]
        lm = find_assign(mp, '_LIVE_GAUGE_MULTIPROCESS_MODES')
        if not (isinstance(lm, ast.SetComp) and len(lm.generators) == 1 and len(lm.generators[0].ifs) == 1
                and isinstance(lm.generators[0].ifs[0], ast.Call) and ast.unparse(lm.generators[0].ifs[0].func) == 'm.startswith'):
            raise Fail('_LIVE_GAUGE_MULTIPROCESS_MODES is not {m for m in … if m.startswith(P)}')
        v['removeModePrefix'] = const(lm.generators[0].ifs[0].args[0], str)

        # ---- writer: _init_value
        iv = find_func(tree, '_init_value', 'MmapedDict')
        pd = find_assign(iv, 'padded')
        if not (isinstance(pd, ast.BinOp) and isinstance(pd.op, ast.Add) and ast.unparse(pd.left) == 'encoded'
                and isinstance(pd.right, ast.BinOp) and isinstance(pd.right.op, ast.Mult)):
            raise Fail('padded = encoded + (b"?" * N) expected: %s' % ast.unparse(pd))
        pb = const(pd.right.left, bytes)
        if len(pb) != 1: raise Fail('pad unit is not one byte')
        v['padByte'] = pb[0]
        is_len = lambda n: isinstance(n, ast.Call) and ast.unparse(n) == 'len(encoded)'
        v['writerExpr'] = IntExpr(is_len).tr(pd.right.right)
        val = find_assign(iv, 'value')
        uv = ast.unparse(val)
        size_name = 'len(value)'          # the expression that counts the entry's bytes
        if uv == "struct.pack(f'i{len(padded)}sdd'.encode(), len(encoded), padded, 0.0, 0.0)":
            v['entryPacksDoubles'], v['entryReserve'] = True, 0
        elif uv == "struct.pack(f'i{len(padded)}s'.encode(), len(encoded), padded)":
            # variant: only length + key + padding are written, the value slot is counted but left as it is
            sz = find_assign(iv, 'size')
            if not (isinstance(sz, ast.BinOp) and isinstance(sz.op, ast.Add) and ast.unparse(sz.left) == 'len(value)'):
                raise Fail('entry without doubles: `size = len(value) + N` expected')
            v['entryPacksDoubles'], v['entryReserve'] = False, int_const(sz.right)
            size_name = 'size'
        else:
            raise Fail('entry packing changed: %s' % uv)
        bumps = [n for n in iv.body if isinstance(n, ast.AugAssign) and ast.unparse(n.target) == 'self._used']
        if len(bumps) != 1 or not isinstance(bumps[0].op, ast.Add) or ast.unparse(bumps[0].value) != size_name:
            raise Fail('`self._used += %s` expected' % size_name)
        stores = [n for n in iv.body if isinstance(n, ast.Assign) and isinstance(n.targets[0], ast.Subscript)
                  and ast.unparse(n.targets[0].value) == 'self._m']
        if len(stores) != 1 or ast.unparse(stores[0]) != 'self._m[self._used:self._used + len(value)] = value':
            raise Fail('entry slice assignment changed')
        effs, kind, body_effs = [], 'absent', []
        for st in iv.body:
            if isinstance(st, (ast.While, ast.If)) and any(t == 'truncateGrow' for s in st.body for t in stmt_effects(s, 'init')):
                if ast.unparse(st.test) != 'self._used + %s > self._capacity' % size_name:
                    raise Fail('growth test changed: %s' % ast.unparse(st.test))
                kind = 'whileLoop' if isinstance(st, ast.While) else 'ifOnce'
                for s in st.body:
                    body_effs += stmt_effects(s, 'init')
                    if isinstance(s, ast.AugAssign) and ast.unparse(s.target) == 'self._capacity':
                        if not isinstance(s.op, ast.Mult): raise Fail('capacity is not multiplied')
                        v['growFactor'] = int_const(s.value)
                effs.append('growLoop')
            elif isinstance(st, (ast.While, ast.If, ast.For, ast.Try, ast.With)):
                if stmt_effects(st, 'init'): raise Fail('file effect inside an unexpected block in _init_value')
            else:
                effs += stmt_effects(st, 'init')
                if isinstance(st, ast.Assign) and ast.unparse(st.targets[0]) == 'self._positions[key]':
                    if not (isinstance(st.value, ast.BinOp) and isinstance(st.value.op, ast.Sub) and ast.unparse(st.value.left) == 'self._used'):
                        raise Fail('position is not self._used - N')
                    v['positionBack'] = int_const(st.value.right)
        v['initValueEffects'], v['growKind'], v['growBody'] = effs, kind, body_effs

        # ---- constructor
        ct = find_func(tree, '__init__', 'MmapedDict')
        ce = []
        for st in ct.body:
            if isinstance(st, ast.If):
                t = ast.unparse(st.test)
                inner = [x for s in st.body for x in stmt_effects(s, 'ctor')]
                if t == 'capacity == 0':
                    if inner != ['truncateInitial']: raise Fail('`if capacity == 0` body effects: %s' % inner)
                    tr = [c for c in calls_in(st) if ast.unparse(c.func).endswith('.truncate')][0]
                    if ast.unparse(tr.args[0]) != '_INITIAL_MMAP_SIZE': raise Fail('initial truncate size changed')
                    ce += inner
                elif t == 'self._used == 0':
                    if inner != ['writeHeader']: raise Fail('`if self._used == 0` body effects: %s' % inner)
                    fu = [s for s in st.body if isinstance(s, ast.Assign) and ast.unparse(s.targets[0]) == 'self._used']
                    if len(fu) != 1: raise Fail('fresh `self._used = N` not found')
                    v['freshUsed'] = int_const(fu[0].value)
                    if any(stmt_effects(s, 'ctor') for s in st.orelse): raise Fail('file effect in the reopen branch')
                    ce += inner
                elif inner or any(stmt_effects(s, 'ctor') for s in st.orelse):
                    raise Fail('file effect under unexpected condition `%s` in __init__' % t)
            elif isinstance(st, (ast.While, ast.For, ast.Try, ast.With)):
                if stmt_effects(st, 'ctor'): raise Fail('file effect inside an unexpected block in __init__')
            else:
                ce += stmt_effects(st, 'ctor')
        v['ctorEffects'] = ce

        # ---- write_value
        wv = find_func(tree, 'write_value', 'MmapedDict')
        we = []
        for n in ast.walk(wv):
            if isinstance(n, (ast.Return, ast.Raise, ast.Break, ast.Continue)) and not (isinstance(n, ast.Return) and n is wv.body[-1]):
                raise Fail('write_value can leave before its file effect: %s' % ast.unparse(n)[:60])
        for st in wv.body:
            if isinstance(st, ast.If):
                if ast.unparse(st.test) != 'key not in self._positions' and stmt_effects(st, 'wv'):
                    raise Fail('write_value: effect under unexpected condition')
            we += stmt_effects(st, 'wv')
        v['writeValueEffects'] = we
        return _emit(True, v)
    except Fail as e:
        return _emit(False, v, str(e))


FALLBACK = _emit(False, dict(DEFAULTS), 'extractor raised an exception')
