"""context_managers.py (Timer / InprogressTracker / ExceptionCounter), the `time()` / `count_exceptions()` /
`track_inprogress()` factory methods of metrics.py and the wrapper template of the vendored decorator.py.

Everything the C16 theorems lean on is read from the AST here:
  * Timer.__exit__        the clamp `max(default_timer() - self._start, 0)`: function name, operand order, literal;
                          when the callback runs; whether a truthy value is returned
  * Timer.__call__        `with self._new_timer():` (fresh Timer per decorated call) vs `with self:`
  * Timer.labels          `self._metric = self._metric.labels(*args, **kw)`: assignment target, delegation, which of `*args` /
                          `**kw` are forwarded, no return value; `_new_timer` copies the current `_metric`; `__enter__` returns self
  * InprogressTracker     `self._gauge.inc()` / `self._gauge.dec()` as unconditional statements (or under which test)
  * ExceptionCounter      the test `isinstance(value, self._exception)`, what `__exit__` returns on either path
  * metrics.py            callback names given to Timer, default class of count_exceptions
  * the three __call__s   name of the first parameter of `wrapped(func, *args, **kwargs)` and whether it is positional-only
                          (a forwarded keyword of that name collides with it)
  * decorator.py          refusal of non-function callables (`func.__name__`, `inspect.isfunction`, TypeError); reserved names, lambda rename, `%s=None` / `%s=%s` kw-only templates, the body template
"""
import ast
from leanlit import *

TARGET = 'Wrappers'
SOURCES = ['prometheus_client/context_managers.py', 'prometheus_client/metrics.py', 'prometheus_client/decorator.py']

PRELUDE = '''inductive ClampFn | max | min | none
deriving DecidableEq, Repr
/-- when a bookkeeping statement of `__enter__`/`__exit__` runs, as a function of "the body raised" -/
inductive When | always | ifNoExc | ifExc | never
deriving DecidableEq, Repr
/-- the test guarding `self._counter.inc()` -/
inductive ExcTest | isinstanceValue | anyExc | always | never
deriving DecidableEq, Repr
'''

DEFAULTS = dict(
    timerClampFn='none', timerClampLit=0, timerNowMinusStart=True, timerCallbackWhen='never',
    timerExitSuppresses=False, timerCallFresh=False, newTimerIsNew=False,
    excTest='never', excSuppressWhenCounted=False, excSuppressOtherwise=False, excCallWithSelf=False,
    inprogressIncWhen='never', inprogressDecWhen='never', inprogressExitSuppresses=False, inprogressCallWithSelf=False,
    gaugeTimeCallback='', summaryTimeCallback='', histogramTimeCallback='', countExcDefault='',
    countExcChecksObservable=False, trackInprogressChecksObservable=False, timeChecksObservable=False,
    reservedNames=[], lambdaName='', lambdaRename='', kwonlySigFmt='', kwonlyShortFmt='', bodyTemplate='',
    defTemplate='', sigJoin='', posonlyMarkerEmitted=False, callerFuncParam='', callerFuncPosOnly=False,
    makerReadsDunderName=False, makerRefusesNonFunctions=False,
    timerLabelsRebindsSelf=False, timerLabelsForwardsArgs=False, timerLabelsForwardsKw=False, timerLabelsReturnsNone=False,
    newTimerCopiesMetric=False, timerEnterReturnsSelf=False, timerInitStoresMetric=False,
)


def _emit(v, fails):
    out = header(TARGET, SOURCES)
    for site, why in fails:
        out += '-- EXTRACT-FAIL %s: %s\n' % (site, why)
    out += PRELUDE
    b = lambda x: 'true' if x else 'false'
    out += 'def extractOk : Bool := %s\n' % b(not fails)
    out += 'def timerClampFn : ClampFn := .%s\n' % v['timerClampFn']
    out += 'def timerClampLit : Int := %d\n' % v['timerClampLit']
    out += 'def timerNowMinusStart : Bool := %s\n' % b(v['timerNowMinusStart'])
    out += 'def timerCallbackWhen : When := .%s\n' % v['timerCallbackWhen']
    out += 'def timerExitSuppresses : Bool := %s\n' % b(v['timerExitSuppresses'])
    out += 'def timerCallFresh : Bool := %s\n' % b(v['timerCallFresh'])
    out += 'def newTimerIsNew : Bool := %s\n' % b(v['newTimerIsNew'])
    out += 'def excTest : ExcTest := .%s\n' % v['excTest']
    out += 'def excSuppressWhenCounted : Bool := %s\n' % b(v['excSuppressWhenCounted'])
    out += 'def excSuppressOtherwise : Bool := %s\n' % b(v['excSuppressOtherwise'])
    out += 'def excCallWithSelf : Bool := %s\n' % b(v['excCallWithSelf'])
    out += 'def inprogressIncWhen : When := .%s\n' % v['inprogressIncWhen']
    out += 'def inprogressDecWhen : When := .%s\n' % v['inprogressDecWhen']
    out += 'def inprogressExitSuppresses : Bool := %s\n' % b(v['inprogressExitSuppresses'])
    out += 'def inprogressCallWithSelf : Bool := %s\n' % b(v['inprogressCallWithSelf'])
    for k in ('gaugeTimeCallback', 'summaryTimeCallback', 'histogramTimeCallback', 'countExcDefault'):
        out += 'def %s : List Char := %s\n' % (k, chars(v[k]))
    for k in ('countExcChecksObservable', 'trackInprogressChecksObservable', 'timeChecksObservable'):
        out += 'def %s : Bool := %s\n' % (k, b(v[k]))
    out += 'def reservedNames : List (List Char) := %s\n' % strlist(v['reservedNames'])
    for k in ('lambdaName', 'lambdaRename', 'kwonlySigFmt', 'kwonlyShortFmt', 'bodyTemplate', 'defTemplate', 'sigJoin'):
        out += 'def %s : List Char := %s\n' % (k, chars(v[k]))
    out += 'def posonlyMarkerEmitted : Bool := %s\n' % b(v['posonlyMarkerEmitted'])
    out += 'def makerReadsDunderName : Bool := %s\n' % b(v['makerReadsDunderName'])
    out += 'def makerRefusesNonFunctions : Bool := %s\n' % b(v['makerRefusesNonFunctions'])
    out += 'def callerFuncParam : List Char := %s\n' % chars(v['callerFuncParam'])
    out += 'def callerFuncPosOnly : Bool := %s\n' % b(v['callerFuncPosOnly'])
    for k in ('timerLabelsRebindsSelf', 'timerLabelsForwardsArgs', 'timerLabelsForwardsKw', 'timerLabelsReturnsNone',
              'newTimerCopiesMetric', 'timerEnterReturnsSelf', 'timerInitStoresMetric'):
        out += 'def %s : Bool := %s\n' % (k, b(v[k]))
    return out + footer(TARGET)


# ------------------------------------------------------------------------------------------------- helpers
EXC_ARGS = ('typ', 'value', 'traceback')


def _exc_arg_names(f):
    """names of the three exception parameters of __exit__ (after self)"""
    a = [x.arg for x in f.args.args]
    return tuple(a[1:4]) if len(a) >= 4 else EXC_ARGS


def _classify_test(test, excnames):
    """`X is None` -> ifNoExc, `X is not None` -> ifExc for X one of the __exit__ exception parameters"""
    if (isinstance(test, ast.Compare) and len(test.ops) == 1 and isinstance(test.left, ast.Name)
            and test.left.id in excnames and isinstance(test.comparators[0], ast.Constant)
            and test.comparators[0].value is None):
        if isinstance(test.ops[0], ast.Is): return 'ifNoExc'
        if isinstance(test.ops[0], ast.IsNot): return 'ifExc'
    if isinstance(test, ast.UnaryOp) and isinstance(test.op, ast.Not) and isinstance(test.operand, ast.Name) \
            and test.operand.id in excnames:
        return 'ifNoExc'
    if isinstance(test, ast.Name) and test.id in excnames:
        return 'ifExc'
    return None


def _when(f, pred, site, excnames=EXC_ARGS):
    """where does the (unique) statement satisfying pred sit in f's body?"""
    hits = []
    for st in f.body:
        if pred(st):
            hits.append('always')
        elif isinstance(st, ast.If):
            inb = [x for x in st.body if pred(x)]
            ino = [x for x in st.orelse if pred(x)]
            if inb or ino:
                c = _classify_test(st.test, excnames)
                if c is None:
                    raise Fail('%s: statement guarded by a test that is not understood: %s' % (site, ast.unparse(st.test)))
                if inb and ino:
                    hits.append('always')
                elif inb:
                    hits.append(c)
                else:
                    hits.append('ifExc' if c == 'ifNoExc' else 'ifNoExc')
        elif isinstance(st, (ast.Try, ast.With, ast.For, ast.While)):
            if any(pred(x) for x in ast.walk(st) if isinstance(x, ast.stmt)):
                raise Fail('%s: statement nested in %s' % (site, type(st).__name__))
    if not hits:
        return 'never'
    if len(hits) > 1:
        if set(hits) == {'ifNoExc', 'ifExc'}:
            return 'always'
        raise Fail('%s: statement occurs %d times' % (site, len(hits)))
    return hits[0]


def _is_call_stmt(src):
    return lambda st: isinstance(st, ast.Expr) and ast.unparse(st.value) == src


def _truthy_returns(f, site):
    """(truthy return at top level, list of (enclosing-if test, truthy)) — every return must return a constant"""
    top = None
    nested = []
    for st in f.body:
        if isinstance(st, ast.Return):
            if st.value is None:
                val = None
            else:
                val = const(st.value)
            if top is None:
                top = bool(val)
        elif isinstance(st, ast.If):
            for branch, neg in ((st.body, False), (st.orelse, True)):
                for x in branch:
                    for r in ast.walk(x):
                        if isinstance(r, ast.Return):
                            val = None if r.value is None else const(r.value)
                            nested.append((st.test, neg, bool(val)))
        else:
            for r in ast.walk(st):
                if isinstance(r, ast.Return):
                    raise Fail('%s: return nested in %s' % (site, type(st).__name__))
    return bool(top), nested


def _with_item(f, site):
    """`def __call__(self, f): def wrapped(func, *args, **kwargs): with X: return func(*args, **kwargs)`
    -> (source of X, name of the first parameter of the inner function, is it positional-only)"""
    inner = [n for n in f.body if isinstance(n, ast.FunctionDef)]
    if len(inner) != 1: raise Fail('%s: one inner function expected' % site)
    w = inner[0]
    a = w.args
    first = a.posonlyargs + a.args
    if not (len(first) == 1 and a.vararg is not None and a.kwarg is not None and not a.kwonlyargs):
        raise Fail('%s: inner signature is not (func, *args, **kwargs)' % site)
    body = [s for s in w.body if not (isinstance(s, ast.Expr) and isinstance(s.value, ast.Constant))]
    if len(body) != 1 or not isinstance(body[0], ast.With) or len(body[0].items) != 1:
        raise Fail('%s: body is not a single `with`' % site)
    wi = body[0]
    want = 'return %s(*%s, **%s)' % (first[0].arg, a.vararg.arg, a.kwarg.arg)
    if len(wi.body) != 1 or ast.unparse(wi.body[0]) != want:
        raise Fail('%s: with-body is not `%s`' % (site, want))
    ret = [s for s in f.body if isinstance(s, ast.Return)]
    if len(ret) != 1 or ast.unparse(ret[0]) != 'return decorate(%s, %s)' % (f.args.args[1].arg, w.name):
        raise Fail('%s: `return decorate(f, wrapped)` expected' % site)
    return ast.unparse(wi.items[0].context_expr), first[0].arg, len(a.posonlyargs) == 1


def _caller(v, name, posonly, site):
    """all three callers must agree on the name of their first parameter"""
    if v['callerFuncParam'] not in ('', name):
        raise Fail('%s: first parameter %r, other callers use %r' % (site, name, v['callerFuncParam']))
    v['callerFuncParam'] = name
    v['_posonly'].append(posonly)
    v['callerFuncPosOnly'] = len(v['_posonly']) == 3 and all(v['_posonly'])


def _num(node):
    v = const(node)
    if isinstance(v, bool) or not isinstance(v, (int, float)) or v != int(v):
        raise Fail('clamp literal %r is not an integer' % (v,))
    return int(v)


# ------------------------------------------------------------------------------------------------- sites
def timer(tree, v):
    ex = find_func(tree, '__exit__', 'Timer')
    names = _exc_arg_names(ex)
    dur = [s for s in ex.body if isinstance(s, ast.Assign) and ast.unparse(s.targets[0]) == 'duration']
    if len(dur) != 1: raise Fail('`duration = …` assignment not found at top level')
    e = dur[0].value

    def diff(n):
        if not (isinstance(n, ast.BinOp) and isinstance(n.op, ast.Sub)): return None
        l, r = ast.unparse(n.left), ast.unparse(n.right)
        if (l, r) == ('default_timer()', 'self._start'): return True
        if (l, r) == ('self._start', 'default_timer()'): return False
        return None
    if diff(e) is not None:
        v['timerClampFn'] = 'none'; v['timerNowMinusStart'] = diff(e); v['timerClampLit'] = 0
    elif isinstance(e, ast.Call) and isinstance(e.func, ast.Name) and e.func.id in ('max', 'min') and len(e.args) == 2 and not e.keywords:
        a, b = e.args
        if diff(a) is not None: d, lit = diff(a), _num(b)
        elif diff(b) is not None: d, lit = diff(b), _num(a)
        else: raise Fail('clamp operands not understood: %s' % ast.unparse(e))
        v['timerClampFn'] = e.func.id; v['timerNowMinusStart'] = d; v['timerClampLit'] = lit
    else:
        raise Fail('duration expression not understood: %s' % ast.unparse(e))
    cb = [s for s in ex.body if isinstance(s, ast.Assign) and ast.unparse(s.targets[0]) == 'callback']
    if len(cb) != 1 or ast.unparse(cb[0].value) != 'getattr(self._metric, self._callback_name)':
        raise Fail('`callback = getattr(self._metric, self._callback_name)` expected')
    v['timerCallbackWhen'] = _when(ex, _is_call_stmt('callback(duration)'), 'Timer.__exit__ callback(duration)', names)
    top, nested = _truthy_returns(ex, 'Timer.__exit__')
    v['timerExitSuppresses'] = top or any(t for _, _, t in nested)
    en = find_func(tree, '__enter__', 'Timer')
    if not any(isinstance(s, ast.Assign) and ast.unparse(s) == 'self._start = default_timer()' for s in en.body):
        raise Fail('`self._start = default_timer()` not found in Timer.__enter__')
    nt = find_func(tree, '_new_timer', 'Timer')
    v['newTimerIsNew'] = (len(nt.body) == 1 and ast.unparse(nt.body[0]) == 'return self.__class__(self._metric, self._callback_name)')
    if not v['newTimerIsNew']: raise Fail('_new_timer does not construct a new Timer')
    item, fname, fpo = _with_item(find_func(tree, '__call__', 'Timer'), 'Timer.__call__')
    _caller(v, fname, fpo, 'Timer.__call__')
    if item == 'self._new_timer()': v['timerCallFresh'] = True
    elif item == 'self': v['timerCallFresh'] = False
    else: raise Fail('Timer.__call__ enters %s' % item)


def _no_doc(f):
    return [x for x in f.body if not (isinstance(x, ast.Expr) and isinstance(x.value, ast.Constant))]


def timer_labels(tree, v):
    """Timer.labels: `def labels(self, *args, **kw): self._metric = self._metric.labels(*args, **kw)` — one assignment whose
    target is `self._metric` and whose value delegates to `self._metric.labels`, forwarding `*args` / `**kw` (which of the
    two are forwarded is a flag); no return value.  Timer.__init__ stores `metric` in `self._metric`; `_new_timer` builds
    the new object from the CURRENT `self._metric`; `__enter__` returns `self` (what `as t` binds)."""
    f = find_func(tree, 'labels', 'Timer')
    a = f.args
    if [x.arg for x in a.posonlyargs + a.args] != ['self'] or a.vararg is None or a.kwarg is None or a.kwonlyargs or a.defaults:
        raise Fail('Timer.labels: signature is not (self, *args, **kw)')
    body = _no_doc(f)
    if len(body) != 1:
        raise Fail('Timer.labels: body is not a single statement: %s' % '; '.join(ast.unparse(x) for x in body))
    st = body[0]
    if not (isinstance(st, ast.Assign) and len(st.targets) == 1):
        raise Fail('Timer.labels: body is not an assignment (`self._metric = …` expected): %s' % ast.unparse(st))
    if ast.unparse(st.targets[0]) != 'self._metric':
        raise Fail('Timer.labels: assignment target is %s, not self._metric' % ast.unparse(st.targets[0]))
    c = st.value
    if not (isinstance(c, ast.Call) and ast.unparse(c.func) == 'self._metric.labels'):
        raise Fail('Timer.labels: value does not delegate to self._metric.labels(…): %s' % ast.unparse(c))
    fa = fk = False
    for x in c.args:
        if isinstance(x, ast.Starred) and isinstance(x.value, ast.Name) and x.value.id == a.vararg.arg and not fa: fa = True
        else: raise Fail('Timer.labels: positional argument %s of the delegated call not understood' % ast.unparse(x))
    for x in c.keywords:
        if x.arg is None and isinstance(x.value, ast.Name) and x.value.id == a.kwarg.arg and not fk: fk = True
        else: raise Fail('Timer.labels: keyword argument of the delegated call not understood: %s' % ast.unparse(c))
    v['timerLabelsRebindsSelf'] = True
    v['timerLabelsForwardsArgs'] = fa
    v['timerLabelsForwardsKw'] = fk
    v['timerLabelsReturnsNone'] = True      # the single statement is an assignment: falls off the end
    init = find_func(tree, '__init__', 'Timer')
    if [x.arg for x in init.args.args] != ['self', 'metric', 'callback_name']:
        raise Fail('Timer.__init__(self, metric, callback_name) expected')
    src = [ast.unparse(x) for x in _no_doc(init)]
    if src != ['self._metric = metric', 'self._callback_name = callback_name']:
        raise Fail('Timer.__init__ body: %s' % '; '.join(src))
    v['timerInitStoresMetric'] = True
    nt = _no_doc(find_func(tree, '_new_timer', 'Timer'))
    if len(nt) != 1 or ast.unparse(nt[0]) != 'return self.__class__(self._metric, self._callback_name)':
        raise Fail('_new_timer does not build a new Timer from the current self._metric / self._callback_name')
    v['newTimerCopiesMetric'] = True
    en = _no_doc(find_func(tree, '__enter__', 'Timer'))
    rets = [x for x in ast.walk(find_func(tree, '__enter__', 'Timer')) if isinstance(x, ast.Return)]
    if len(rets) != 1 or not isinstance(en[-1], ast.Return) or ast.unparse(en[-1]) != 'return self':
        raise Fail('Timer.__enter__ does not end with its only `return self`')
    v['timerEnterReturnsSelf'] = True
    # nothing else in the class writes `_metric`
    cls = [n for n in tree.body if isinstance(n, ast.ClassDef) and n.name == 'Timer'][0]
    writers = set()
    for fn in cls.body:
        if isinstance(fn, ast.FunctionDef):
            for n in ast.walk(fn):
                tg = []
                if isinstance(n, ast.Assign): tg = n.targets
                elif isinstance(n, (ast.AugAssign, ast.AnnAssign)): tg = [n.target]
                elif isinstance(n, ast.Delete): tg = n.targets
                if any(ast.unparse(t) == 'self._metric' for t in tg): writers.add(fn.name)
                if isinstance(n, ast.Call) and ast.unparse(n.func) in ('setattr', 'delattr') and len(n.args) >= 2 \
                        and ast.unparse(n.args[0]) == 'self':
                    writers.add(fn.name + ':setattr')
    if writers != {'__init__', 'labels'}:
        raise Fail('Timer._metric is written by %s (only __init__ and labels expected)' % sorted(writers))


def inprogress(tree, v):
    en = find_func(tree, '__enter__', 'InprogressTracker')
    ex = find_func(tree, '__exit__', 'InprogressTracker')
    v['inprogressIncWhen'] = _when(en, _is_call_stmt('self._gauge.inc()'), 'InprogressTracker.__enter__ inc', ())
    v['inprogressDecWhen'] = _when(ex, _is_call_stmt('self._gauge.dec()'), 'InprogressTracker.__exit__ dec', _exc_arg_names(ex))
    top, nested = _truthy_returns(ex, 'InprogressTracker.__exit__')
    v['inprogressExitSuppresses'] = top or any(t for _, _, t in nested)
    item, fname, fpo = _with_item(find_func(tree, '__call__', 'InprogressTracker'), 'InprogressTracker.__call__')
    _caller(v, fname, fpo, 'InprogressTracker.__call__')
    v['inprogressCallWithSelf'] = item == 'self'
    if item != 'self': raise Fail('InprogressTracker.__call__ enters %s' % item)


def exccounter(tree, v):
    ex = find_func(tree, '__exit__', 'ExceptionCounter')
    names = _exc_arg_names(ex)
    inc = _is_call_stmt('self._counter.inc()')
    guards = [s for s in ex.body if isinstance(s, ast.If) and any(inc(x) for x in s.body)]
    # exactly one `self._counter.inc()` in the whole method, and its guard has no elif/else: a second counting path
    # (e.g. looking into the leaves of an exception group) is a different test
    n_inc = sum(1 for x in ast.walk(ex) if isinstance(x, ast.Expr) and inc(x))
    if n_inc > 1: raise Fail('ExceptionCounter.__exit__ increments on %d paths' % n_inc)
    if any(g.orelse for g in guards): raise Fail('ExceptionCounter.__exit__: the counting test has an elif/else branch')
    if any(inc(s) for s in ex.body):
        v['excTest'] = 'always'
        test = None
    elif len(guards) == 1:
        test = guards[0].test
        src = ast.unparse(test)
        if src == 'isinstance(%s, self._exception)' % names[1]:
            v['excTest'] = 'isinstanceValue'
        elif _classify_test(test, names) == 'ifExc':
            v['excTest'] = 'anyExc'
        else:
            raise Fail('ExceptionCounter.__exit__ test not understood: %s' % src)
    elif not guards:
        v['excTest'] = 'never'
        test = None
    else:
        raise Fail('several guarded inc() in ExceptionCounter.__exit__')
    top, nested = _truthy_returns(ex, 'ExceptionCounter.__exit__')
    counted = top
    for t, neg, truthy in nested:
        if test is not None and ast.dump(t) == ast.dump(test) and not neg:
            counted = truthy
        else:
            raise Fail('return under a test other than the counting test')
    v['excSuppressWhenCounted'] = counted
    v['excSuppressOtherwise'] = top
    init = find_func(tree, '__init__', 'ExceptionCounter')
    if not any(ast.unparse(s) == 'self._exception = exception' for s in init.body):
        raise Fail('self._exception = exception not found')
    item, fname, fpo = _with_item(find_func(tree, '__call__', 'ExceptionCounter'), 'ExceptionCounter.__call__')
    _caller(v, fname, fpo, 'ExceptionCounter.__call__')
    v['excCallWithSelf'] = item == 'self'
    if item != 'self': raise Fail('ExceptionCounter.__call__ enters %s' % item)


def factories(mtree, v):
    def ret_timer(cls):
        f = find_func(mtree, 'time', cls)
        rets = [s for s in f.body if isinstance(s, ast.Return)]
        if len(rets) != 1: raise Fail('%s.time: one return expected' % cls)
        c = rets[0].value
        if not (isinstance(c, ast.Call) and ast.unparse(c.func) == 'Timer' and len(c.args) == 2 and ast.unparse(c.args[0]) == 'self'):
            raise Fail('%s.time does not return Timer(self, <name>)' % cls)
        chk = any(ast.unparse(s) == 'self._raise_if_not_observable()' for s in f.body)
        return const(c.args[1], str), chk
    g, c1 = ret_timer('Gauge'); s, c2 = ret_timer('Summary'); h, c3 = ret_timer('Histogram')
    v['gaugeTimeCallback'], v['summaryTimeCallback'], v['histogramTimeCallback'] = g, s, h
    v['timeChecksObservable'] = c1 and c2 and c3
    ce = find_func(mtree, 'count_exceptions', 'Counter')
    if [a.arg for a in ce.args.args] != ['self', 'exception'] or len(ce.args.defaults) != 1 or not isinstance(ce.args.defaults[0], ast.Name):
        raise Fail('count_exceptions(self, exception=<Name>) expected')
    v['countExcDefault'] = ce.args.defaults[0].id
    body = [ast.unparse(s) for s in ce.body]
    v['countExcChecksObservable'] = 'self._raise_if_not_observable()' in body
    if 'return ExceptionCounter(self, exception)' not in body: raise Fail('count_exceptions return')
    ti = find_func(mtree, 'track_inprogress', 'Gauge')
    body = [ast.unparse(s) for s in ti.body]
    v['trackInprogressChecksObservable'] = 'self._raise_if_not_observable()' in body
    if 'return InprogressTracker(self)' not in body: raise Fail('track_inprogress return')


def decorator_site(dtree, v):
    fm = find_func(dtree, '__init__', 'FunctionMaker')
    src = ast.unparse(fm)
    # non-function callables: `self.name = func.__name__` is read before anything else (AttributeError without it); the
    # signature is built only under `if inspect.isfunction(func):`; without a signature `TypeError` is raised
    iff = [n for n in fm.body if isinstance(n, ast.If) and ast.unparse(n.test) == 'func']
    if len(iff) != 1: raise Fail('FunctionMaker.__init__: `if func:` not found')
    first = [x for x in iff[0].body if not (isinstance(x, ast.Expr) and isinstance(x.value, ast.Constant))][0]
    v['makerReadsDunderName'] = ast.unparse(first) == 'self.name = func.__name__'
    if not v['makerReadsDunderName']: raise Fail('FunctionMaker.__init__: does not start with self.name = func.__name__')
    guard = [n for n in iff[0].body if isinstance(n, ast.If) and ast.unparse(n.test) == 'inspect.isfunction(func)']
    sigs = [n for n in ast.walk(fm) if isinstance(n, ast.Assign) and any('self.signature' in ast.unparse(t) for t in n.targets)
            and ast.unparse(n.value) != 'signature']
    inside = guard and all(any(x is n for x in ast.walk(guard[0])) for n in sigs)
    tail = [n for n in fm.body if isinstance(n, ast.If) and ast.unparse(n.test) == "not hasattr(self, 'signature')"
            and len(n.body) == 1 and isinstance(n.body[0], ast.Raise) and ast.unparse(n.body[0].exc).startswith('TypeError(')]
    v['makerRefusesNonFunctions'] = bool(len(guard) == 1 and sigs and inside and len(tail) == 1)
    if not v['makerRefusesNonFunctions']: raise Fail('FunctionMaker.__init__: isfunction guard / TypeError for non functions not found')
    # lambda rename
    ren = [n for n in ast.walk(fm) if isinstance(n, ast.If) and ast.unparse(n.test).startswith('self.name == ')]
    if len(ren) != 1 or len(ren[0].body) != 1: raise Fail('lambda rename site')
    v['lambdaName'] = const(ren[0].test.comparators[0], str)
    asg = ren[0].body[0]
    if not (isinstance(asg, ast.Assign) and ast.unparse(asg.targets[0]) == 'self.name'): raise Fail('lambda rename assignment')
    v['lambdaRename'] = const(asg.value, str)
    # the python-3 branch building allargs / allshortargs
    need = ["allargs = list(self.args)", "allshortargs = list(self.args)",
            "allargs.append('*' + self.varargs)", "allshortargs.append('*' + self.varargs)",
            "allargs.append('*')", "allargs.append('**' + self.varkw)", "allshortargs.append('**' + self.varkw)"]
    for n in need:
        if n not in src: raise Fail('FunctionMaker.__init__: `%s` not found' % n)
    loops = [n for n in ast.walk(fm) if isinstance(n, ast.For) and ast.unparse(n.iter) == 'self.kwonlyargs']
    if len(loops) != 1 or len(loops[0].body) != 2: raise Fail('kw-only loop')
    def fmt(st, target, nargs):
        if not (isinstance(st, ast.Expr) and isinstance(st.value, ast.Call) and ast.unparse(st.value.func) == target + '.append'):
            raise Fail('kw-only loop: %s.append expected' % target)
        a = st.value.args[0]
        if not (isinstance(a, ast.BinOp) and isinstance(a.op, ast.Mod)): raise Fail('kw-only %% template expected')
        r = ast.unparse(a.right)
        if r not in (('a',) if nargs == 1 else ('(a, a)',)): raise Fail('kw-only template arguments %s' % r)
        return const(a.left, str)
    v['kwonlySigFmt'] = fmt(loops[0].body[0], 'allargs', 1)
    v['kwonlyShortFmt'] = fmt(loops[0].body[1], 'allshortargs', 2)
    joins = [n for n in ast.walk(fm) if isinstance(n, ast.Assign) and ast.unparse(n.targets[0]) == 'self.signature'
             and isinstance(n.value, ast.Call) and ast.unparse(n.value.func).endswith('.join') and ast.unparse(n.value.args[0]) == 'allargs']
    if len(joins) != 1: raise Fail('self.signature = SEP.join(allargs)')
    v['sigJoin'] = const(joins[0].value.func.value, str)
    if "self.shortsignature = %r.join(allshortargs)" % v['sigJoin'] not in src: raise Fail('shortsignature join')
    v['posonlyMarkerEmitted'] = "'/'" in src
    # make(): reserved names
    mk = find_func(dtree, 'make', 'FunctionMaker')
    res = [n for n in ast.walk(mk) if isinstance(n, ast.If) and isinstance(n.test, ast.Compare) and isinstance(n.test.ops[0], ast.In)
           and isinstance(n.test.comparators[0], ast.Tuple) and isinstance(n.body[0], ast.Raise)]
    if len(res) != 1: raise Fail('reserved-name check in FunctionMaker.make')
    v['reservedNames'] = [const(x, str) for x in res[0].test.comparators[0].elts]
    if "arg.strip(' *') for arg in self.shortsignature.split(',')" not in ast.unparse(mk): raise Fail('names set in make()')
    cr = find_func(dtree, 'create', 'FunctionMaker')
    rets = [n for n in ast.walk(cr) if isinstance(n, ast.Return)]
    if len(rets) != 1: raise Fail('create(): one return')
    a0 = rets[0].value.args[0]
    if not (isinstance(a0, ast.BinOp) and isinstance(a0.op, ast.Add) and ast.unparse(a0.right) == 'ibody'): raise Fail('def template')
    v['defTemplate'] = const(a0.left, str)
    de = find_func(dtree, 'decorate')
    calls = [n for n in ast.walk(de) if isinstance(n, ast.Call) and ast.unparse(n.func) == 'FunctionMaker.create']
    if len(calls) != 1: raise Fail('decorate(): FunctionMaker.create call')
    c = calls[0]
    if ast.unparse(c.args[0]) != 'func' or ast.unparse(c.args[2]) != 'evaldict': raise Fail('decorate(): create arguments')
    v['bodyTemplate'] = const(c.args[1], str)
    kws = {k.arg: ast.unparse(k.value) for k in c.keywords}
    if kws != {'__wrapped__': 'func'}: raise Fail('decorate(): __wrapped__=func expected, got %s' % kws)
    if 'evaldict = dict(_call_=caller, _func_=func)' not in ast.unparse(de): raise Fail('decorate(): evaldict')
    if 'fun.__qualname__ = func.__qualname__' not in ast.unparse(de): raise Fail('decorate(): __qualname__ copy')
    up = ast.unparse(find_func(dtree, 'update', 'FunctionMaker'))
    for n in ["func.__name__ = self.name", "func.__doc__ = getattr(self, 'doc', None)", "func.__defaults__ = getattr(self, 'defaults', ())",
              "func.__kwdefaults__ = getattr(self, 'kwonlydefaults', None)", "func.__annotations__ = getattr(self, 'annotations', None)",
              "func.__dict__ = getattr(self, 'dict', {})", "func.__module__ = getattr(self, 'module', callermodule)", "func.__dict__.update(kw)"]:
        if n not in up: raise Fail('FunctionMaker.update: `%s` not found' % n)
    # metadata taken verbatim from the function: __doc__ (not inspect.getdoc, which re-indents), __module__
    body_src = [ast.unparse(x) for x in iff[0].body]   # checked last: the sites above are already extracted
    for want in ('self.doc = func.__doc__', 'self.module = func.__module__'):
        if want not in body_src: raise Fail('FunctionMaker.__init__: `%s` not found' % want)
    if "self.annotations = getattr(func, '__annotations__', {})" not in src: raise Fail('FunctionMaker.__init__: annotations copy')
    if 'self.dict = func.__dict__.copy()' not in src: raise Fail('FunctionMaker.__init__: __dict__ copy')


def generate(repo):
    v = dict(DEFAULTS)
    v['_posonly'] = []
    fails = []
    trees = {}
    for rel in SOURCES:
        try:
            trees[rel] = parse(repo, rel)
        except Exception as e:
            fails.append((rel, 'cannot parse: %s' % e))
    def site(name, fn, rel):
        if rel not in trees:
            return
        try:
            fn(trees[rel], v)
        except Fail as e:
            fails.append((name, str(e)))
    site('Timer', timer, SOURCES[0])
    site('Timer.labels', timer_labels, SOURCES[0])
    site('InprogressTracker', inprogress, SOURCES[0])
    site('ExceptionCounter', exccounter, SOURCES[0])
    site('metrics.time/count_exceptions/track_inprogress', factories, SOURCES[1])
    site('decorator.FunctionMaker/decorate', decorator_site, SOURCES[2])
    return _emit(v, fails)
