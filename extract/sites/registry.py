"""registry.CollectorRegistry._get_names: the `type_suffixes` dict literal (metric type -> suffixes a family of that
type claims besides its own name), and the shape of the loop that applies it; the frame flags (constructors, target-info
dict copies); and the DECISION STRUCTURE of register / unregister / set_target_info / collect / _get_names /
RestrictedRegistry.collect as Bool flags which Model/Registry.lean consults (statement order, which test guards which
store, operator polarity): a recognised variant flips a flag — the model then does what that code does and the frame /
invariant theorems stop checking — and an unrecognised shape is an EXTRACT-FAIL with the reference values as defaults."""
import ast
from leanlit import *

TARGET = 'Registry'
SOURCES = ['prometheus_client/registry.py', 'prometheus_client/metrics.py']


def _is_private_copy(value, src):
    """`dict(src)` or `dict(src) if src else src` (the falsy original — None or {} — holds nothing to alias)"""
    u = ast.unparse(value)
    return u in ('dict(%s)' % src, 'dict(%s) if %s else %s' % (src, src, src), '%s.copy()' % src, '{**%s}' % src)


def frame_flags(repo):
    """-> (flags dict, notes).  Never raises: a shape it cannot read yields False for that flag (the Lean theorem that needs
    the flag then stops checking and the harness streams of props/c06frame.py look for the failing input)."""
    flags = {'enumValidatesBeforeRegister': False, 'ctorsRegisterLast': False, 'ctorsPublishComplete': False,
             'targetInfoStoredCopied': False, 'targetInfoHandedOutCopied': False}
    notes = []
    try:
        rt = parse(repo, SOURCES[0])
        f = find_func(rt, 'set_target_info', cls='CollectorRegistry')
        stores = [n for n in ast.walk(f) if isinstance(n, ast.Assign) and any(ast.unparse(t) == 'self._target_info' for t in n.targets)]
        flags['targetInfoStoredCopied'] = bool(stores) and all(_is_private_copy(n.value, 'labels') for n in stores)
        g = find_func(rt, 'get_target_info', cls='CollectorRegistry')
        rets = [n for n in ast.walk(g) if isinstance(n, ast.Return)]
        m = find_func(rt, '_target_info_metric', cls='CollectorRegistry')
        bare = [n for n in ast.walk(m) if isinstance(n, ast.Call) and not (isinstance(n.func, ast.Name) and n.func.id == 'dict') for a in list(n.args) + [k.value for k in n.keywords]
                if ast.unparse(a) == 'self._target_info']
        flags['targetInfoHandedOutCopied'] = (bool(rets) and all(r.value is not None and _is_private_copy(r.value, 'self._target_info') for r in rets)
                                              and not bare)
    except Fail as e:
        notes.append('target info: %s' % e)
    try:
        mt = parse(repo, SOURCES[1])
        ok_all = True
        enum_ok = False
        for cls in [n for n in mt.body if isinstance(n, ast.ClassDef)]:
            init = [n for n in cls.body if isinstance(n, ast.FunctionDef) and n.name == '__init__']
            if not init:
                continue
            body = init[0].body
            idx = [i for i, st in enumerate(body) if 'super().__init__(' in ast.unparse(st)]
            if cls.name == 'MetricWrapperBase':
                # the base constructor registers in its LAST statement
                last = ast.unparse(body[-1])
                if 'registry.register(self)' not in last or any('registry.register(self)' in ast.unparse(st) for st in body[:-1]):
                    ok_all = False
                    notes.append('MetricWrapperBase.__init__ does not register in its last statement')
                continue
            if not idx:
                continue
            after = body[idx[0] + 1:]
            # after the registering base constructor returned nothing may raise: plain assignments of copies / attribute reads only
            clean = all(isinstance(st, ast.Assign) and not any(isinstance(x, ast.Raise) for x in ast.walk(st))
                        and all(isinstance(c.func, ast.Name) and c.func.id in ('list', 'dict', 'tuple') for c in ast.walk(st.value) if isinstance(c, ast.Call))
                        for st in after)
            if not clean:
                ok_all = False
                notes.append('%s.__init__ can raise after the base constructor registered the metric' % cls.name)
            if cls.name == 'Enum':
                enum_ok = clean
        flags['ctorsRegisterLast'] = ok_all
        # nothing a collection reads may be assigned only AFTER the base constructor published the object: a collect() in
        # another thread can reach it as soon as registry.register(self) returned
        publish_ok = True
        readers = ('_child_samples', '_multi_samples', '_samples', 'collect', 'describe', '_get_metric', '_metric_init')
        for cls in [n for n in mt.body if isinstance(n, ast.ClassDef)]:
            init = [n for n in cls.body if isinstance(n, ast.FunctionDef) and n.name == '__init__']
            if not init or cls.name == 'MetricWrapperBase':
                continue
            body = init[0].body
            idx = [i for i, st in enumerate(body) if 'super().__init__(' in ast.unparse(st)]
            if not idx:
                continue
            late = set()
            for st in body[idx[0] + 1:]:
                for x in ast.walk(st):
                    if isinstance(x, ast.Attribute) and isinstance(x.ctx, ast.Store) and isinstance(x.value, ast.Name) and x.value.id == 'self':
                        late.add(x.attr)
            read = set()
            for fn in [n for n in cls.body if isinstance(n, ast.FunctionDef) and n.name in readers]:
                for x in ast.walk(fn):
                    if isinstance(x, ast.Attribute) and isinstance(x.ctx, ast.Load) and isinstance(x.value, ast.Name) and x.value.id == 'self':
                        read.add(x.attr)
            if late & read:
                publish_ok = False
                notes.append('%s.__init__ assigns %s after the base constructor registered the metric, but collection reads it'
                             % (cls.name, sorted(late & read)))
        flags['ctorsPublishComplete'] = publish_ok
        flags['enumValidatesBeforeRegister'] = enum_ok
    except Fail as e:
        notes.append('constructors: %s' % e)
    return flags, notes


# ---------------------------------------------------------------------------------------------------------------------
# decision structure of the registry methods (normal forms -> Bool flags the Lean model consults)
# ---------------------------------------------------------------------------------------------------------------------

N2C = 'self._names_to_collectors'
C2N = 'self._collector_to_names'
TI = 'self._target_info'

SHAPE_FLAGS = [
    # (name, doc) — default (on an unreadable shape) is ALWAYS the reference behaviour = true
    ('registerChecksAllBeforeStore', 'register: the clash test covers ALL names against `_names_to_collectors` and its raise precedes every store '
                                     '(false: names are tested and stored one by one, so a raise leaves the earlier names inserted)'),
    ('setTargetInfoStoresAfterCheck', 'set_target_info: `self._target_info = …` comes after the raise (false: assigned first, the tests read the saved previous value)'),
    ('setTargetInfoClashNegatesPrevious', 'set_target_info: the clash test reads `not <previous target info>`'),
    ('setTargetInfoClashIsConjunction', 'set_target_info: the two parts of the clash test are joined by `and`'),
    ('setTargetInfoClearsOnlyWhenPreviouslySet', 'set_target_info: falsy labels pop the reservation only under `elif <previous target info>`'),
    ('unregisterTakesRecordedNames', 'unregister: the names released are `_collector_to_names[collector]` (false: recomputed with `_get_names`)'),
    ('unregisterDeletesEachName', 'unregister: each of them is `del`eted from `_names_to_collectors`, then the collector entry'),
    ('collectSnapshotsUnderLock', 'collect: `_collector_to_names` is copied and target info read inside `with self._lock`'),
    ('collectTargetInfoFirst', 'collect: the target-info family is yielded before the collectors, which follow in dict order'),
    ('getNamesAutoDescribeFallback', '_get_names: describe attribute first; absent (AttributeError) and auto_describe -> collect; neither -> []'),
    ('restrictedResolvesUnderLock', 'RestrictedRegistry.collect: names are resolved and target info read under the registry lock'),
    ('restrictedCollectorsIsSet', 'RestrictedRegistry.collect: the resolved collectors are gathered in a set (false: a list, appended without test)'),
    ('restrictedTargetInfoNeedsRequested', "RestrictedRegistry.collect: target info only when 'target_info' is in the name set"),
    ('restrictedTargetInfoNeedsConfigured', 'RestrictedRegistry.collect: target info only when the registry has it configured'),
    ('restrictedFiltersAndDropsEmpty', 'RestrictedRegistry.collect: every family goes through `_restricted_metric(name_set)`, falsy results are dropped'),
]


def _u(n):
    return ast.unparse(n)


def _body(f):
    """statements of a function without its docstring"""
    b = list(f.body)
    if b and isinstance(b[0], ast.Expr) and isinstance(b[0].value, ast.Constant) and isinstance(b[0].value.value, str):
        b = b[1:]
    return b


def _is_none_init(st):
    return (isinstance(st, ast.Assign) and all(isinstance(t, ast.Name) for t in st.targets)
            and isinstance(st.value, ast.Constant) and st.value.value is None)


def _single_with(stmts, lock, what):
    """stmts must be: (`x = None`)* ; `with <lock>: BODY` ; rest  -> (preamble, BODY, rest)"""
    for i, st in enumerate(stmts):
        if isinstance(st, ast.With):
            if len(st.items) != 1 or _u(st.items[0].context_expr) != lock or st.items[0].optional_vars is not None:
                raise Fail('%s: expected `with %s:`, got `with %s`' % (what, lock, ', '.join(_u(i_) for i_ in st.items)))
            return stmts[:i], list(st.body), stmts[i + 1:]
    raise Fail('%s: no `with %s:` block' % (what, lock))


def _raises_value_error(st):
    return (isinstance(st, ast.Raise) and st.exc is not None
            and _u(st.exc.func if isinstance(st.exc, ast.Call) else st.exc) == 'ValueError')


def shape_register(tree):
    f = find_func(tree, 'register', cls='CollectorRegistry')
    pre, body, rest = _single_with(_body(f), 'self._lock', 'register')
    if pre or rest:
        raise Fail('statements outside `with self._lock`: %s' % _u((pre + rest)[0])[:80])
    steps = []
    dupvar = None
    all_tests = ('set(%s).intersection(names)' % N2C, 'set(names).intersection(%s)' % N2C, 'set(%s) & set(names)' % N2C,
                 'set(names) & set(%s)' % N2C, '[name for name in names if name in %s]' % N2C,
                 '{name for name in names if name in %s}' % N2C)
    for st in body:
        u = _u(st)
        if u == 'names = self._get_names(collector)':
            steps.append('getNames')
        elif isinstance(st, ast.Assign) and len(st.targets) == 1 and isinstance(st.targets[0], ast.Name) and _u(st.value) in all_tests:
            dupvar = st.targets[0].id
            steps.append('testAll')
        elif isinstance(st, ast.If) and not st.orelse and len(st.body) == 1 and _raises_value_error(st.body[0]) \
                and (_u(st.test) == dupvar or _u(st.test) in all_tests):
            if _u(st.test) in all_tests:
                steps.append('testAll')
            steps.append('raise')
        elif isinstance(st, ast.For) and not st.orelse and _u(st.target) == 'name' and _u(st.iter) == 'names':
            steps.append('loop[')
            for b in st.body:
                ub = _u(b)
                if ub == '%s[name] = collector' % N2C:
                    steps.append('storeName')
                elif isinstance(b, ast.If) and not b.orelse and len(b.body) == 1 and _raises_value_error(b.body[0]) \
                        and _u(b.test) == 'name in %s' % N2C:
                    steps += ['testOne', 'raise']
                else:
                    raise Fail('statement in the name loop not understood: %s' % ub[:100])
            steps.append(']')
        elif u == '%s[collector] = names' % C2N:
            steps.append('storeCollector')
        else:
            raise Fail('statement not understood: %s' % u.replace('\n', ' / ')[:120])
    ref = ['getNames', 'testAll', 'raise', 'loop[', 'storeName', ']', 'storeCollector']
    inc = ['getNames', 'loop[', 'testOne', 'raise', 'storeName', ']', 'storeCollector']
    if steps == ref:
        return {'registerChecksAllBeforeStore': True}, ' '.join(steps)
    if steps == inc:
        return {'registerChecksAllBeforeStore': False}, ' '.join(steps)
    raise Fail('step order %s is neither check-all-then-store nor check-and-store-one-by-one' % ' '.join(steps))


def shape_unregister(tree):
    f = find_func(tree, 'unregister', cls='CollectorRegistry')
    pre, body, rest = _single_with(_body(f), 'self._lock', 'unregister')
    if pre or rest:
        raise Fail('statements outside `with self._lock`: %s' % _u((pre + rest)[0])[:80])
    srcs = {'%s[collector]' % C2N: True, 'self._get_names(collector)': False}
    it = None
    if len(body) == 3 and isinstance(body[0], ast.Assign) and _u(body[0].targets[0]) == 'names' and _u(body[0].value) in srcs:
        it = _u(body[0].value)
        body = body[1:]
        loop_iter = 'names'
    else:
        loop_iter = None
    if len(body) != 2 or not isinstance(body[0], ast.For) or body[0].orelse:
        raise Fail('expected a name loop followed by the deletion of the collector entry')
    lp = body[0]
    if loop_iter is None:
        it = _u(lp.iter)
        if it not in srcs:
            raise Fail('the released names come from `%s`' % it[:80])
    elif _u(lp.iter) != loop_iter:
        raise Fail('the loop iterates `%s`' % _u(lp.iter)[:80])
    if _u(lp.target) != 'name' or [_u(b) for b in lp.body] != ['del %s[name]' % N2C]:
        raise Fail('loop body is not `del %s[name]`: %s' % (N2C, ' / '.join(_u(b) for b in lp.body)[:100]))
    if _u(body[1]) != 'del %s[collector]' % C2N:
        raise Fail('last statement is not `del %s[collector]`: %s' % (C2N, _u(body[1])[:80]))
    return {'unregisterTakesRecordedNames': srcs[it], 'unregisterDeletesEachName': True}, 'names<-%s loop[ delName ] delCollector' % it


def shape_set_target_info(tree):
    f = find_func(tree, 'set_target_info', cls='CollectorRegistry')
    pre, body, rest = _single_with(_body(f), 'self._lock', 'set_target_info')
    if pre or rest:
        raise Fail('statements outside `with self._lock`: %s' % _u((pre + rest)[0])[:80])
    ifs = [i for i, st in enumerate(body) if isinstance(st, ast.If)]
    if len(ifs) != 1:
        raise Fail('expected exactly one top-level if/elif in the locked block, found %d' % len(ifs))
    k = ifs[0]
    prev = None
    stored_before = stored_after = 0
    for st in body[:k]:
        if isinstance(st, ast.Assign) and len(st.targets) == 1:
            t, v = st.targets[0], st.value
            if isinstance(t, ast.Name) and _u(v) == TI:
                prev = t.id
                continue
            if _u(t) == TI:
                stored_before += 1
                continue
            if isinstance(t, ast.Tuple) and isinstance(v, ast.Tuple) and len(t.elts) == 2 == len(v.elts) \
                    and isinstance(t.elts[0], ast.Name) and _u(t.elts[1]) == TI and _u(v.elts[0]) == TI:
                prev = t.elts[0].id            # `previous, self._target_info = self._target_info, <new>`
                stored_before += 1
                continue
        raise Fail('statement before the if not understood: %s' % _u(st)[:100])
    for st in body[k + 1:]:
        if isinstance(st, ast.Assign) and len(st.targets) == 1 and _u(st.targets[0]) == TI:
            stored_after += 1
            continue
        raise Fail('statement after the if not understood: %s' % _u(st)[:100])
    if stored_before + stored_after != 1:
        raise Fail('`%s` is assigned %d times' % (TI, stored_before + stored_after))
    after = stored_after == 1
    if after:
        if prev is not None:
            raise Fail('a saved previous value `%s` next to a store after the check' % prev)
        PREV = TI
    else:
        if prev is None:
            raise Fail('`%s` is overwritten before the tests and no previous value is saved' % TI)
        PREV = prev
    top = body[k]
    if _u(top.test) != 'labels' and not (not after and _u(top.test) == TI):
        raise Fail('outer test is `%s`, expected `labels`' % _u(top.test)[:80])
    # truthy branch: clash test -> raise ; reservation
    tb = top.body
    if len(tb) != 2 or not isinstance(tb[0], ast.If) or tb[0].orelse or len(tb[0].body) != 1 or not _raises_value_error(tb[0].body[0]):
        raise Fail('truthy branch is not [if <clash>: raise ValueError ; reserve]')
    ct = tb[0].test
    if not isinstance(ct, ast.BoolOp) or len(ct.values) != 2:
        raise Fail('clash test is not a two-part and/or: %s' % _u(ct)[:100])
    parts = [_u(v) for v in ct.values]
    claimed = "'target_info' in %s" % N2C
    if claimed not in parts:
        raise Fail('clash test does not look up %s: %s' % (claimed, _u(ct)[:100]))
    other = parts[1 - parts.index(claimed)]
    if other == 'not %s' % PREV:
        neg = True
    elif other == PREV:
        neg = False
    else:
        raise Fail('clash test reads `%s`, expected `not %s`' % (other[:60], PREV))
    if _u(tb[1]) != "%s['target_info'] = _EmptyCollector()" % N2C:
        raise Fail('reservation statement changed: %s' % _u(tb[1])[:100])
    # falsy branch
    pop = "%s.pop('target_info', None)" % N2C
    eb = top.orelse
    if len(eb) == 1 and isinstance(eb[0], ast.If) and not eb[0].orelse and _u(eb[0].test) == PREV and [_u(x) for x in eb[0].body] == [pop]:
        guarded = True
    elif [_u(x) for x in eb] == [pop]:
        guarded = False
    else:
        raise Fail('falsy branch is not `elif %s: %s`: %s' % (PREV, pop, ' / '.join(_u(x) for x in eb).replace('\n', ' ')[:120]))
    return ({'setTargetInfoStoresAfterCheck': after, 'setTargetInfoClashNegatesPrevious': neg,
             'setTargetInfoClashIsConjunction': isinstance(ct.op, ast.And), 'setTargetInfoClearsOnlyWhenPreviouslySet': guarded},
            '%sif labels: [if %s%s %s claimed: raise ; reserve] el%s: pop%s' % (
                '' if after else 'store ; ', 'not ' if neg else '', 'prev', 'and' if isinstance(ct.op, ast.And) else 'or',
                'if prev' if guarded else 'se', ' ; store' if after else ''))


def shape_collect(tree):
    f = find_func(tree, 'collect', cls='CollectorRegistry')
    pre, body, rest = _single_with(_body(f), 'self._lock', 'collect')
    if not all(_is_none_init(st) for st in pre):
        raise Fail('statement before the lock not understood: %s' % _u([st for st in pre if not _is_none_init(st)][0])[:80])
    copies = ('copy.copy(%s)' % C2N, '%s.copy()' % C2N, 'dict(%s)' % C2N, 'list(%s)' % C2N)
    if len(body) != 2 or not (isinstance(body[0], ast.Assign) and _u(body[0].targets[0]) == 'collectors' and _u(body[0].value) in copies):
        raise Fail('locked block does not start with `collectors = <copy of %s>`' % C2N)
    if _u(body[1]) != 'if %s:\n    ti = self._target_info_metric()' % TI:
        raise Fail('target info is not read as `if %s: ti = self._target_info_metric()`: %s' % (TI, _u(body[1]).replace('\n', ' / ')[:100]))
    y_ti = 'if ti:\n    yield ti'
    y_co = 'for collector in collectors:\n    yield from collector.collect()'
    r = [_u(st) for st in rest]
    if r == [y_ti, y_co]:
        first = True
    elif r == [y_co, y_ti]:
        first = False
    else:
        raise Fail('the part after the lock is not [yield ti if set ; yield from every collector]: %s' % ' / '.join(r).replace('\n', ' ')[:160])
    return {'collectSnapshotsUnderLock': True, 'collectTargetInfoFirst': first}, 'lock[ snapshot ; ti? ] %s' % ('ti ; collectors' if first else 'collectors ; ti')


def shape_get_names(tree):
    f = find_func(tree, '_get_names', cls='CollectorRegistry')
    b = [_u(st) for st in _body(f)]
    want = ['desc_func = None',
            'try:\n    desc_func = collector.describe\nexcept AttributeError:\n    pass',
            'if not desc_func and self._auto_describe:\n    desc_func = collector.collect',
            'if not desc_func:\n    return []']
    alt = ["desc_func = getattr(collector, 'describe', None)"] + want[2:]
    if b[:4] == want or b[:3] == alt:
        return {'getNamesAutoDescribeFallback': True}, 'describe | (absent & auto_describe -> collect) | []'
    if b[:3] == want[:2] + want[3:]:
        return {'getNamesAutoDescribeFallback': False}, 'describe | []'
    raise Fail('choice of desc_func changed: %s' % ' / '.join(b[:4]).replace('\n', ' ')[:220])


def shape_restricted(tree):
    f = find_func(tree, 'collect', cls='RestrictedRegistry')
    stmts = _body(f)
    pre, body, rest = _single_with(stmts, 'self._registry._lock', 'RestrictedRegistry.collect')
    is_set = None
    for st in pre:
        if _u(st) == 'collectors = set()':
            is_set = True
        elif _u(st) in ('collectors = []', 'collectors = list()'):
            is_set = False
        elif not _is_none_init(st):
            raise Fail('statement before the lock not understood: %s' % _u(st)[:80])
    if is_set is None:
        raise Fail('`collectors` is not initialised to set() or []')
    add = 'collectors.add' if is_set else 'collectors.append'
    loop = ('for name in self._name_set:\n    if name in self._registry._names_to_collectors:\n'
            '        %s(self._registry._names_to_collectors[name])' % add)
    under_lock = True
    if len(body) == 1 and rest and _u(rest[0]) == loop:
        under_lock = False
        rest = rest[1:]
    elif len(body) == 2 and _u(body[1]) == loop:
        pass
    else:
        raise Fail('name resolution loop changed: %s' % ' / '.join(_u(x) for x in body[1:] + rest[:1]).replace('\n', ' ')[:220])
    t = body[0]
    if not isinstance(t, ast.If) or t.orelse or [_u(x) for x in t.body] != ['target_info_metric = self._registry._target_info_metric()']:
        raise Fail('target info is not read as `if …: target_info_metric = self._registry._target_info_metric()`')
    parts = [_u(v) for v in t.test.values] if isinstance(t.test, ast.BoolOp) and isinstance(t.test.op, ast.And) else [_u(t.test)]
    req, conf = "'target_info' in self._name_set", 'self._registry._target_info'
    if not parts or any(p not in (req, conf) for p in parts):
        raise Fail('target-info condition not understood: %s' % _u(t.test)[:120])
    want_rest = ['if target_info_metric:\n    yield target_info_metric',
                 'for collector in collectors:\n    for metric in collector.collect():\n'
                 '        m = metric._restricted_metric(self._name_set)\n        if m:\n            yield m']
    if [_u(x) for x in rest] != want_rest:
        raise Fail('the yielding part changed: %s' % ' / '.join(_u(x) for x in rest).replace('\n', ' ')[:220])
    return ({'restrictedResolvesUnderLock': under_lock, 'restrictedCollectorsIsSet': is_set,
             'restrictedTargetInfoNeedsRequested': req in parts, 'restrictedTargetInfoNeedsConfigured': conf in parts,
             'restrictedFiltersAndDropsEmpty': True},
            '%s ; ti if %s ; %s ; yield filtered non-empty' % ('lock[resolve]' if under_lock else 'lock[] resolve-outside',
                                                              ' and '.join(parts), 'set' if is_set else 'list'))


SHAPES = [('register', shape_register), ('unregister', shape_unregister), ('set_target_info', shape_set_target_info),
          ('collect', shape_collect), ('_get_names', shape_get_names), ('RestrictedRegistry.collect', shape_restricted)]


def shape_flags(repo):
    """-> (flags, normal-form comments, failures).  Never raises."""
    flags = {k: True for k, _ in SHAPE_FLAGS}
    forms, fails = [], []
    try:
        tree = parse(repo, SOURCES[0])
    except Exception as e:          # unreadable file: everything keeps the reference value, one failure line
        return flags, forms, [('file', str(e))]
    for name, fn in SHAPES:
        try:
            fl, form = fn(tree)
            flags.update(fl)
            forms.append((name, form))
        except Fail as e:
            fails.append((name, str(e)))
        except Exception as e:      # an AST shape the reader did not foresee (attribute missing …)
            fails.append((name, 'unreadable: %s: %s' % (type(e).__name__, e)))
    return flags, forms, fails


def _emit(ok, table, why='', flags=None, notes=(), shape=None):
    sflags, forms, sfails = shape if shape is not None else ({k: True for k, _ in SHAPE_FLAGS}, [], [])
    out = header(TARGET, SOURCES)
    if not ok:
        out += '-- EXTRACT-FAIL registry._get_names.type_suffixes: %s\n' % why
    for m, w in sfails:
        out += '-- EXTRACT-FAIL registry.%s: %s\n' % (m, w.replace('\n', ' '))
    out += 'def extractOk : Bool := %s\n' % ('true' if ok and not sfails else 'false')
    for n in notes:
        out += '-- frame flag note: %s\n' % n
    for k, d in (('enumValidatesBeforeRegister', 'Enum.__init__ rejects its arguments BEFORE the base constructor registers the metric'),
                 ('ctorsRegisterLast', 'no built-in metric constructor can raise after MetricWrapperBase.__init__ registered it'),
                 ('ctorsPublishComplete', 'every attribute a collection reads is assigned before MetricWrapperBase.__init__ publishes the object'),
                 ('targetInfoStoredCopied', 'set_target_info stores a private copy of the caller\'s dict'),
                 ('targetInfoHandedOutCopied', 'get_target_info / the collected target_info sample hand out copies')):
        out += '/-- %s -/\ndef %s : Bool := %s\n' % (d, k, 'true' if (flags or {}).get(k) else 'false')
    out += '-- decision structure of the methods of registry.py (read from the AST; the model in Model/Registry.lean consults these)\n'
    for m, form in forms:
        out += '-- normal form registry.%s: %s\n' % (m, form)
    for k, d in SHAPE_FLAGS:
        out += '/-- %s -/\ndef %s : Bool := %s\n' % (d, k, 'true' if sflags.get(k, True) else 'false')
    out += '/-- `type_suffixes` in `CollectorRegistry._get_names`, in source order -/\n'
    out += 'def registrySuffixes : List (List Char × List (List Char)) := [\n'
    out += ',\n'.join('  (%s, %s)' % (chars(k), strlist(v)) for k, v in table)
    out += ']\n'
    return out + footer(TARGET)


def generate(repo):
    table = []
    try:
        tree = parse(repo, SOURCES[0])
        f = find_func(tree, '_get_names', cls='CollectorRegistry')
        d = find_assign(f, 'type_suffixes')
        # the table must be the ONLY thing that decides the suffixes: one assignment, nothing imported or declared global
        # inside the function (a dependency on module state would make the claims depend on configuration)
        nassign = 0
        for n in ast.walk(f):
            if isinstance(n, (ast.Import, ast.ImportFrom, ast.Global, ast.Nonlocal)):
                raise Fail('_get_names has an import/global statement: %s' % ast.unparse(n)[:80])
            tg = []
            if isinstance(n, ast.Assign):
                tg = n.targets
            elif isinstance(n, (ast.AugAssign, ast.AnnAssign)):
                tg = [n.target]
            elif isinstance(n, ast.NamedExpr):
                tg = [n.target]
            nassign += sum(1 for t in tg for x in ast.walk(t) if isinstance(x, ast.Name) and x.id == 'type_suffixes')
        if nassign != 1:
            raise Fail('type_suffixes is assigned %d times in _get_names' % nassign)
        if not isinstance(d, ast.Dict):
            raise Fail('type_suffixes is not a dict literal')
        seen = set()
        for k, v in zip(d.keys, d.values):
            if k is None:
                raise Fail('dict unpacking in type_suffixes')
            key = const(k, str)
            if key in seen:
                raise Fail('repeated key %r' % key)
            seen.add(key)
            if not isinstance(v, (ast.List, ast.Tuple)):
                raise Fail('value of %r is not a list literal' % key)
            table.append((key, [const(e, str) for e in v.elts]))
        # the loop that applies the table: every name (family name = empty suffix first, then the type's suffixes) is
        # recorded once
        loops = [n for n in f.body if isinstance(n, ast.For)]
        if len(loops) != 1:
            raise Fail('expected exactly one top-level for loop in _get_names')
        lp = loops[0]
        want = ("for metric in desc_func():\n"
                "    for suffix in [''] + type_suffixes.get(metric.type, []):\n"
                "        if metric.name + suffix not in result:\n"
                "            result.append(metric.name + suffix)")
        if ast.unparse(lp) != want:
            raise Fail('the loop applying type_suffixes changed: %s' % ast.unparse(lp).replace('\n', ' / ')[:200])
        fl, notes = frame_flags(repo)
        return _emit(True, table, flags=fl, notes=notes, shape=shape_flags(repo))
    except Fail as e:
        fl, notes = frame_flags(repo)
        return _emit(False, [], str(e), flags=fl, notes=notes, shape=shape_flags(repo))
