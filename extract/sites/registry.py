"""registry.CollectorRegistry._get_names: the `type_suffixes` dict literal (metric type -> suffixes a family of that
type claims besides its own name), and the shape of the loop that applies it."""
import ast
from leanlit import *

TARGET = 'Registry'
SOURCES = ['prometheus_client/registry.py']


def _emit(ok, table, why=''):
    out = header(TARGET, SOURCES)
    if not ok:
        out += '-- EXTRACT-FAIL registry._get_names.type_suffixes: %s\n' % why
    out += 'def extractOk : Bool := %s\n' % ('true' if ok else 'false')
    out += '/-- `type_suffixes` in `CollectorRegistry._get_names`, in source order -/\n'
    out += 'def registrySuffixes : List (List Char × List (List Char)) := [\n'
    out += ',\n'.join('  (%s, %s)' % (chars(k), strlist(v)) for k, v in table)
    out += ']\n'
    return out + footer(TARGET)


def generate(repo):
    table = []
    try:
        tree = parse(repo, SOURCES[0])
        f = find_func(tree, '_get_names', cls='CollectorRegistry')
        d = find_assign(f, 'type_suffixes')
        # the table must be the ONLY thing that decides the suffixes: one assignment, nothing imported or declared global
        # inside the function (a dependency on module state would make the claims depend on configuration)
        nassign = 0
        for n in ast.walk(f):
            if isinstance(n, (ast.Import, ast.ImportFrom, ast.Global, ast.Nonlocal)):
                raise Fail('_get_names has an import/global statement: %s' % ast.unparse(n)[:80])
            tg = []
            if isinstance(n, ast.Assign):
                tg = n.targets
            elif isinstance(n, (ast.AugAssign, ast.AnnAssign)):
                tg = [n.target]
            elif isinstance(n, ast.NamedExpr):
                tg = [n.target]
            nassign += sum(1 for t in tg for x in ast.walk(t) if isinstance(x, ast.Name) and x.id == 'type_suffixes')
        if nassign != 1:
            raise Fail('type_suffixes is assigned %d times in _get_names' % nassign)
        if not isinstance(d, ast.Dict):
            raise Fail('type_suffixes is not a dict literal')
        seen = set()
        for k, v in zip(d.keys, d.values):
            if k is None:
                raise Fail('dict unpacking in type_suffixes')
            key = const(k, str)
            if key in seen:
                raise Fail('repeated key %r' % key)
            seen.add(key)
            if not isinstance(v, (ast.List, ast.Tuple)):
                raise Fail('value of %r is not a list literal' % key)
            table.append((key, [const(e, str) for e in v.elts]))
        # the loop that applies the table: every name (family name = empty suffix first, then the type's suffixes) is
        # recorded once
        loops = [n for n in f.body if isinstance(n, ast.For)]
        if len(loops) != 1:
            raise Fail('expected exactly one top-level for loop in _get_names')
        lp = loops[0]
        want = ("for metric in desc_func():\n"
                "    for suffix in [''] + type_suffixes.get(metric.type, []):\n"
                "        if metric.name + suffix not in result:\n"
                "            result.append(metric.name + suffix)")
        if ast.unparse(lp) != want:
            raise Fail('the loop applying type_suffixes changed: %s' % ast.unparse(lp).replace('\n', ' / ')[:200])
        return _emit(True, table)
    except Fail as e:
        return _emit(False, [], str(e))
