"""registry.CollectorRegistry._get_names: the `type_suffixes` dict literal (metric type -> suffixes a family of that
type claims besides its own name), and the shape of the loop that applies it."""
import ast
from leanlit import *

TARGET = 'Registry'
SOURCES = ['prometheus_client/registry.py', 'prometheus_client/metrics.py']


def _is_private_copy(value, src):
    """`dict(src)` or `dict(src) if src else src` (the falsy original — None or {} — holds nothing to alias)"""
    u = ast.unparse(value)
    return u in ('dict(%s)' % src, 'dict(%s) if %s else %s' % (src, src, src), '%s.copy()' % src, '{**%s}' % src)


def frame_flags(repo):
    """-> (flags dict, notes).  Never raises: a shape it cannot read yields False for that flag (the Lean theorem that needs
    the flag then stops checking and the harness streams of props/c06frame.py look for the failing input)."""
    flags = {'enumValidatesBeforeRegister': False, 'ctorsRegisterLast': False,
             'targetInfoStoredCopied': False, 'targetInfoHandedOutCopied': False}
    notes = []
    try:
        rt = parse(repo, SOURCES[0])
        f = find_func(rt, 'set_target_info', cls='CollectorRegistry')
        stores = [n for n in ast.walk(f) if isinstance(n, ast.Assign) and any(ast.unparse(t) == 'self._target_info' for t in n.targets)]
        flags['targetInfoStoredCopied'] = bool(stores) and all(_is_private_copy(n.value, 'labels') for n in stores)
        g = find_func(rt, 'get_target_info', cls='CollectorRegistry')
        rets = [n for n in ast.walk(g) if isinstance(n, ast.Return)]
        m = find_func(rt, '_target_info_metric', cls='CollectorRegistry')
        bare = [n for n in ast.walk(m) if isinstance(n, ast.Call) and not (isinstance(n.func, ast.Name) and n.func.id == 'dict') for a in list(n.args) + [k.value for k in n.keywords]
                if ast.unparse(a) == 'self._target_info']
        flags['targetInfoHandedOutCopied'] = (bool(rets) and all(r.value is not None and _is_private_copy(r.value, 'self._target_info') for r in rets)
                                              and not bare)
    except Fail as e:
        notes.append('target info: %s' % e)
    try:
        mt = parse(repo, SOURCES[1])
        ok_all = True
        enum_ok = False
        for cls in [n for n in mt.body if isinstance(n, ast.ClassDef)]:
            init = [n for n in cls.body if isinstance(n, ast.FunctionDef) and n.name == '__init__']
            if not init:
                continue
            body = init[0].body
            idx = [i for i, st in enumerate(body) if 'super().__init__(' in ast.unparse(st)]
            if cls.name == 'MetricWrapperBase':
                # the base constructor registers in its LAST statement
                last = ast.unparse(body[-1])
                if 'registry.register(self)' not in last or any('registry.register(self)' in ast.unparse(st) for st in body[:-1]):
                    ok_all = False
                    notes.append('MetricWrapperBase.__init__ does not register in its last statement')
                continue
            if not idx:
                continue
            after = body[idx[0] + 1:]
            # after the registering base constructor returned nothing may raise: plain assignments of copies / attribute reads only
            clean = all(isinstance(st, ast.Assign) and not any(isinstance(x, ast.Raise) for x in ast.walk(st))
                        and all(isinstance(c.func, ast.Name) and c.func.id in ('list', 'dict', 'tuple') for c in ast.walk(st.value) if isinstance(c, ast.Call))
                        for st in after)
            if not clean:
                ok_all = False
                notes.append('%s.__init__ can raise after the base constructor registered the metric' % cls.name)
            if cls.name == 'Enum':
                enum_ok = clean
        flags['ctorsRegisterLast'] = ok_all
        flags['enumValidatesBeforeRegister'] = enum_ok
    except Fail as e:
        notes.append('constructors: %s' % e)
    return flags, notes


def _emit(ok, table, why='', flags=None, notes=()):
    out = header(TARGET, SOURCES)
    if not ok:
        out += '-- EXTRACT-FAIL registry._get_names.type_suffixes: %s\n' % why
    out += 'def extractOk : Bool := %s\n' % ('true' if ok else 'false')
    for n in notes:
        out += '-- frame flag note: %s\n' % n
    for k, d in (('enumValidatesBeforeRegister', 'Enum.__init__ rejects its arguments BEFORE the base constructor registers the metric'),
                 ('ctorsRegisterLast', 'no built-in metric constructor can raise after MetricWrapperBase.__init__ registered it'),
                 ('targetInfoStoredCopied', 'set_target_info stores a private copy of the caller\'s dict'),
                 ('targetInfoHandedOutCopied', 'get_target_info / the collected target_info sample hand out copies')):
        out += '/-- %s -/\ndef %s : Bool := %s\n' % (d, k, 'true' if (flags or {}).get(k) else 'false')
    out += '/-- `type_suffixes` in `CollectorRegistry._get_names`, in source order -/\n'
    out += 'def registrySuffixes : List (List Char × List (List Char)) := [\n'
    out += ',\n'.join('  (%s, %s)' % (chars(k), strlist(v)) for k, v in table)
    out += ']\n'
    return out + footer(TARGET)


def generate(repo):
    table = []
    try:
        tree = parse(repo, SOURCES[0])
        f = find_func(tree, '_get_names', cls='CollectorRegistry')
        d = find_assign(f, 'type_suffixes')
        # the table must be the ONLY thing that decides the suffixes: one assignment, nothing imported or declared global
        # inside the function (a dependency on module state would make the claims depend on configuration)
        nassign = 0
        for n in ast.walk(f):
            if isinstance(n, (ast.Import, ast.ImportFrom, ast.Global, ast.Nonlocal)):
                raise Fail('_get_names has an import/global statement: %s' % ast.unparse(n)[:80])
            tg = []
            if isinstance(n, ast.Assign):
                tg = n.targets
            elif isinstance(n, (ast.AugAssign, ast.AnnAssign)):
                tg = [n.target]
            elif isinstance(n, ast.NamedExpr):
                tg = [n.target]
            nassign += sum(1 for t in tg for x in ast.walk(t) if isinstance(x, ast.Name) and x.id == 'type_suffixes')
        if nassign != 1:
            raise Fail('type_suffixes is assigned %d times in _get_names' % nassign)
        if not isinstance(d, ast.Dict):
            raise Fail('type_suffixes is not a dict literal')
        seen = set()
        for k, v in zip(d.keys, d.values):
            if k is None:
                raise Fail('dict unpacking in type_suffixes')
            key = const(k, str)
            if key in seen:
                raise Fail('repeated key %r' % key)
            seen.add(key)
            if not isinstance(v, (ast.List, ast.Tuple)):
                raise Fail('value of %r is not a list literal' % key)
            table.append((key, [const(e, str) for e in v.elts]))
        # the loop that applies the table: every name (family name = empty suffix first, then the type's suffixes) is
        # recorded once
        loops = [n for n in f.body if isinstance(n, ast.For)]
        if len(loops) != 1:
            raise Fail('expected exactly one top-level for loop in _get_names')
        lp = loops[0]
        want = ("for metric in desc_func():\n"
                "    for suffix in [''] + type_suffixes.get(metric.type, []):\n"
                "        if metric.name + suffix not in result:\n"
                "            result.append(metric.name + suffix)")
        if ast.unparse(lp) != want:
            raise Fail('the loop applying type_suffixes changed: %s' % ast.unparse(lp).replace('\n', ' / ')[:200])
        fl, notes = frame_flags(repo)
        return _emit(True, table, flags=fl, notes=notes)
    except Fail as e:
        fl, notes = frame_flags(repo)
        return _emit(False, [], str(e), flags=fl, notes=notes)
