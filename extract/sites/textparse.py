"""parser.py `_parse_value_and_timestamp`: the timestamp is `_parse_value(values[-1]) / 1000`, and whether that division
sits in a `try` whose handler turns OverflowError (int too large for a float) into ValueError."""
import ast
from leanlit import *

TARGET = 'TextParse'
SOURCES = ['prometheus_client/parser.py']


def _emit(ok, handled, why=''):
    out = header(TARGET, SOURCES)
    if not ok:
        out += '-- EXTRACT-FAIL parser._parse_value_and_timestamp: %s\n' % why
    out += 'def extractOk : Bool := %s\n' % ('true' if ok else 'false')
    out += ('/-- the `/ 1000` of the timestamp is inside `try: … except OverflowError: raise ValueError(…)` -/\n'
            'def tsOverflowToValueError : Bool := %s\n' % ('true' if handled else 'false'))
    return out + footer(TARGET)


def _is_ts_division(node):
    """`timestamp = (<expr> / 1000) if len(values) > 1 else None` (or without the conditional)"""
    if not (isinstance(node, ast.Assign) and len(node.targets) == 1 and isinstance(node.targets[0], ast.Name)
            and node.targets[0].id == 'timestamp'):
        return False
    v = node.value
    if isinstance(v, ast.IfExp):
        v = v.body
    return (isinstance(v, ast.BinOp) and isinstance(v.op, ast.Div) and isinstance(v.right, ast.Constant)
            and v.right.value == 1000 and '_parse_value(values[-1])' in ast.unparse(v.left))


def generate(repo):
    try:
        tree = parse(repo, SOURCES[0])
        f = find_func(tree, '_parse_value_and_timestamp')
        plain = [n for n in f.body if _is_ts_division(n)]
        tries = [n for n in f.body if isinstance(n, ast.Try) and any(_is_ts_division(b) for b in n.body)]
        if len(plain) + len(tries) != 1:
            raise Fail('expected exactly one `timestamp = _parse_value(values[-1]) / 1000` (found %d)' % (len(plain) + len(tries)))
        if plain:
            return _emit(True, False)
        t = tries[0]
        if t.orelse or t.finalbody:
            raise Fail('try with else/finally around the timestamp division')
        handled = False
        for h in t.handlers:
            names = []
            if isinstance(h.type, ast.Name):
                names = [h.type.id]
            elif isinstance(h.type, ast.Tuple):
                names = [e.id for e in h.type.elts if isinstance(e, ast.Name)]
            elif h.type is None:
                raise Fail('bare except around the timestamp division')
            if 'OverflowError' in names:
                if not (len(h.body) == 1 and isinstance(h.body[0], ast.Raise) and isinstance(h.body[0].exc, ast.Call)
                        and isinstance(h.body[0].exc.func, ast.Name) and h.body[0].exc.func.id == 'ValueError'):
                    raise Fail('OverflowError handler does not `raise ValueError(...)`')
                handled = True
            elif names != ['ValueError']:
                raise Fail('unexpected handler %s around the timestamp division' % names)
        return _emit(True, handled)
    except Fail as e:
        return _emit(False, False, str(e))
    except SyntaxError as e:
        return _emit(False, False, 'syntax error: %s' % e)
