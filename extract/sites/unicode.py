"""Interpreter facts (trusted base): Unicode decimal digits (category Nd) accepted by int()/float(), taken from the
running interpreter's tables.  Nd characters come in runs of ten starting at the zero digit."""
import sys
from leanlit import *

TARGET = 'Unicode'
SOURCES = ['(the running CPython: str.isdecimal / unicodedata)']


def generate(repo):
    import unicodedata
    runs = []
    cp = 0
    while cp < 0x110000:
        c = chr(cp)
        if c.isdecimal():
            start = cp
            while cp < 0x110000 and chr(cp).isdecimal():
                cp += 1
            runs.append((start, cp - 1))
        else:
            cp += 1
    ok = all((b - a + 1) % 10 == 0 and unicodedata.decimal(chr(a)) == 0 for a, b in runs)
    out = header(TARGET, SOURCES)
    if not ok:
        out += '-- EXTRACT-FAIL unicode: an Nd run does not start at a zero digit\n'
    out += 'def extractOk : Bool := %s\n' % ('true' if ok else 'false')
    out += '/-- inclusive code point ranges of category Nd; digit value = (cp - lo) % 10 -/\n'
    out += 'def ndRanges : List (Nat × Nat) := [%s]\n' % ', '.join('(%d, %d)' % r for r in runs)
    out += 'def maxStrDigits : Nat := %d\n' % sys.get_int_max_str_digits()
    return out + footer(TARGET)
