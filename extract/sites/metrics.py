"""metrics.py comparison sites and the order of the checks in `labels()` (property C01).

* `Counter.inc`:                 `if amount < 0: raise ValueError`        -> counterIncGuard   (operator, operand order, constant)
* `Histogram.observe`:           `if amount <= bound:` inside the loop     -> histObserveTest   (operator, operand order)
* `Histogram._child_samples`:    `if self._upper_bounds[0] >= 0:` (_sum)   -> histSumTest       (operator, operand order, constant, index)
* `Counter.reset`, `Info.info`:  is `self._raise_if_not_observable()` the first statement?  -> counterResetChecksObservable,
                                 infoChecksObservable   (finding F7: today it is not, and a labelled parent raises AttributeError)
* `Counter.reset`:               `self._value.set(0.0)` vs `set(0)`                         -> resetStoresFloat
* `Info.info`, `Enum.__init__`, `Histogram.__init__`: is the caller's dict / states / buckets object COPIED before it is
                                 stored?                       -> infoCopiesDict, enumCopiesStates, histogramCopiesBuckets
* `MetricWrapperBase.labels`:    the three guards before `if labelkwargs:` -> labelsCheckOrder  (in source order)
                                 `for l in self._labelnames` in the keyword branch -> kwargsValueOrder (declaration | call)
                                 `sorted(labelkwargs) != sorted(self._labelnames)`, `len(labelvalues) != len(self._labelnames)`
"""
import ast
from leanlit import *

TARGET = 'Metrics'
SOURCES = ['prometheus_client/metrics.py']

OPS = {ast.Lt: 'lt', ast.LtE: 'le', ast.Gt: 'gt', ast.GtE: 'ge', ast.Eq: 'eq', ast.NotEq: 'ne'}

PRELUDE = '''inductive CmpOp | lt | le | gt | ge | eq | ne
deriving Repr, DecidableEq
/-- `var op const` when `varLeft`, else `const op var` -/
structure CmpConst where
  op : CmpOp
  varLeft : Bool
  const : Int
deriving Repr, DecidableEq
/-- `amount op bound` when `amountLeft`, else `bound op amount` -/
structure CmpVars where
  op : CmpOp
  amountLeft : Bool
deriving Repr, DecidableEq
/-- the guards at the top of `MetricWrapperBase.labels` -/
inductive LabelsCheck | noLabelnames | hasLabelvalues | bothArgsKwargs
deriving Repr, DecidableEq
/-- where the keyword branch of `labels()` takes its values from: the declared label names, or the call's own order -/
inductive KwOrder | declaration | call
deriving Repr, DecidableEq
'''

# Fallback values when a site has an unknown shape: the NOMINAL ones (what the unchanged library has), so that the model,
# the driver and every lemma in their import closure still build and only `extractOk := false` (theorem `extract_ok`)
# reports the site; a site that is understood overwrites its entries with what the source says.
DEFAULTS = dict(counter=('lt', True, 0), observe=('le', True), hsum=('ge', True, 0, 0),
                checks=['noLabelnames', 'hasLabelvalues', 'bothArgsKwargs'], kworder='declaration',
                kwnames='ne', poscount='ne', reset_checks=True, info_checks=True, reset_float=True,
                info_copies=True, states_copied=True, buckets_copied=True)


def _emit(fails, v):
    out = header(TARGET, SOURCES)
    for site, why in fails:
        out += '-- EXTRACT-FAIL metrics.%s: %s\n' % (site, why)
    out += PRELUDE
    out += 'def extractOk : Bool := %s\n' % ('false' if fails else 'true')
    b = lambda x: 'true' if x else 'false'
    c = v['counter']
    out += '/-- `Counter.inc`: the guard that rejects an amount -/\n'
    out += 'def counterIncGuard : CmpConst := ⟨.%s, %s, %d⟩\n' % (c[0], b(c[1]), c[2])
    o = v['observe']
    out += '/-- `Histogram.observe`: the test that selects the bucket inside `for i, bound in enumerate(self._upper_bounds)` -/\n'
    out += 'def histObserveTest : CmpVars := ⟨.%s, %s⟩\n' % (o[0], b(o[1]))
    h = v['hsum']
    out += '/-- `Histogram._child_samples`: `_sum` is exposed when `self._upper_bounds[histSumIndex] op const` -/\n'
    out += 'def histSumTest : CmpConst := ⟨.%s, %s, %d⟩\n' % (h[0], b(h[1]), h[2])
    out += 'def histSumIndex : Nat := %d\n' % h[3]
    out += '/-- `labels()`: guards before the keyword/positional split, in source order (each raises ValueError) -/\n'
    out += 'def labelsCheckOrder : List LabelsCheck := [%s]\n' % ', '.join('.' + x for x in v['checks'])
    out += '/-- `labels()`: keyword values are collected `for l in self._labelnames` (declaration) or in the call\'s order -/\n'
    out += 'def kwargsValueOrder : KwOrder := .%s\n' % v['kworder']
    out += '/-- `labels()`: operator of `sorted(labelkwargs) <op> sorted(self._labelnames)` and of `len(labelvalues) <op> len(self._labelnames)` -/\n'
    out += 'def kwNamesCmp : CmpOp := .%s\n' % v['kwnames']
    out += 'def posCountCmp : CmpOp := .%s\n' % v['poscount']
    out += '/-- does `Counter.reset` / `Info.info` start with `self._raise_if_not_observable()`? -/\n'
    out += 'def counterResetChecksObservable : Bool := %s\n' % b(v['reset_checks'])
    out += 'def infoChecksObservable : Bool := %s\n' % b(v['info_checks'])
    out += '/-- `Counter.reset`: is the stored zero the float `0.0` (true) or the int `0` (false)?  With an int the cell holds a\n'
    out += 'Python int and later int amounts are added exactly instead of in floating point. -/\n'
    out += 'def resetStoresFloat : Bool := %s\n' % b(v['reset_float'])
    out += '/-- does the library store a COPY of an object the caller may go on mutating?  `Info.info`: `self._value = dict(val)`;\n'
    out += '`Enum.__init__`: `self._states` / `self._kwargs[\'states\']` from `list(states)`; `Histogram.__init__`:\n'
    out += '`self._kwargs[\'buckets\']` from `list(buckets)`.  false = the bare name is stored (the caller\'s object is aliased). -/\n'
    out += 'def infoCopiesDict : Bool := %s\n' % b(v['info_copies'])
    out += 'def enumCopiesStates : Bool := %s\n' % b(v['states_copied'])
    out += 'def histogramCopiesBuckets : Bool := %s\n' % b(v['buckets_copied'])
    return out + footer(TARGET)


def _raises_value_error(body):
    if len(body) != 1 or not isinstance(body[0], ast.Raise) or body[0].exc is None:
        return False
    e = body[0].exc
    f = e.func if isinstance(e, ast.Call) else e
    return isinstance(f, ast.Name) and f.id == 'ValueError'


def _num(node):
    """integer value of a numeric literal (possibly negated)"""
    neg = False
    if isinstance(node, ast.UnaryOp) and isinstance(node.op, ast.USub):
        neg, node = True, node.operand
    if not isinstance(node, ast.Constant) or isinstance(node.value, bool) or not isinstance(node.value, (int, float)):
        return None
    if node.value != int(node.value):
        return None
    return -int(node.value) if neg else int(node.value)


def _cmp_const(test, is_var):
    """`var op K` / `K op var` -> (op, varLeft, K)"""
    if not (isinstance(test, ast.Compare) and len(test.ops) == 1 and type(test.ops[0]) in OPS):
        raise Fail('single comparison expected, got %s' % ast.unparse(test))
    l, r = test.left, test.comparators[0]
    op = OPS[type(test.ops[0])]
    if is_var(l) and _num(r) is not None:
        return (op, True, _num(r))
    if is_var(r) and _num(l) is not None:
        return (op, False, _num(l))
    raise Fail('operands not understood: %s' % ast.unparse(test))


def _is_name(n, name):
    return isinstance(n, ast.Name) and n.id == name


def site_counter(tree, v):
    f = find_func(tree, 'inc', cls='Counter')
    guards = [n for n in f.body if isinstance(n, ast.If) and _raises_value_error(n.body) and not n.orelse]
    if len(guards) != 1:
        raise Fail('expected exactly one `if …: raise ValueError` guard, found %d' % len(guards))
    v['counter'] = _cmp_const(guards[0].test, lambda n: _is_name(n, 'amount'))
    # the guard must precede the mutation `self._value.inc(amount)`
    idx_g = f.body.index(guards[0])
    idx_m = [i for i, n in enumerate(f.body) if ast.unparse(n) == 'self._value.inc(amount)']
    if not idx_m or idx_m[0] < idx_g:
        raise Fail('`self._value.inc(amount)` not found after the guard')


def site_observe(tree, v):
    f = find_func(tree, 'observe', cls='Histogram')
    loops = [n for n in f.body if isinstance(n, ast.For)]
    if len(loops) != 1:
        raise Fail('expected one for loop')
    # the scan must see the caller's `amount` (Python compares an int observation with a float bound exactly):
    # no rebinding such as `amount = float(amount)` anywhere in the method
    for n in ast.walk(f):
        if isinstance(n, (ast.Assign, ast.AugAssign, ast.AnnAssign)):
            tgts = n.targets if isinstance(n, ast.Assign) else [n.target]
            if any(isinstance(t, ast.Name) and t.id == 'amount' for t in tgts):
                raise Fail('`amount` is rebound before the bucket scan: %s' % ast.unparse(n))
    lp = loops[0]
    if ast.unparse(lp.target) != '(i, bound)' or ast.unparse(lp.iter) != 'enumerate(self._upper_bounds)':
        raise Fail('loop header changed: for %s in %s' % (ast.unparse(lp.target), ast.unparse(lp.iter)))
    if len(lp.body) != 1 or not isinstance(lp.body[0], ast.If) or lp.body[0].orelse:
        raise Fail('loop body is not a single if')
    iff = lp.body[0]
    t = iff.test
    if not (isinstance(t, ast.Compare) and len(t.ops) == 1 and type(t.ops[0]) in OPS):
        raise Fail('single comparison expected, got %s' % ast.unparse(t))
    l, r = t.left, t.comparators[0]
    if _is_name(l, 'amount') and _is_name(r, 'bound'):
        v['observe'] = (OPS[type(t.ops[0])], True)
    elif _is_name(l, 'bound') and _is_name(r, 'amount'):
        v['observe'] = (OPS[type(t.ops[0])], False)
    else:
        raise Fail('operands not understood: %s' % ast.unparse(t))
    if ast.unparse(iff.body[0]) != 'self._buckets[i].inc(1)' or not isinstance(iff.body[-1], ast.Break):
        raise Fail('selected bucket is not incremented by 1 followed by break')


def site_hsum(tree, v):
    f = find_func(tree, '_child_samples', cls='Histogram')
    hits = []
    for n in f.body:
        if isinstance(n, ast.If) and "'_sum'" in ast.unparse(n):
            hits.append(n)
    if len(hits) != 1:
        raise Fail('expected one `if` guarding the _sum sample, found %d' % len(hits))
    t = hits[0].test
    idx = [None]

    def is_var(n):
        if (isinstance(n, ast.Subscript) and ast.unparse(n.value) == 'self._upper_bounds'
                and isinstance(n.slice, ast.Constant) and isinstance(n.slice.value, int) and n.slice.value >= 0):
            idx[0] = n.slice.value
            return True
        return False
    op, left, k = _cmp_const(t, is_var)
    v['hsum'] = (op, left, k, idx[0])


def _first_is_observable_check(f):
    body = [n for n in f.body if not (isinstance(n, ast.Expr) and isinstance(n.value, ast.Constant))]
    return bool(body) and ast.unparse(body[0]) == 'self._raise_if_not_observable()'


def site_reset(tree, v):
    f = find_func(tree, 'reset', cls='Counter')
    v['reset_checks'] = _first_is_observable_check(f)
    # self._value.set(<zero literal>): an int 0 makes the cell a Python int (later int amounts are then added exactly),
    # a float 0.0 keeps the left-to-right floating-point sum
    sets = [n.value for n in f.body if isinstance(n, ast.Expr) and isinstance(n.value, ast.Call)
            and ast.unparse(n.value.func) == 'self._value.set']
    if len(sets) != 1 or len(sets[0].args) != 1 or sets[0].keywords:
        raise Fail('exactly one `self._value.set(<literal>)` expected')
    lit = sets[0].args[0]
    if not isinstance(lit, ast.Constant) or isinstance(lit.value, bool) or not isinstance(lit.value, (int, float)) or lit.value != 0:
        raise Fail('`self._value.set(0)` / `set(0.0)` expected, got %s' % ast.unparse(sets[0]))
    v['reset_float'] = isinstance(lit.value, float)


def site_info(tree, v):
    f = find_func(tree, 'info', cls='Info')
    v['info_checks'] = _first_is_observable_check(f)
    body = [ast.unparse(n) for n in f.body if not (isinstance(n, ast.Expr) and isinstance(n.value, ast.Constant))]
    rest = body[1:] if v['info_checks'] else body
    if not rest or not rest[0].startswith('if self._labelname_set.intersection(val.keys()):'):
        raise Fail('the overlap test `self._labelname_set.intersection(val.keys())` is not the first test')


def _is_copy_of(value, name):
    """True: `list(name)` / `tuple(name)` / `dict(name)` / `name.copy()` / `name[:]`; False: the bare name; else Fail"""
    if isinstance(value, ast.Name) and value.id == name:
        return False
    if (isinstance(value, ast.Call) and isinstance(value.func, ast.Name) and value.func.id in ('list', 'tuple', 'dict')
            and len(value.args) == 1 and not value.keywords and isinstance(value.args[0], ast.Name) and value.args[0].id == name):
        return True
    if ast.unparse(value) in ('%s.copy()' % name, '%s[:]' % name):
        return True
    raise Fail('neither a copy of `%s` nor the bare name: %s' % (name, ast.unparse(value)))


def _stores(func, wanted, name):
    """all assignments in `func` to one of the targets `wanted` (unparsed): is every stored value a copy of `name`?"""
    found = []
    for n in ast.walk(func):
        if isinstance(n, ast.Assign):
            ts = [ast.unparse(t) for t in n.targets]
            if any(t in wanted for t in ts):
                found.append(_is_copy_of(n.value, name))
    if not found:
        raise Fail('no assignment to %s' % ' / '.join(wanted))
    return all(found)


def site_copies(tree, v):
    v['info_copies'] = _stores(find_func(tree, 'info', cls='Info'), ['self._value'], 'val')
    v['states_copied'] = _stores(find_func(tree, '__init__', cls='Enum'), ['self._states', "self._kwargs['states']"], 'states')
    v['buckets_copied'] = _stores(find_func(tree, '__init__', cls='Histogram'), ["self._kwargs['buckets']"], 'buckets')
    # ... and the read side must hand out the stored object unchanged
    cs = find_func(tree, '_child_samples', cls='Info')
    if "Sample('_info', self._value, 1.0, None, None)" not in ast.unparse(cs):
        raise Fail('Info._child_samples does not expose self._value as it is')


def site_labels(tree, v):
    f = find_func(tree, 'labels', cls='MetricWrapperBase')
    body = [n for n in f.body if not (isinstance(n, ast.Expr) and isinstance(n.value, ast.Constant))]
    checks = []
    i = 0
    names = {'not self._labelnames': 'noLabelnames', 'self._labelvalues': 'hasLabelvalues',
             'labelvalues and labelkwargs': 'bothArgsKwargs', 'labelkwargs and labelvalues': 'bothArgsKwargs'}
    while i < len(body) and isinstance(body[i], ast.If) and _raises_value_error(body[i].body) and not body[i].orelse:
        t = ast.unparse(body[i].test)
        if t not in names:
            raise Fail('guard not understood: %s' % t)
        checks.append(names[t])
        i += 1
    v['checks'] = checks
    if i >= len(body) or not isinstance(body[i], ast.If) or ast.unparse(body[i].test) != 'labelkwargs':
        raise Fail('`if labelkwargs:` expected after the guards')
    br = body[i]
    # keyword branch: if sorted(labelkwargs) <op> sorted(self._labelnames): raise ValueError ; labelvalues = tuple(<genexp>)
    if len(br.body) != 2 or not isinstance(br.body[0], ast.If) or not _raises_value_error(br.body[0].body):
        raise Fail('keyword branch shape')
    t = br.body[0].test
    if not (isinstance(t, ast.Compare) and len(t.ops) == 1 and type(t.ops[0]) in OPS
            and {ast.unparse(t.left), ast.unparse(t.comparators[0])} == {'sorted(labelkwargs)', 'sorted(self._labelnames)'}):
        raise Fail('keyword name check not understood: %s' % ast.unparse(t))
    v['kwnames'] = OPS[type(t.ops[0])]
    a = br.body[1]
    if not (isinstance(a, ast.Assign) and ast.unparse(a.targets[0]) == 'labelvalues' and isinstance(a.value, ast.Call)
            and _is_name(a.value.func, 'tuple') and len(a.value.args) == 1 and isinstance(a.value.args[0], ast.GeneratorExp)):
        raise Fail('labelvalues = tuple(<generator>) expected in the keyword branch')
    g = a.value.args[0]
    if len(g.generators) != 1 or g.generators[0].ifs:
        raise Fail('generator shape')
    gen = g.generators[0]
    tgt, it, elt = ast.unparse(gen.target), ast.unparse(gen.iter), ast.unparse(g.elt)
    if it == 'self._labelnames' and elt == 'str(labelkwargs[%s])' % tgt:
        v['kworder'] = 'declaration'
    elif it in ('labelkwargs', 'labelkwargs.keys()') and elt == 'str(labelkwargs[%s])' % tgt:
        v['kworder'] = 'call'
    elif it == 'labelkwargs.values()' and elt == 'str(%s)' % tgt:
        v['kworder'] = 'call'
    elif it == 'labelkwargs.items()' and isinstance(gen.target, ast.Tuple) and len(gen.target.elts) == 2 \
            and elt == 'str(%s)' % ast.unparse(gen.target.elts[1]):
        v['kworder'] = 'call'
    else:
        raise Fail('keyword values generator not understood: %s for %s in %s' % (elt, tgt, it))
    # positional branch: if len(labelvalues) <op> len(self._labelnames): raise ValueError ; labelvalues = tuple(str(l) for l in labelvalues)
    if len(br.orelse) != 2 or not isinstance(br.orelse[0], ast.If) or not _raises_value_error(br.orelse[0].body):
        raise Fail('positional branch shape')
    t = br.orelse[0].test
    if not (isinstance(t, ast.Compare) and len(t.ops) == 1 and type(t.ops[0]) in OPS
            and {ast.unparse(t.left), ast.unparse(t.comparators[0])} == {'len(labelvalues)', 'len(self._labelnames)'}):
        raise Fail('positional count check not understood: %s' % ast.unparse(t))
    v['poscount'] = OPS[type(t.ops[0])]
    if ast.unparse(br.orelse[1]) != 'labelvalues = tuple((str(l) for l in labelvalues))':
        raise Fail('positional values are not tuple(str(l) for l in labelvalues): %s' % ast.unparse(br.orelse[1]))


def generate(repo):
    v = dict(DEFAULTS)
    fails = []
    try:
        tree = parse(repo, SOURCES[0])
    except (OSError, SyntaxError) as e:
        return _emit([('parse', str(e))], v)
    for name, fn in (('Counter.inc', site_counter), ('Histogram.observe', site_observe),
                     ('Histogram._child_samples', site_hsum), ('Counter.reset', site_reset), ('Info.info', site_info),
                     ('caller-owned arguments', site_copies),
                     ('MetricWrapperBase.labels', site_labels)):
        try:
            fn(tree, v)
        except Fail as e:
            fails.append((name, str(e)))
    return _emit(fails, v)
