"""exposition.write_to_textfile: the EFFECT SKELETON, extracted syntactically in statement order.

    tmppath = f'{path}.{os.getpid()}.{threading.current_thread().ident}'      -> tmpPathParts
    try:
        with open(tmppath, 'wb') as f:                                        -> .openWith .tmp "wb"
            f.write(generate_latest(registry))                                -> .generate, .writeData
                                                                              -> .endWith           (close)
        if os.name == 'nt': os.replace(tmppath, path)                         -> .rename .tmp .target   (both branches
        else:               os.rename(tmppath, path)                             must give the same effect)
    except Exception:                                                         -> caughtClass "Exception"
        if os.path.exists(tmppath): os.remove(tmppath)                        -> .removeIfExists .tmp .tmp
        raise                                                                 -> .reraise

Every effect records WHICH path it names (tmp = the name `tmppath`, target = the parameter `path`, anything else =
other), so that also writing to the target, dropping the remove, swallowing the exception, catching a narrower class or
deriving the temporary name from fewer parts each change the generated skeleton.  The identity parts of the name must be
evaluated in the f-string of the call itself (`os.getpid()`, the thread ident): any other expression there is emitted as
`.other` AND flagged (`extractOk := false`, full skeleton still emitted), because a value computed outside the call — cached
per thread, per module, per object — can be the identity of an earlier caller (it survives os.fork()).
"""
import ast
from leanlit import *

TARGET = 'Textfile'
SOURCES = ['prometheus_client/exposition.py']

DECL = '''/-- the parts the temporary name is concatenated from -/
inductive TmpPart
  | path | lit (s : List Char)
  | pid                       -- `os.getpid()` evaluated in the call: the LIVE pid
  | cachedPid                 -- a module-level name bound to `os.getpid()` at import: a forked child inherits the parent's value
  | threadIdent | other (src : List Char)
deriving DecidableEq, Repr
/-- which path an effect names -/
inductive PathRef | tmp | target | other
deriving DecidableEq, Repr
/-- statements of `write_to_textfile` that have an effect, in source order -/
inductive Sk
  | openWith (p : PathRef) (mode : List Char)   -- `with open(p, mode) as f:` entered
  | generate                                     -- `generate_latest(registry)` evaluated (collectors run, in order)
  | writeData                                    -- `f.write(<the exposition>)` on the handle of the enclosing `with`
  | endWith                                      -- end of the `with` block: the handle is closed (flushed)
  | rename (src dst : PathRef)                   -- `os.rename(src, dst)` / `os.replace(src, dst)`
  | removeIfExists (test rm : PathRef)           -- `if os.path.exists(test): os.remove(rm)`
  | remove (p : PathRef)                         -- unguarded `os.remove(p)`
  | reraise                                      -- bare `raise`
deriving DecidableEq, Repr
'''

DEFAULTS = dict(parts=[], body=[], caught='', handler=[])


def _emit(ok, v, why=''):
    out = header(TARGET, SOURCES)
    if not ok:
        out += '-- EXTRACT-FAIL exposition.write_to_textfile: %s\n' % why.replace('\n', ' ')
    out += DECL
    out += 'def extractOk : Bool := %s\n' % ('true' if ok else 'false')
    out += 'def tmpPathParts : List TmpPart := [%s]\n' % ', '.join(v['parts'])
    out += 'def tryBody : List Sk := [%s]\n' % ', '.join(v['body'])
    out += 'def caughtClass : List Char := %s\n' % chars(v['caught'])
    out += 'def handler : List Sk := [%s]\n' % ', '.join(v['handler'])
    return out + footer(TARGET)


class Site:
    def __init__(self, path_arg, cached_pid_names=()):
        self.path_arg = path_arg
        self.cached_pid_names = set(cached_pid_names)
        self.tmp_name = None
        self.data_names = set()      # names bound to generate_latest(registry)
        self.flags = []              # non-fatal: the skeleton is still emitted in full, but extractOk is false

    def ref(self, n):
        if isinstance(n, ast.Name) and n.id == self.tmp_name: return '.tmp'
        if isinstance(n, ast.Name) and n.id == self.path_arg: return '.target'
        return '.other'

    def is_generate(self, n):
        return isinstance(n, ast.Call) and ast.unparse(n.func) in ('generate_latest', 'exposition.generate_latest')

    def tmp_parts(self, v):
        if not isinstance(v, ast.JoinedStr):
            raise Fail('temporary name is not an f-string: %s' % ast.unparse(v))
        parts = []
        for p in v.values:
            if isinstance(p, ast.Constant):
                parts.append('.lit %s' % chars(const(p, str)))
            elif isinstance(p, ast.FormattedValue):
                if p.format_spec is not None or p.conversion != -1:
                    raise Fail('format spec in the temporary name')
                src = ast.unparse(p.value)
                if src == self.path_arg: parts.append('.path')
                elif src == 'os.getpid()': parts.append('.pid')
                elif src in self.cached_pid_names: parts.append('.cachedPid')
                elif src in ('threading.current_thread().ident', 'threading.get_ident()'): parts.append('.threadIdent')
                else:
                    # the identity of the caller must be read IN the call, on every call: anything else (a helper, a cached
                    # attribute, a thread-local, a module constant) may hold the pid/thread of an EARLIER caller — e.g. survive os.fork()
                    parts.append('.other %s' % chars(src))
                    self.flags.append('part {%s} of the temporary name is not os.getpid() / threading.current_thread().ident / '
                                      'threading.get_ident() evaluated inside write_to_textfile on each call: it is not known to '
                                      'reflect the CURRENT process and thread (a value computed once survives os.fork())' % src)
            else:
                raise Fail('temporary name part not understood')
        return parts

    def call_effect(self, c, handle):
        """effect tags of one call expression statement"""
        fn = ast.unparse(c.func)
        if fn in ('os.rename', 'os.replace'):
            if len(c.args) != 2 or c.keywords: raise Fail('%s arguments' % fn)
            return ['.rename %s %s' % (self.ref(c.args[0]), self.ref(c.args[1]))]
        if fn in ('os.remove', 'os.unlink'):
            if len(c.args) != 1: raise Fail('%s arguments' % fn)
            return ['.remove %s' % self.ref(c.args[0])]
        if isinstance(c.func, ast.Attribute) and c.func.attr == 'write' and isinstance(c.func.value, ast.Name):
            if handle is None or c.func.value.id != handle:
                raise Fail('write on something that is not the handle of the enclosing with: %s' % ast.unparse(c))
            if len(c.args) != 1: raise Fail('write arguments')
            a = c.args[0]
            if self.is_generate(a): return ['.generate', '.writeData']
            if isinstance(a, ast.Name) and a.id in self.data_names: return ['.writeData']
            raise Fail('written value is not the exposition: %s' % ast.unparse(a))
        raise Fail('statement with an unknown effect: %s' % ast.unparse(c))

    def block(self, stmts, handle=None, in_handler=False):
        out = []
        for st in stmts:
            if isinstance(st, ast.Expr) and isinstance(st.value, ast.Constant):
                continue
            if isinstance(st, ast.Pass):
                continue
            if isinstance(st, ast.Assign) and len(st.targets) == 1 and isinstance(st.targets[0], ast.Name) and self.is_generate(st.value):
                self.data_names.add(st.targets[0].id)
                out.append('.generate')
            elif isinstance(st, ast.With):
                if len(st.items) != 1: raise Fail('with statement with several items')
                it = st.items[0]
                c = it.context_expr
                if not (isinstance(c, ast.Call) and ast.unparse(c.func) in ('open', 'io.open') and len(c.args) == 2 and not c.keywords
                        and isinstance(it.optional_vars, ast.Name)):
                    raise Fail('with item is not `open(p, mode) as f`: %s' % ast.unparse(st.items[0]))
                out.append('.openWith %s %s' % (self.ref(c.args[0]), chars(const(c.args[1], str))))
                out += self.block(st.body, it.optional_vars.id, in_handler)
                out.append('.endWith')
            elif isinstance(st, ast.If):
                t = ast.unparse(st.test)
                if t in ("os.name == 'nt'", 'os.name == "nt"'):
                    a, b = self.block(st.body, handle, in_handler), self.block(st.orelse, handle, in_handler)
                    if a != b: raise Fail("the two branches of the os.name == 'nt' test have different effects: %s / %s" % (a, b))
                    out += a
                elif isinstance(st.test, ast.Call) and ast.unparse(st.test.func) == 'os.path.exists' and len(st.test.args) == 1 and not st.orelse:
                    inner = self.block(st.body, handle, in_handler)
                    if len(inner) == 1 and inner[0].startswith('.remove '):
                        out.append('.removeIfExists %s %s' % (self.ref(st.test.args[0]), inner[0].split(' ', 1)[1]))
                    elif inner:
                        raise Fail('body of the os.path.exists test: %s' % inner)
                else:
                    raise Fail('if statement not understood: %s' % t)
            elif isinstance(st, ast.Raise):
                if st.exc is not None or not in_handler: raise Fail('raise of something other than the caught exception')
                out.append('.reraise')
            elif isinstance(st, ast.Expr) and isinstance(st.value, ast.Call):
                out += self.call_effect(st.value, handle)
            else:
                raise Fail('statement not understood: %s' % ast.unparse(st).split('\n')[0])
        return out


def generate(repo):
    v = dict(DEFAULTS)
    try:
        tree = parse(repo, SOURCES[0])
        f = find_func(tree, 'write_to_textfile')
        if len(f.args.args) < 2: raise Fail('parameters')
        # module-level `NAME = os.getpid()`: the pid as it was when the module was imported
        cached = [t.id for n in tree.body if isinstance(n, ast.Assign) and ast.unparse(n.value) == 'os.getpid()'
                  for t in n.targets if isinstance(t, ast.Name)]
        cached += [n.target.id for n in tree.body if isinstance(n, ast.AnnAssign) and n.value is not None
                   and ast.unparse(n.value) == 'os.getpid()' and isinstance(n.target, ast.Name)]
        s = Site(f.args.args[0].arg, cached)
        body = [st for st in f.body if not (isinstance(st, ast.Expr) and isinstance(st.value, ast.Constant))]
        if not (len(body) == 2 and isinstance(body[0], ast.Assign) and len(body[0].targets) == 1
                and isinstance(body[0].targets[0], ast.Name) and isinstance(body[1], ast.Try)):
            raise Fail('function body is not `tmp = …; try: …`: %s' % [type(x).__name__ for x in body])
        s.tmp_name = body[0].targets[0].id
        v['parts'] = s.tmp_parts(body[0].value)
        tr = body[1]
        if tr.orelse or tr.finalbody or len(tr.handlers) != 1:
            raise Fail('try statement has else/finally or not exactly one handler')
        h = tr.handlers[0]
        if h.type is None:
            v['caught'] = 'BaseException'
        elif isinstance(h.type, ast.Name):
            v['caught'] = h.type.id
        else:
            raise Fail('caught class is not a single name: %s' % ast.unparse(h.type))
        v['body'] = s.block(tr.body)
        v['handler'] = s.block(h.body, None, True)
        if s.flags:
            return _emit(False, v, '; '.join(s.flags))
        return _emit(True, v)
    except Fail as e:
        return _emit(False, v, str(e))
