"""multiprocess.py / values.py / metrics.Gauge: the declarative part of the multiprocess collector and of the
`MultiProcessValue` closure (C08, C09).

Data extracted (parameters of the model):
  * gauge mode frozensets `Gauge._MULTIPROC_MODES`, `Gauge._MOST_RECENT_MODES`, the prefix tested by the live-mode set
    comprehension in multiprocess.py, `METRIC_TYPES`
  * the if/elif chain of `_accumulate_metrics` over `metric._multiprocess_mode`: per branch the mode tuple, the source
    comparison operator and the update form (setdefault+compare / `+=` / timestamp compare), the `timestamp or 0` default
  * label / suffix literals (`pid`, `le`, `_bucket`, `_count`), the file-name pattern of values.py (`'{}_{}.db'`), the
    gauge prefix separator, the f-string of `mark_process_dead`
Shapes checked (a change makes `extractOk` false, i.e. a broken obligation, never a silent skip):
  * histogram branch keys buckets by `float(l[1])`, merges with `+=`; the cumulation loop does `acc += value` then stores
    `acc`; `_count` is stored from `acc` after the loop; counters/summaries use `+=`
  * `_read_metrics`: typ/mode/pid from the split basename, `Metric(metric_name, help_text, typ)` only when absent
  * `mark_process_dead` iterates over the whole live-mode set and removes every match
  * values.py: `__init__`, `inc`, `set`, `get` call `__check_for_pid_change` first and under `with lock`; `inc` does
    `self._value += amount` then `write_value`; `__check_for_pid_change` closes, clears and resets EVERY value;
    `__reset` re-reads value and timestamp from the file
"""
import ast
from leanlit import *

TARGET = 'Multiprocess'
SOURCES = ['prometheus_client/multiprocess.py', 'prometheus_client/values.py', 'prometheus_client/metrics.py',
           'prometheus_client/metrics_core.py']

DECLS = '''/-- source comparison operator of a merge test, operands in source order -/
inductive Cmp | lt | gt | le | ge
deriving DecidableEq, Repr
/-- update form of one branch of the gauge chain in `_accumulate_metrics` -/
inductive GaugeRule
  | setdefaultCmp (op : Cmp)   -- current = setdefault(k, value); if value OP current: samples[k] = value
  | plusEq                     -- samples[k] += value
  | tsCmp (op : Cmp)           -- if current_timestamp OP timestamp: samples[k] = value; sample_timestamps[k] = timestamp
deriving DecidableEq, Repr
'''

CMP = {ast.Lt: 'lt', ast.Gt: 'gt', ast.LtE: 'le', ast.GtE: 'ge'}


def norm(n):
    return ast.unparse(n)


def frozenset_literal(node, what):
    # frozenset(('a', 'b', ...))
    if not (isinstance(node, ast.Call) and norm(node.func) == 'frozenset' and len(node.args) == 1
            and isinstance(node.args[0], (ast.Tuple, ast.List, ast.Set))):
        raise Fail('%s is not frozenset(<literal>)' % what)
    return [const(e, str) for e in node.args[0].elts]


def class_assign(tree, cls, name):
    for n in tree.body:
        if isinstance(n, ast.ClassDef) and n.name == cls:
            for st in n.body:
                if isinstance(st, ast.Assign) and len(st.targets) == 1 and norm(st.targets[0]) == name:
                    return st.value
    raise Fail('%s.%s not found' % (cls, name))


def mode_chain(first_if):
    """the if/elif chain over metric._multiprocess_mode -> ([(modes, rule)], else_body)"""
    rules = []
    n = first_if
    info = {'tsOrZero': False}
    while True:
        t = n.test
        if not (isinstance(t, ast.Compare) and len(t.ops) == 1 and isinstance(t.ops[0], ast.In)
                and norm(t.left) == 'metric._multiprocess_mode' and isinstance(t.comparators[0], (ast.Tuple, ast.List, ast.Set))):
            raise Fail('gauge chain test not `metric._multiprocess_mode in (…)`: %s' % norm(t))
        modes = [const(e, str) for e in t.comparators[0].elts]
        rules.append((modes, classify_branch(n.body, info)))
        if len(n.orelse) == 1 and isinstance(n.orelse[0], ast.If):
            n = n.orelse[0]
            continue
        els = n.orelse
        break
    if [norm(s) for s in els] != ['samples[name, labels] = value']:
        raise Fail('all/liveall branch changed: %s' % [norm(s) for s in els])
    return rules, info


def classify_branch(body, info):
    src = [norm(s) for s in body]
    # min / max
    if len(body) == 2 and src[0] == 'current = samples_setdefault(without_pid_key, value)' and isinstance(body[1], ast.If):
        i = body[1]
        t = i.test
        if (isinstance(t, ast.Compare) and len(t.ops) == 1 and type(t.ops[0]) in CMP and norm(t.left) == 'value'
                and norm(t.comparators[0]) == 'current' and not i.orelse
                and [norm(s) for s in i.body] == ['samples[without_pid_key] = value']):
            return '.setdefaultCmp .%s' % CMP[type(t.ops[0])]
        raise Fail('min/max branch test or body changed: %s' % norm(i))
    if src == ['samples[without_pid_key] += value']:
        return '.plusEq'
    if len(body) == 3 and src[0] == 'current_timestamp = sample_timestamps[without_pid_key]' and isinstance(body[2], ast.If):
        if src[1] == 'timestamp = float(timestamp or 0)':
            info['tsOrZero'] = True
        elif src[1] == 'timestamp = float(timestamp)':
            info['tsOrZero'] = False
        else:
            raise Fail('timestamp default changed: %s' % src[1])
        i = body[2]
        t = i.test
        if (isinstance(t, ast.Compare) and len(t.ops) == 1 and type(t.ops[0]) in CMP and norm(t.left) == 'current_timestamp'
                and norm(t.comparators[0]) == 'timestamp' and not i.orelse
                and [norm(s) for s in i.body] == ['samples[without_pid_key] = value', 'sample_timestamps[without_pid_key] = timestamp']):
            return '.tsCmp .%s' % CMP[type(t.ops[0])]
        raise Fail('mostrecent branch test or body changed: %s' % norm(i))
    raise Fail('gauge branch of unknown form: %s' % src)


def find_if(body, test_src):
    for s in body:
        if isinstance(s, ast.If) and norm(s.test) == test_src:
            return s
    raise Fail('`if %s` not found' % test_src)


def with_lock_body(fn):
    """statements of the single `with lock:` block of a method"""
    ws = [s for s in fn.body if isinstance(s, ast.With)]
    if len(ws) != 1 or len(ws[0].items) != 1 or norm(ws[0].items[0].context_expr) != 'lock':
        raise Fail('%s: exactly one `with lock:` expected' % fn.name)
    # nothing that touches the shared state may precede the lock
    for s in fn.body:
        if s is ws[0]:
            break
        if any(isinstance(x, ast.Attribute) and x.attr in ('_value', '_timestamp', '_file') for x in ast.walk(s)):
            raise Fail('%s: shared state touched outside the lock' % fn.name)
    return ws[0].body


def nested_class_func(outer_fn, cls, name):
    for n in outer_fn.body:
        if isinstance(n, ast.ClassDef) and n.name == cls:
            for st in n.body:
                if isinstance(st, ast.FunctionDef) and st.name == name:
                    return st
    raise Fail('%s.%s not found' % (cls, name))


def fstring_parts(node, holes):
    """f'gauge_{mode}_{pid}.db' -> ['gauge_', '_', '.db'] with the hole expressions checked"""
    if not isinstance(node, ast.JoinedStr):
        raise Fail('f-string expected: %s' % norm(node))
    parts, cur, seen = [], '', []
    for v in node.values:
        if isinstance(v, ast.Constant):
            cur += v.value
        else:
            if v.format_spec is not None or v.conversion != -1:
                raise Fail('f-string hole with format spec')
            seen.append(norm(v.value))
            parts.append(cur)
            cur = ''
    parts.append(cur)
    if seen != holes:
        raise Fail('f-string holes %s, expected %s' % (seen, holes))
    return parts


def generate(repo):
    # Fallback values: the shapes this extractor was written against.  When a site has an unexpected shape the run is
    # flagged (`extractOk := false` + EXTRACT-FAIL, a broken obligation) and the definitions NOT yet extracted keep
    # these values, so that the model, the lemma files and the driver still COMPILE and the correspondence run can
    # go on looking for a failing input (an empty literal here used to break `decide` proofs in lemma files and, through
    # them, the driver build).  Values that were extracted before the failure are emitted as extracted.
    v = dict(gaugeModes=['all', 'liveall', 'min', 'livemin', 'max', 'livemax', 'sum', 'livesum', 'mostrecent', 'livemostrecent'],
             mostRecent=['mostrecent', 'livemostrecent'], livePrefix='live',
             metricTypes=['counter', 'gauge', 'summary', 'histogram', 'gaugehistogram', 'unknown', 'info', 'stateset'],
             rules=[(['min', 'livemin'], '.setdefaultCmp .lt'), (['max', 'livemax'], '.setdefaultCmp .gt'),
                    (['sum', 'livesum'], '.plusEq'), (['mostrecent', 'livemostrecent'], '.tsCmp .lt')],
             tsOrZero=True, pid='pid', le='le', bucket='_bucket', count='_count', fileParts=['', '_', '.db'],
             gaugeSep='_', deadParts=['gauge_', '_', '.db'], gaugeType='gauge', histType='histogram', splitSep='_', extLen=3)
    ok, why = True, ''
    try:
        mt = parse(repo, 'prometheus_client/metrics.py')
        v['gaugeModes'] = frozenset_literal(class_assign(mt, 'Gauge', '_MULTIPROC_MODES'), 'Gauge._MULTIPROC_MODES')
        v['mostRecent'] = frozenset_literal(class_assign(mt, 'Gauge', '_MOST_RECENT_MODES'), 'Gauge._MOST_RECENT_MODES')
        core = parse(repo, 'prometheus_client/metrics_core.py')
        tv = find_assign(core, 'METRIC_TYPES')
        if not isinstance(tv, (ast.Tuple, ast.List)):
            raise Fail('METRIC_TYPES is not a literal tuple')
        v['metricTypes'] = [const(e, str) for e in tv.elts]

        mp = parse(repo, 'prometheus_client/multiprocess.py')
        # --- live-mode set comprehension
        lv = find_assign(mp, '_LIVE_GAUGE_MULTIPROCESS_MODES')
        if not (isinstance(lv, ast.SetComp) and norm(lv.elt) == 'm' and len(lv.generators) == 1
                and norm(lv.generators[0].iter) == 'Gauge._MULTIPROC_MODES' and len(lv.generators[0].ifs) == 1):
            raise Fail('_LIVE_GAUGE_MULTIPROCESS_MODES is not {m for m in Gauge._MULTIPROC_MODES if …}')
        cond = lv.generators[0].ifs[0]
        if not (isinstance(cond, ast.Call) and norm(cond.func) == 'm.startswith' and len(cond.args) == 1):
            raise Fail('live-mode filter is not m.startswith(<literal>)')
        v['livePrefix'] = const(cond.args[0], str)

        # --- _read_metrics
        rm = find_func(mp, '_read_metrics', cls='MultiProcessCollector')
        srcs = [norm(s) for s in ast.walk(rm) if isinstance(s, ast.stmt)]
        need = ["parts = os.path.basename(f).split('_')", 'typ = parts[0]', 'pid = parts[2][:-3]',
                'metric._multiprocess_mode = parts[1]', 'metric = metrics.get(metric_name)',
                'metric = Metric(metric_name, help_text, typ)', 'metrics[metric_name] = metric',
                "metric.add_sample(name, labels_key + (('pid', pid),), value, timestamp)",
                'metric.add_sample(name, labels_key, value)', 'labels_key = tuple(sorted(labels.items()))',
                'metric_name, name, labels, help_text = json.loads(key)']
        for s in need:
            if s not in srcs:
                raise Fail('_read_metrics: statement `%s` not found' % s)
        forf = [s for s in rm.body if isinstance(s, ast.For) and norm(s.target) == 'f']
        if len(forf) != 1:
            raise Fail('_read_metrics: for f in files')
        inner = [s for s in forf[0].body if isinstance(s, ast.For)]
        if len(inner) != 1 or norm(inner[0].target) != '(key, value, timestamp, _)' or norm(inner[0].iter) != 'file_values':
            raise Fail('_read_metrics: entry loop changed')
        ib = inner[0].body
        if len(ib) != 4 or not isinstance(ib[2], ast.If) or norm(ib[2].test) != 'metric is None' \
                or not isinstance(ib[3], ast.If) or not isinstance(ib[3].test, ast.Compare) or norm(ib[3].test.left) != 'typ':
            raise Fail('_read_metrics: entry loop body changed')
        v['gaugeType'] = const(ib[3].test.comparators[0], str)
        v['splitSep'] = '_'
        v['extLen'] = 3
        v['pid'] = 'pid'

        # --- _accumulate_metrics
        am = find_func(mp, '_accumulate_metrics', cls='MultiProcessCollector')
        loops = [s for s in am.body if isinstance(s, ast.For)]
        if len(loops) != 1 or norm(loops[0].iter) != 'metrics.values()':
            raise Fail('_accumulate_metrics: outer loop')
        mb = loops[0].body
        sample_loop = [s for s in mb if isinstance(s, ast.For) and norm(s.iter) == 'metric.samples']
        if len(sample_loop) != 1:
            raise Fail('_accumulate_metrics: sample loop')
        sb = sample_loop[0].body
        top = [s for s in sb if isinstance(s, ast.If)]
        if len(top) != 1 or norm(top[0].test) != "metric.type == 'gauge'":
            raise Fail("_accumulate_metrics: `if metric.type == 'gauge'` chain")
        g = top[0]
        if norm(g.body[0]) != "without_pid_key = (name, tuple((l for l in labels if l[0] != 'pid')))":
            raise Fail('without_pid_key changed: %s' % norm(g.body[0]))
        if len(g.body) != 2 or not isinstance(g.body[1], ast.If):
            raise Fail('gauge branch shape')
        v['rules'], info = mode_chain(g.body[1])
        v['tsOrZero'] = info['tsOrZero']
        # histogram branch
        if len(g.orelse) != 1 or not isinstance(g.orelse[0], ast.If) or norm(g.orelse[0].test) != "metric.type == 'histogram'":
            raise Fail('histogram branch test')
        v['histType'] = 'histogram'
        h = g.orelse[0]
        hf = [s for s in h.body if isinstance(s, ast.For)]
        if len(hf) != 1 or norm(hf[0].iter) != 'labels' or norm(hf[0].target) != 'l':
            raise Fail('histogram: `for l in labels`')
        li = hf[0].body
        if len(li) != 1 or not isinstance(li[0], ast.If) or norm(li[0].test) != "l[0] == 'le'":
            raise Fail("histogram: `if l[0] == 'le'`")
        hb = [norm(s) for s in li[0].body]
        if hb != ['bucket_value = float(l[1])', "without_le = tuple((l for l in labels if l[0] != 'le'))",
                  'buckets[without_le][bucket_value] += value', 'break']:
            raise Fail('histogram bucket merge changed: %s' % hb)
        if [norm(s) for s in hf[0].orelse] != ['samples[name, labels] += value']:
            raise Fail('histogram _sum accumulation changed')
        if [norm(s) for s in h.orelse] != ['samples[name, labels] += value']:
            raise Fail('counter/summary accumulation changed')
        v['le'] = 'le'
        # cumulation
        cum = [s for s in mb if isinstance(s, ast.If) and norm(s.test) == "metric.type == 'histogram'"]
        if len(cum) != 1 or len(cum[0].body) != 1 or not isinstance(cum[0].body[0], ast.For) \
                or norm(cum[0].body[0].iter) != 'buckets.items()' or norm(cum[0].body[0].target) != '(labels, values)':
            raise Fail('bucket cumulation loop')
        cb = cum[0].body[0].body
        if len(cb) != 3 or norm(cb[0]) != 'acc = 0.0' or not isinstance(cb[1], ast.For) \
                or norm(cb[1].iter) != 'sorted(values.items())' or norm(cb[1].target) != '(bucket, value)':
            raise Fail('bucket cumulation body')
        inner = cb[1].body
        if len(inner) != 2 or norm(inner[0]) != "sample_key = (metric.name + '_bucket', labels + (('le', floatToGoString(bucket)),))":
            raise Fail('bucket sample key changed')
        acc_if = inner[1]
        if not (isinstance(acc_if, ast.If) and norm(acc_if.test) == 'accumulate'
                and [norm(s) for s in acc_if.body] == ['acc += value', 'samples[sample_key] = acc']
                and [norm(s) for s in acc_if.orelse] == ['samples[sample_key] = value']):
            raise Fail('bucket accumulation statements changed')
        cnt = cb[2]
        if not (isinstance(cnt, ast.If) and norm(cnt.test) == 'accumulate'
                and [norm(s) for s in cnt.body] == ["samples[metric.name + '_count', labels] = acc"] and not cnt.orelse):
            raise Fail('_count statement changed: %s' % norm(cnt))
        v['bucket'], v['count'] = '_bucket', '_count'
        conv = [norm(s) for s in mb if isinstance(s, ast.Assign) and norm(s.targets[0]) == 'metric.samples']
        if conv != ['metric.samples = [Sample(name_, dict(labels), value) for (name_, labels), value in samples.items()]']:
            raise Fail('conversion to samples changed')
        col = find_func(mp, 'collect', cls='MultiProcessCollector')
        if [norm(s) for s in col.body][-2:] != ["files = glob.glob(os.path.join(self._path, '*.db'))", 'return self.merge(files, accumulate=True)']:
            raise Fail('collect changed')
        mg = find_func(mp, 'merge', cls='MultiProcessCollector')
        if [norm(s) for s in mg.body][-2:] != ['metrics = MultiProcessCollector._read_metrics(files)',
                                               'return MultiProcessCollector._accumulate_metrics(metrics, accumulate)']:
            raise Fail('merge changed')

        # --- mark_process_dead
        md = find_func(mp, 'mark_process_dead')
        fl = [s for s in md.body if isinstance(s, ast.For)]
        if len(fl) != 1 or norm(fl[0].iter) != '_LIVE_GAUGE_MULTIPROCESS_MODES' or norm(fl[0].target) != 'mode' or len(fl[0].body) != 1:
            raise Fail('mark_process_dead does not loop over the whole live-mode set')
        inner = fl[0].body[0]
        if not (isinstance(inner, ast.For) and isinstance(inner.iter, ast.Call) and norm(inner.iter.func) == 'glob.glob'
                and [norm(s) for s in inner.body] == ['os.remove(f)']):
            raise Fail('mark_process_dead removal loop changed')
        j = inner.iter.args[0]
        if not (isinstance(j, ast.Call) and norm(j.func) == 'os.path.join' and len(j.args) == 2 and norm(j.args[0]) == 'path'):
            raise Fail('mark_process_dead path expression changed')
        v['deadParts'] = fstring_parts(j.args[1], ['mode', 'pid'])

        # --- values.py
        vt = parse(repo, 'prometheus_client/values.py')
        mpv = find_func(vt, 'MultiProcessValue')
        for name in ('__init__', 'inc', 'set', 'get'):
            fn = nested_class_func(mpv, 'MmapedValue', name)
            body = with_lock_body(fn)
            if not body or norm(body[0]) != 'self.__check_for_pid_change()':
                raise Fail('%s does not call __check_for_pid_change first under the lock' % name)
            rest = [norm(s) for s in body[1:]]
            want = {
                '__init__': ['self.__reset()', 'values.append(self)'],
                'inc': ['self._value += amount', 'self._timestamp = 0.0',
                        'self._file.write_value(self._key, self._value, self._timestamp)'],
                'set': ['self._value = value', 'self._timestamp = timestamp or 0.0',
                        'self._file.write_value(self._key, self._value, self._timestamp)'],
                'get': ['return self._value'],
            }[name]
            if rest != want:
                raise Fail('%s body changed: %s' % (name, rest))
        ck = nested_class_func(mpv, 'MmapedValue', '__check_for_pid_change')
        if [norm(s) for s in ck.body] != [
                'actual_pid = process_identifier()',
                "if pid['value'] != actual_pid:\n    pid['value'] = actual_pid\n    for f in files.values():\n        f.close()\n"
                "    files.clear()\n    for value in values:\n        value.__reset()"]:
            raise Fail('__check_for_pid_change changed')
        rs = nested_class_func(mpv, 'MmapedValue', '__reset')
        rsrc = [norm(s) for s in rs.body]
        if len(rsrc) != 6 or rsrc[0] != 'typ, metric_name, name, labelnames, labelvalues, help_text, multiprocess_mode = self._params' \
                or rsrc[3:] != ['self._file = files[file_prefix]',
                                'self._key = mmap_key(metric_name, name, labelnames, labelvalues, help_text)',
                                'self._value, self._timestamp = self._file.read_value(self._key)']:
            raise Fail('__reset changed: %s' % rsrc[3:])
        pf = rs.body[1]
        if not (isinstance(pf, ast.If) and norm(pf.test) == "typ == 'gauge'"
                and len(pf.body) == 1 and len(pf.orelse) == 1 and norm(pf.orelse[0]) == 'file_prefix = typ'):
            raise Fail('__reset file_prefix choice changed')
        pe = pf.body[0].value
        if not (isinstance(pe, ast.BinOp) and isinstance(pe.left, ast.BinOp) and norm(pe.left.left) == 'typ'
                and norm(pe.right) == 'multiprocess_mode'):
            raise Fail('gauge file_prefix expression changed')
        v['gaugeSep'] = const(pe.left.right, str)
        op = rs.body[2]
        if not (isinstance(op, ast.If) and norm(op.test) == 'file_prefix not in files' and len(op.body) == 2
                and norm(op.body[1]) == 'files[file_prefix] = MmapedDict(filename)'):
            raise Fail('__reset file opening changed')
        fnv = op.body[0].value
        if not (isinstance(fnv, ast.Call) and norm(fnv.func) == 'os.path.join' and len(fnv.args) == 2):
            raise Fail('filename expression changed')
        fm = fnv.args[1]
        if not (isinstance(fm, ast.Call) and isinstance(fm.func, ast.Attribute) and fm.func.attr == 'format'
                and [norm(a) for a in fm.args] == ['file_prefix', "pid['value']"]):
            raise Fail('filename format call changed')
        pat = const(fm.func.value, str)
        pieces = pat.split('{}')
        if len(pieces) != 3 or '{' in ''.join(pieces) or '}' in ''.join(pieces):
            raise Fail('filename pattern %r not understood' % pat)
        v['fileParts'] = pieces
        mk = find_func(parse(repo, 'prometheus_client/mmap_dict.py'), 'mmap_key')
        if [norm(s) for s in mk.body if not (isinstance(s, ast.Expr) and isinstance(s.value, ast.Constant))] != [
                'labels = dict(zip(labelnames, labelvalues))',
                'return json.dumps([metric_name, name, labels, help_text], sort_keys=True)']:
            raise Fail('mmap_key changed')
    except Fail as e:
        ok, why = False, str(e)
    except Exception as e:  # noqa  -- a shape so unexpected that the extractor itself tripped: same treatment
        ok, why = False, 'extractor exception %s: %s' % (type(e).__name__, str(e).replace('\n', ' '))
    out = header(TARGET, SOURCES) + DECLS
    if not ok:
        out += '-- EXTRACT-FAIL multiprocess: %s\n' % why
    out += 'def extractOk : Bool := %s\n' % ('true' if ok else 'false')
    out += '/-- `Gauge._MULTIPROC_MODES` (source order) -/\n'
    out += 'def gaugeModes : List (List Char) := %s\n' % strlist(v['gaugeModes'])
    out += '/-- `Gauge._MOST_RECENT_MODES` -/\n'
    out += 'def mostRecentModes : List (List Char) := %s\n' % strlist(v['mostRecent'])
    out += '/-- `{m for m in Gauge._MULTIPROC_MODES if m.startswith(<livePrefix>)}` -/\n'
    out += 'def livePrefix : List Char := %s\n' % chars(v['livePrefix'])
    out += 'def liveModes : List (List Char) := gaugeModes.filter (fun m => livePrefix.isPrefixOf m)\n'
    out += '/-- `metrics_core.METRIC_TYPES` -/\n'
    out += 'def metricTypes : List (List Char) := %s\n' % strlist(v['metricTypes'])
    out += '/-- the `if metric._multiprocess_mode in (…)` chain of `_accumulate_metrics`, in source order; the final `else` is all/liveall -/\n'
    out += 'def gaugeRules : List (List (List Char) × GaugeRule) := [%s]\n' % ', '.join(
        '(%s, %s)' % (strlist(m), r) for m, r in v['rules'])
    out += '/-- `timestamp = float(timestamp or 0)` (true) or `float(timestamp)` (false) -/\n'
    out += 'def tsOrZero : Bool := %s\n' % ('true' if v['tsOrZero'] else 'false')
    out += 'def gaugeType : List Char := %s\n' % chars(v['gaugeType'])
    out += 'def histogramType : List Char := %s\n' % chars(v['histType'])
    out += 'def pidLabel : List Char := %s\n' % chars(v['pid'])
    out += 'def leLabel : List Char := %s\n' % chars(v['le'])
    out += 'def bucketSuffix : List Char := %s\n' % chars(v['bucket'])
    out += 'def countSuffix : List Char := %s\n' % chars(v['count'])
    out += "/-- `os.path.basename(f).split('_')` and `parts[2][:-3]` -/\n"
    out += 'def splitSep : Char := %s\n' % (ch(v['splitSep']) if v['splitSep'] else "' '")
    out += 'def extLen : Nat := %d\n' % v['extLen']
    out += "/-- literal pieces of `'{}_{}.db'.format(file_prefix, pid)` in values.py -/\n"
    out += 'def fileNameParts : List (List Char) := %s\n' % strlist(v['fileParts'])
    out += "/-- `typ + '_' + multiprocess_mode` -/\n"
    out += 'def gaugePrefixSep : List Char := %s\n' % chars(v['gaugeSep'])
    out += "/-- literal pieces of `f'gauge_{mode}_{pid}.db'` in `mark_process_dead` -/\n"
    out += 'def deadNameParts : List (List Char) := %s\n' % strlist(v['deadParts'])
    return out + footer(TARGET)
